use std::path::{Path, PathBuf};

fn run(name: &str, files: &[(&str, &str)]) -> (anyhow::Result<()>, PathBuf) {
    let root = std::env::temp_dir().join(format!("hunt2c10_{}_{}", std::process::id(), name));
    let _ = std::fs::remove_dir_all(&root);
    let in_dir = root.join("in");
    let out_dir = root.join("out");
    std::fs::create_dir_all(&in_dir).unwrap();
    std::fs::create_dir_all(&out_dir).unwrap();
    for (p, c) in files {
        let p = in_dir.join(p);
        std::fs::create_dir_all(p.parent().unwrap()).unwrap();
        std::fs::write(p, c).unwrap();
    }
    (pyxis::build(&in_dir, &out_dir, 4), out_dir)
}

fn show(name: &str, files: &[(&str, &str)]) {
    let (r, out) = run(name, files);
    println!("=== {name}: {}", match &r { Ok(()) => "OK".to_string(), Err(e) => format!("ERR {e:#}") });
    fn walk(d: &Path) {
        for e in std::fs::read_dir(d).unwrap() {
            let p = e.unwrap().path();
            if p.is_dir() { walk(&p) } else {
                println!("--- {}", p.display());
                if std::env::var("QUIET").is_err() { println!("{}", std::fs::read_to_string(&p).unwrap()); }
            }
        }
    }
    walk(&out);
}

fn main() {
    show("dotfile", &[(".pyxis", "type A { x: Missing }"), ("ok.pyxis", "type Z { x: u32 }")]);
    show("kwmod_import_raw", &[("game/mod.pyxis", "type A { x: u32 }"), ("other.pyxis", "use game::r#mod::A; type B { a: A }")]);
    show("kwmod_import_modstyle", &[("game/mod.pyxis", "type A { x: u32 }"), ("other.pyxis", "use game::r#mod; type B { a: A }")]);
    show("kwmod_import_plain", &[("game/mod.pyxis", "type A { x: u32 }"), ("other.pyxis", "use game::mod::A; type B { a: A }")]);
}
