use std::path::{Path, PathBuf};

fn run(name: &str, files: &[(&str, &str)]) -> (anyhow::Result<()>, PathBuf) {
    let root = std::env::temp_dir().join(format!("hunt2c10_{}_{}", std::process::id(), name));
    let _ = std::fs::remove_dir_all(&root);
    let in_dir = root.join("in");
    let out_dir = root.join("out");
    std::fs::create_dir_all(&in_dir).unwrap();
    std::fs::create_dir_all(&out_dir).unwrap();
    for (p, c) in files {
        let p = in_dir.join(p);
        std::fs::create_dir_all(p.parent().unwrap()).unwrap();
        std::fs::write(p, c).unwrap();
    }
    (pyxis::build(&in_dir, &out_dir, 4), out_dir)
}

fn show(name: &str, files: &[(&str, &str)]) {
    let (r, out) = run(name, files);
    println!("=== {name}: {}", match &r { Ok(()) => "OK".to_string(), Err(e) => format!("ERR {e:#}") });
    if r.is_ok() || std::env::var("SHOW").is_ok() {
        fn walk(d: &Path) {
            for e in std::fs::read_dir(d).unwrap() {
                let p = e.unwrap().path();
                if p.is_dir() { walk(&p) } else {
                    println!("--- {}", p.display());
                    println!("{}", std::fs::read_to_string(&p).unwrap());
                }
            }
        }
        if std::env::var("QUIET").is_err() { walk(&out); }
    }
}

fn main() {
    // H1: raw keyword type with vftable; reference its vftable type
    show("h1_rawkw_vftable", &[("m.pyxis", r#"
        type r#type { vftable { fn f(&self); } }
        type User { p: *const typeVftable }
    "#)]);
    show("h1b_rawkw_vftable_rawref", &[("m.pyxis", r#"
        type r#type { vftable { fn f(&self); } }
        type User { p: *const r#typeVftable }
    "#)]);
    show("h1c_rawkw_collide", &[("m.pyxis", r#"
        type r#type { vftable { fn f(&self); } }
        type typeVftable { x: u32 }
    "#)]);
    // H2: module named with keyword
    show("h2_mod_kw", &[("mod.pyxis", r#"
        type A { x: u8 }
        type B { a: A }
    "#)]);
    show("h2b_mod_kw_type", &[("type.pyxis", r#"
        type A { x: u8 }
        type B { a: A }
    "#)]);
    // H3: shadow predefined
    show("h3_shadow", &[("m.pyxis", r#"
        type u32 { x: u64 }
        type S { f: u32 }
    "#)]);
    // H4: second base unnamed
    show("h4_unnamed_second_base", &[("m.pyxis", r#"
        type A { x: u32 }
        impl A { #[address(0x10)] pub fn fa(&self); }
        type B { y: u32 }
        impl B { #[address(0x20)] pub fn fb(&self); }
        type D { #[base] a: A, #[base] _: B }
    "#)]);
}
