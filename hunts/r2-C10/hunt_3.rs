use std::path::{Path, PathBuf};

fn run(name: &str, files: &[(&str, &str)]) -> (anyhow::Result<()>, PathBuf) {
    let root = std::env::temp_dir().join(format!("hunt2c10_{}_{}", std::process::id(), name));
    let _ = std::fs::remove_dir_all(&root);
    let in_dir = root.join("in");
    let out_dir = root.join("out");
    std::fs::create_dir_all(&in_dir).unwrap();
    std::fs::create_dir_all(&out_dir).unwrap();
    for (p, c) in files {
        let p = in_dir.join(p);
        std::fs::create_dir_all(p.parent().unwrap()).unwrap();
        std::fs::write(p, c).unwrap();
    }
    (pyxis::build(&in_dir, &out_dir, 4), out_dir)
}

fn show(name: &str, files: &[(&str, &str)]) {
    let t = std::time::Instant::now();
    let (r, out) = run(name, files);
    println!("=== {name} [{:?}]: {}", t.elapsed(), match &r { Ok(()) => "OK".to_string(), Err(e) => format!("ERR {e:#}") });
    fn walk(d: &Path) {
        for e in std::fs::read_dir(d).unwrap() {
            let p = e.unwrap().path();
            if p.is_dir() { walk(&p) } else {
                println!("--- {}", p.display());
                if std::env::var("QUIET").is_err() { println!("{}", std::fs::read_to_string(&p).unwrap()); }
            }
        }
    }
    walk(&out);
}

fn main() {
    show("vft_as_base_and_enum_base", &[("m.pyxis", r#"
        enum E: TVftable { A = 0 }
        type D { #[base] v: TVftable, w: u32 }
        pub extern ev: TVftable;
        type T { vftable { fn f(&self, e: E, d: *const D); } }
    "#.replace("pub extern", "#[address(0x10)] pub extern").as_str())]);
    show("kw_vft_cross_module", &[("m.pyxis", r#"
        type r#match { vftable { fn f(&self); } }
    "#), ("n.pyxis", r#"
        use m::matchVftable;
        type U { p: *const matchVftable }
    "#)]);
    show("kw_vft_cross_module2", &[("m.pyxis", r#"
        type r#match { vftable { fn f(&self); } }
    "#), ("n.pyxis", r#"
        use m;
        type U { p: *const matchVftable, q: *const r#match }
    "#)]);
    show("hyphen_mod", &[("my-types.pyxis", "type A { x: u32 } type B { a: A }"), ("ok.pyxis", "type Z { x: u32 }")]);
    show("digit_mod", &[("3d.pyxis", "type A { x: u32 } type B { a: A }")]);
    show("mod_noref", &[("mod.pyxis", "type A { x: u32 }")]);
    show("dir_mod", &[("game/mod.pyxis", "type A { x: u32 } type B { a: *const A }"), ("game/ent.pyxis", "type E { x: u32 }")]);
}
