//! C10 finding 2: with an undefined name in a FIELD of a type `T` that has a vftable block,
//! the error also lists every type that embeds `TVftable` by value, although `TVftable`
//! counts as defined (T has a vftable block) and does not depend on T's fields at all.
//!
//! Exits 0 if the error lists exactly the types that cannot be resolved (`m::T`).
use std::collections::BTreeSet;

fn failed_types(source: &str) -> Result<BTreeSet<String>, String> {
    let root = std::env::temp_dir().join(format!("c10_finding2_{}", std::process::id()));
    let _ = std::fs::remove_dir_all(&root);
    let (in_dir, out_dir) = (root.join("in"), root.join("out"));
    std::fs::create_dir_all(&in_dir).unwrap();
    std::fs::create_dir_all(&out_dir).unwrap();
    std::fs::write(in_dir.join("m.pyxis"), source).unwrap();
    let error = match pyxis::build(&in_dir, &out_dir, 4) {
        Ok(()) => return Err("the build succeeded".into()),
        Err(e) => format!("{e:#}"),
    };
    println!("  error: {error}");
    let list = error
        .split("failed on types: [")
        .nth(1)
        .and_then(|rest| rest.split(']').next())
        .ok_or_else(|| format!("not the resolution error: {error}"))?;
    Ok(list
        .split(',')
        .map(|s| s.trim().trim_matches('"').to_string())
        .filter(|s| !s.is_empty())
        .collect())
}

fn main() {
    // Reference point: the undefined name is in a function signature of T instead of a field.
    // TVftable is generated, U resolves, only T is listed.
    println!("undefined name in an impl function of T:");
    let reference = failed_types(
        "type T { vftable { fn f(&self); }, m: u32 }\n\
         impl T { #[address(0x10)] fn g(&self, x: Missing); }\n\
         type U { v: TVftable }\n",
    )
    .unwrap();
    println!("  listed: {reference:?}");

    // The case of clause (c): the undefined name is in a field of T.
    println!("undefined name in a field of T:");
    let listed = failed_types(
        "type T { vftable { fn f(&self); }, m: Missing }\n\
         type U { v: TVftable }\n\
         type P { v: *const TVftable }\n",
    )
    .unwrap();
    println!("  listed: {listed:?}");

    let expected: BTreeSet<String> = ["m::T".to_string()].into_iter().collect();
    if listed != expected {
        println!(
            "VIOLATION: the only type that cannot be resolved is m::T (its field names `Missing`); \
             m::U only embeds TVftable, which is defined because T has a vftable block, yet the error lists {listed:?}"
        );
        std::process::exit(1);
    }
    println!("no violation");
}
