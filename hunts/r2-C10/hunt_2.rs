use std::path::{Path, PathBuf};

fn run(name: &str, files: &[(&str, &str)]) -> (anyhow::Result<()>, PathBuf) {
    let root = std::env::temp_dir().join(format!("hunt2c10_{}_{}", std::process::id(), name));
    let _ = std::fs::remove_dir_all(&root);
    let in_dir = root.join("in");
    let out_dir = root.join("out");
    std::fs::create_dir_all(&in_dir).unwrap();
    std::fs::create_dir_all(&out_dir).unwrap();
    for (p, c) in files {
        let p = in_dir.join(p);
        std::fs::create_dir_all(p.parent().unwrap()).unwrap();
        std::fs::write(p, c).unwrap();
    }
    (pyxis::build(&in_dir, &out_dir, 4), out_dir)
}

fn show(name: &str, files: &[(&str, &str)]) {
    let t = std::time::Instant::now();
    let (r, out) = run(name, files);
    println!("=== {name} [{:?}]: {}", t.elapsed(), match &r { Ok(()) => "OK".to_string(), Err(e) => format!("ERR {e:#}") });
    if r.is_ok() || std::env::var("SHOW").is_ok() {
        fn walk(d: &Path) {
            for e in std::fs::read_dir(d).unwrap() {
                let p = e.unwrap().path();
                if p.is_dir() { walk(&p) } else {
                    println!("--- {}", p.display());
                    println!("{}", std::fs::read_to_string(&p).unwrap());
                }
            }
        }
        if std::env::var("QUIET").is_err() { walk(&out); }
    }
}

fn main() {
    show("a_vft_of_broken", &[("m.pyxis", r#"
        type T { vftable { fn f(&self); }, m: Missing }
        type U { v: TVftable }
        type P { v: *const TVftable }
    "#)]);
    show("a2_vft_of_broken_impl", &[("m.pyxis", r#"
        type T { vftable { fn f(&self); }, m: u32 }
        impl T { #[address(0x10)] fn g(&self, x: Missing); }
        type U { v: TVftable }
    "#)]);
    let n = 2000;
    let mut s = String::new();
    for i in 0..n { s += &format!("type C{i} {{ x: C{} }}\n", i + 1); }
    s += &format!("type C{n} {{ x: u32 }}\n");
    show("b_chain", &[("m.pyxis", &s)]);
    show("c_concat", &[("m.pyxis", r#"
        type A { x: u32 }
        type B { x: u32 }
        type AB { x: u32, y: u32 }
        type C { f: A B }
    "#)]);
    show("g_unknown", &[("m.pyxis", r#"
        type unknown { x: u32 }
        type C { f: r#unknown, g: unknown<4> }
    "#)]);
    show("i_import_vs_own", &[("a.pyxis", "type X { x: u32 }"), ("b.pyxis", r#"
        use a::X;
        type X { x: u32, y: u32 }
        type C { f: X }
    "#)]);
    show("j_two_mods", &[("a.pyxis", "type X { x: u32 }"), ("b.pyxis", "type X { x: u32, y: u32 }"), ("c.pyxis", r#"
        use b;
        use a;
        type C { f: X }
    "#)]);
    let (r, _) = (pyxis::build(Path::new("/nonexistent/dir"), Path::new("/tmp/hunt2c10_out_none"), 4), 0);
    println!("=== nonexistent in_dir: {r:?}");
}
