//! C10 finding 4 (borderline): a module declares a type named like a predefined type.
//! Name lookup binds `u32` to the predefined type (root scope first), the layout is computed
//! with 4 bytes, but the field is emitted as the bare `u32`, which inside the generated module
//! IS the declared 8 byte struct. The accepted build does not contain the field with the type
//! it was resolved to.
//!
//! Exits 0 if the build is rejected, or if the emitted field type is what resolution used.
fn main() {
    let root = std::env::temp_dir().join(format!("c10_finding4_{}", std::process::id()));
    let _ = std::fs::remove_dir_all(&root);
    let (in_dir, out_dir) = (root.join("in"), root.join("out"));
    std::fs::create_dir_all(&in_dir).unwrap();
    std::fs::create_dir_all(&out_dir).unwrap();
    std::fs::write(
        in_dir.join("m.pyxis"),
        "#[align(8)]\ntype u32 { x: u64 }\ntype S { f: u32 }\n",
    )
    .unwrap();
    match pyxis::build(&in_dir, &out_dir, 4) {
        Err(e) => println!("rejected: {e:#}\nno violation"),
        Ok(()) => {
            let text = std::fs::read_to_string(out_dir.join("m.rs")).unwrap();
            let flat: String = text.chars().filter(|c| !c.is_whitespace()).collect();
            let declares_u32 = flat.contains("structu32{x:u64,}");
            let s_is_4_bytes = flat.contains("transmute::<[u8;0x4],S>");
            let s_is_8_bytes = flat.contains("transmute::<[u8;0x8],S>");
            let field_is_bare = flat.contains("structS{f:u32,}");
            let field_is_qualified = flat.contains("structS{f:crate::m::u32,}");
            println!("accepted; m.rs declares `struct u32` (8 bytes): {declares_u32}");
            println!("S laid out with 4 bytes: {s_is_4_bytes}, with 8 bytes: {s_is_8_bytes}");
            println!("S.f emitted as bare `u32`: {field_is_bare}, as `crate::m::u32`: {field_is_qualified}");
            let consistent = (s_is_8_bytes && field_is_qualified) || (s_is_4_bytes && !field_is_bare && !field_is_qualified);
            if !consistent {
                println!("VIOLATION: S was resolved against the predefined 4 byte u32, but in the generated module `f: u32` names the declared 8 byte `struct u32`");
                std::process::exit(1);
            }
            println!("no violation");
        }
    }
}
