// Differential fuzzer for C10: random dependency graphs vs. an independent oracle.
use std::collections::{BTreeMap, BTreeSet};
use std::path::PathBuf;

struct Rng(u64);
impl Rng {
    fn next(&mut self) -> u64 {
        self.0 ^= self.0 << 13;
        self.0 ^= self.0 >> 7;
        self.0 ^= self.0 << 17;
        self.0
    }
    fn below(&mut self, n: usize) -> usize {
        (self.next() % n as u64) as usize
    }
    fn chance(&mut self, pct: usize) -> bool {
        self.below(100) < pct
    }
}

#[derive(Clone, Debug, PartialEq)]
enum Shape {
    Value,
    Array(usize),
    PtrConst,
    PtrMut,
    PtrPtr,
    ArrayOfPtr(usize),
}
#[derive(Clone, Debug)]
struct Ref {
    name: String, // bare name
    shape: Shape,
}
impl Ref {
    fn by_value(&self) -> bool {
        matches!(self.shape, Shape::Value | Shape::Array(_))
    }
    fn pyxis(&self) -> String {
        let n = &self.name;
        match self.shape {
            Shape::Value => n.clone(),
            Shape::Array(k) => format!("[{n}; {k}]"),
            Shape::PtrConst => format!("*const {n}"),
            Shape::PtrMut => format!("*mut {n}"),
            Shape::PtrPtr => format!("*mut *const {n}"),
            Shape::ArrayOfPtr(k) => format!("[*mut {n}; {k}]"),
        }
    }
    fn rust(&self, full: &str) -> String {
        match self.shape {
            Shape::Value => full.to_string(),
            Shape::Array(k) => format!("[{full};{k}]"),
            Shape::PtrConst => format!("*const{full}"),
            Shape::PtrMut => format!("*mut{full}"),
            Shape::PtrPtr => format!("*mut*const{full}"),
            Shape::ArrayOfPtr(k) => format!("[*mut{full};{k}]"),
        }
    }
}

#[derive(Clone, Debug, PartialEq)]
enum Kind {
    Struct,
    StructVft,
    Enum,
    Extern,
}
#[derive(Clone, Debug)]
struct Func {
    name: String,
    args: Vec<Ref>,
    ret: Option<Ref>,
}
#[derive(Clone, Debug)]
struct Ty {
    name: String,
    module: usize,
    kind: Kind,
    fields: Vec<(String, Ref, bool)>, // name, ref, is_base
    vfuncs: Vec<Func>,
    impls: Vec<Func>,
    enum_base: Option<Ref>,
}

const MODULES: [&str; 4] = ["a", "b", "a::sub", "d::e"];

fn gen_ref(rng: &mut Rng, names: &[String], value_only: bool) -> Ref {
    let name = names[rng.below(names.len())].clone();
    let shape = if value_only {
        Shape::Value
    } else {
        match rng.below(8) {
            0 | 1 => Shape::Value,
            2 => Shape::Array(rng.below(3)),
            3 | 4 => Shape::PtrConst,
            5 => Shape::PtrMut,
            6 => Shape::PtrPtr,
            _ => Shape::ArrayOfPtr(rng.below(3)),
        }
    };
    Ref { name, shape }
}

fn main() {
    let args: Vec<String> = std::env::args().collect();
    let seed0: u64 = args.get(1).map(|s| s.parse().unwrap()).unwrap_or(1);
    let count: u64 = args.get(2).map(|s| s.parse().unwrap()).unwrap_or(500);
    let undefined_pct: usize = args.get(3).map(|s| s.parse().unwrap()).unwrap_or(6);
    let mut bad = 0;
    let (mut n_ok, mut n_err) = (0, 0);
    for seed in seed0..seed0 + count {
        let mut rng = Rng(seed.wrapping_mul(0x9E3779B97F4A7C15) | 1);
        for _ in 0..5 {
            rng.next();
        }
        let n_types = 2 + rng.below(11);
        let n_modules = 1 + rng.below(4);
        // decide kinds first
        let mut tys: Vec<Ty> = (0..n_types)
            .map(|i| Ty {
                name: format!("T{i}"),
                module: rng.below(n_modules),
                kind: match rng.below(10) {
                    0..=4 => Kind::Struct,
                    5..=7 => Kind::StructVft,
                    8 => Kind::Enum,
                    _ => Kind::Extern,
                },
                fields: vec![],
                vfuncs: vec![],
                impls: vec![],
                enum_base: None,
            })
            .collect();
        // name pool
        let mut pool: Vec<String> = vec!["u32".into()];
        for t in &tys {
            pool.push(t.name.clone());
            pool.push(t.name.clone());
            if t.kind == Kind::StructVft || rng.chance(3) {
                pool.push(format!("{}Vftable", t.name));
            }
        }
        let mut pool_undef = pool.clone();
        let n_undef = if rng.chance(50) { 0 } else { 1 + rng.below(2) };
        for k in 0..n_undef {
            for _ in 0..(1 + pool.len() * undefined_pct / 100) {
                pool_undef.push(format!("Missing{k}"));
            }
        }
        let pool = pool_undef;
        let kinds: BTreeMap<String, Kind> =
            tys.iter().map(|t| (t.name.clone(), t.kind.clone())).collect();
        // which types will have (own or inherited) vftable is decided as we go; to avoid the
        // legit "vftable mismatch" errors, a StructVft type only takes bases that are extern
        // types, vftable types, or undefined names.
        for i in 0..n_types {
            let kind = tys[i].kind.clone();
            match kind {
                Kind::Struct | Kind::StructVft => {
                    let nf = rng.below(4);
                    let nb = if rng.chance(40) { 1 + rng.below(2) } else { 0 };
                    for f in 0..nf {
                        let is_base = f < nb;
                        let r = if is_base {
                            // pick a base candidate
                            let mut tries = 0;
                            loop {
                                let r = gen_ref(&mut rng, &pool, true);
                                tries += 1;
                                let ok = match kinds.get(&r.name) {
                                    Some(Kind::Enum) => false,
                                    Some(Kind::Extern) => true,
                                    Some(_) => true,
                                    None => r.name != "u32", // Vftable name or Missing
                                };
                                if ok || tries > 20 {
                                    break if ok { Some(r) } else { None };
                                }
                            }
                        } else {
                            Some(gen_ref(&mut rng, &pool, false))
                        };
                        let Some(r) = r else { continue };
                        let is_base = is_base && r.shape == Shape::Value;
                        tys[i].fields.push((format!("f{f}"), r, is_base));
                    }
                    // bases must come first among is_base; (non-base fields before a base are legal too)
                    let mk_funcs = |rng: &mut Rng, prefix: &str, n: usize| -> Vec<Func> {
                        (0..n)
                            .map(|k| Func {
                                name: format!("{prefix}{k}"),
                                args: (0..rng.below(3))
                                    .map(|_| gen_ref(rng, &pool, false))
                                    .collect(),
                                ret: rng.chance(50).then(|| gen_ref(rng, &pool, false)),
                            })
                            .collect()
                    };
                    if kind == Kind::StructVft {
                        let n = rng.below(3);
                        tys[i].vfuncs = mk_funcs(&mut rng, &format!("vf_{}_", tys[i].name), n);
                    }
                    if rng.chance(40) {
                        let n = 1 + rng.below(2);
                        tys[i].impls = mk_funcs(&mut rng, &format!("fn_{}_", tys[i].name), n);
                    }
                }
                Kind::Enum => {
                    tys[i].enum_base = Some(if rng.chance(70) {
                        Ref { name: "u32".into(), shape: Shape::Value }
                    } else {
                        // never an array: `#[repr([..])]`is fine for pyxis but keep it simple
                        let mut r = gen_ref(&mut rng, &pool, false);
                        if matches!(r.shape, Shape::Array(_) | Shape::ArrayOfPtr(_)) {
                            r.shape = Shape::Value;
                        }
                        r
                    });
                }
                Kind::Extern => {}
            }
        }
        // final vfuncs: a type with its own vftable block must repeat those of its first base
        {
            let own: Vec<Vec<Func>> = tys.iter().map(|t| t.vfuncs.clone()).collect();
            let idx: BTreeMap<String, usize> = tys.iter().enumerate().map(|(i, t)| (t.name.clone(), i)).collect();
            fn first_base(t: &Ty) -> Option<&str> {
                t.fields.iter().find(|f| f.2).map(|f| f.1.name.as_str())
            }
            fn effective(name: &str, tys: &[Ty], idx: &BTreeMap<String, usize>, own: &[Vec<Func>], visiting: &mut Vec<usize>) -> Vec<Func> {
                let Some(&i) = idx.get(name) else { return vec![] };
                match tys[i].kind {
                    Kind::StructVft => final_vf(i, tys, idx, own, visiting),
                    Kind::Struct => {
                        if visiting.contains(&i) { return vec![]; }
                        visiting.push(i);
                        let r = match first_base(&tys[i]) { Some(b) => effective(b, tys, idx, own, visiting), None => vec![] };
                        visiting.pop();
                        r
                    }
                    _ => vec![],
                }
            }
            fn final_vf(i: usize, tys: &[Ty], idx: &BTreeMap<String, usize>, own: &[Vec<Func>], visiting: &mut Vec<usize>) -> Vec<Func> {
                if visiting.contains(&i) { return own[i].clone(); }
                visiting.push(i);
                let mut r = match first_base(&tys[i]) { Some(b) => effective(b, tys, idx, own, visiting), None => vec![] };
                visiting.pop();
                r.extend(own[i].iter().cloned());
                r
            }
            let finals: Vec<Vec<Func>> = (0..n_types).map(|i| if tys[i].kind == Kind::StructVft { final_vf(i, &tys, &idx, &own, &mut vec![]) } else { vec![] }).collect();
            for (i, f) in finals.into_iter().enumerate() { tys[i].vfuncs = f; }
        }
        // extern values
        let mut evs: Vec<(usize, String, Ref)> = vec![];
        for k in 0..rng.below(4) {
            evs.push((rng.below(n_modules), format!("ev{k}"), gen_ref(&mut rng, &pool, false)));
        }

        // ---- where is each name defined
        let mut def_module: BTreeMap<String, usize> = BTreeMap::new();
        for t in &tys {
            def_module.insert(t.name.clone(), t.module);
            if t.kind == Kind::StructVft {
                def_module.insert(format!("{}Vftable", t.name), t.module);
            }
        }
        let defined = |n: &str| n == "u32" || def_module.contains_key(n);
        let full = |n: &str| -> String {
            if n == "u32" {
                "u32".into()
            } else {
                format!("crate::{}::{}", MODULES[def_module[n]], n)
            }
        };

        // ---- oracle
        let all_refs_of = |t: &Ty| -> (Vec<Ref>, Vec<Ref>, Vec<Ref>) {
            let f: Vec<Ref> = t.fields.iter().map(|x| x.1.clone()).collect();
            let v: Vec<Ref> = t
                .vfuncs
                .iter()
                .flat_map(|f| f.args.iter().cloned().chain(f.ret.clone()))
                .collect();
            let i: Vec<Ref> = t
                .impls
                .iter()
                .flat_map(|f| f.args.iter().cloned().chain(f.ret.clone()))
                .collect();
            (f, v, i)
        };
        let mut generated: BTreeSet<String> = BTreeSet::new();
        for t in &tys {
            if t.kind == Kind::StructVft {
                let (f, v, _) = all_refs_of(t);
                if f.iter().chain(v.iter()).all(|r| defined(&r.name)) {
                    generated.insert(format!("{}Vftable", t.name));
                }
            }
        }
        let mut resolvable: BTreeSet<String> = BTreeSet::new();
        resolvable.insert("u32".into());
        for g in &generated {
            resolvable.insert(g.clone());
        }
        loop {
            let before = resolvable.len();
            for t in &tys {
                if resolvable.contains(&t.name) {
                    continue;
                }
                let ok = match t.kind {
                    Kind::Extern => true,
                    Kind::Enum => {
                        let b = t.enum_base.as_ref().unwrap();
                        defined(&b.name) && (!b.by_value() || resolvable.contains(&b.name))
                    }
                    _ => {
                        let (f, v, i) = all_refs_of(t);
                        f.iter().chain(v.iter()).chain(i.iter()).all(|r| defined(&r.name))
                            && f.iter().filter(|r| r.by_value()).all(|r| resolvable.contains(&r.name))
                    }
                };
                if ok {
                    resolvable.insert(t.name.clone());
                }
            }
            if resolvable.len() == before {
                break;
            }
        }
        let unresolvable: BTreeSet<String> = tys
            .iter()
            .filter(|t| !resolvable.contains(&t.name))
            .map(|t| format!("{}::{}", MODULES[t.module], t.name))
            .collect();
        let ev_undefined = evs.iter().any(|(_, _, r)| !defined(&r.name));
        let expect_ok = unresolvable.is_empty() && !ev_undefined;

        // ---- render sources
        let mut sources: Vec<String> = vec![String::new(); n_modules];
        for m in 0..n_modules {
            // collect foreign names
            let mut foreign: BTreeSet<String> = BTreeSet::new();
            let mut note = |r: &Ref| {
                if let Some(dm) = def_module.get(&r.name) {
                    if *dm != m {
                        foreign.insert(r.name.clone());
                    }
                }
            };
            for t in tys.iter().filter(|t| t.module == m) {
                let (f, v, i) = all_refs_of(t);
                f.iter().chain(v.iter()).chain(i.iter()).for_each(&mut note);
                if let Some(b) = &t.enum_base {
                    note(b);
                }
            }
            for (em, _, r) in &evs {
                if *em == m {
                    note(r);
                }
            }
            let mut src = String::new();
            let mut imported_mods: BTreeSet<usize> = BTreeSet::new();
            for n in &foreign {
                let dm = def_module[n];
                if rng.chance(50) {
                    src += &format!("use {}::{};\n", MODULES[dm], n);
                } else if imported_mods.insert(dm) {
                    src += &format!("use {};\n", MODULES[dm]);
                }
            }
            if rng.chance(10) {
                src += "use b::Missing0;\n";
            }
            let mut items: Vec<String> = vec![];
            for t in tys.iter().filter(|t| t.module == m) {
                let fn_src = |f: &Func, addr: bool| {
                    let mut s = String::new();
                    if addr {
                        s += "#[address(0x1000)] ";
                    }
                    s += &format!("pub fn {}(&self", f.name);
                    for (k, a) in f.args.iter().enumerate() {
                        s += &format!(", a{k}: {}", a.pyxis());
                    }
                    s += ")";
                    if let Some(r) = &f.ret {
                        s += &format!(" -> {}", r.pyxis());
                    }
                    s
                };
                match t.kind {
                    Kind::Extern => items.push(format!("#[size(4), align(4)]\nextern type {};\n", t.name)),
                    Kind::Enum => items.push(format!(
                        "pub enum {}: {} {{ A = 0, B = 1 }}\n",
                        t.name,
                        t.enum_base.as_ref().unwrap().pyxis()
                    )),
                    _ => {
                        let mut s = format!("pub type {} {{\n", t.name);
                        if t.kind == Kind::StructVft {
                            s += "  vftable {\n";
                            for f in &t.vfuncs {
                                s += &format!("    {};\n", fn_src(f, false));
                            }
                            s += "  },\n";
                        }
                        for (n, r, b) in &t.fields {
                            s += &format!("  {}pub {}: {},\n", if *b { "#[base] " } else { "" }, n, r.pyxis());
                        }
                        s += "}\n";
                        items.push(s);
                        if !t.impls.is_empty() {
                            let mut s = format!("impl {} {{\n", t.name);
                            for f in &t.impls {
                                s += &format!("  {};\n", fn_src(f, true));
                            }
                            s += "}\n";
                            items.push(s);
                        }
                    }
                }
            }
            for (em, n, r) in &evs {
                if *em == m {
                    items.push(format!("#[address(0x2000)]\npub extern {}: {};\n", n, r.pyxis()));
                }
            }
            // shuffle items
            for i in (1..items.len()).rev() {
                let j = rng.below(i + 1);
                items.swap(i, j);
            }
            for it in items {
                src += &it;
            }
            sources[m] = src;
        }

        // ---- run
        let root: PathBuf = std::env::temp_dir().join(format!("hunt2c10_fuzz_{}", std::process::id()));
        let _ = std::fs::remove_dir_all(&root);
        let (in_dir, out_dir) = (root.join("in"), root.join("out"));
        std::fs::create_dir_all(&out_dir).unwrap();
        for m in 0..n_modules {
            let p = in_dir.join(format!("{}.pyxis", MODULES[m].replace("::", "/")));
            std::fs::create_dir_all(p.parent().unwrap()).unwrap();
            std::fs::write(p, &sources[m]).unwrap();
        }
        let result = pyxis::build(&in_dir, &out_dir, 4);
        let problems: std::cell::RefCell<Vec<String>> = std::cell::RefCell::new(vec![]);
        match &result {
            Ok(()) => {
                n_ok += 1;
                if !expect_ok {
                    problems.borrow_mut().push(format!(
                        "ACCEPTED but expected rejection: unresolvable={unresolvable:?} ev_undefined={ev_undefined}"
                    ));
                } else {
                    // (d) output check
                    for m in 0..n_modules {
                        let p = out_dir.join(format!("{}.rs", MODULES[m].replace("::", "/")));
                        let text = std::fs::read_to_string(&p).unwrap_or_default();
                        let text: String = text.chars().filter(|c| !c.is_whitespace()).collect();
                        let need = |s: String| {
                            let s: String = s.chars().filter(|c| !c.is_whitespace()).collect();
                            if !text.contains(&s) {
                                problems.borrow_mut().push(format!("module {} output lacks `{s}`", MODULES[m]));
                            }
                        };
                        for t in tys.iter().filter(|t| t.module == m) {
                            match t.kind {
                                Kind::Extern => {}
                                Kind::Enum => {
                                    need(format!("pub enum {} {{", t.name));
                                    let b = t.enum_base.as_ref().unwrap();
                                    need(format!("#[repr({})]", b.rust(&full(&b.name))));
                                }
                                _ => {
                                    need(format!("pub struct {} {{", t.name));
                                    for (n, r, _) in &t.fields {
                                        if matches!(r.shape, Shape::Array(0) | Shape::ArrayOfPtr(0)) {
                                            continue; // known: zero-sized arrays are not emitted
                                        }
                                        // arrays of zero-sized types are zero-sized too: skip arrays
                                        if matches!(r.shape, Shape::Array(_)) {
                                            continue;
                                        }
                                        need(format!("pub {}: {},", n, r.rust(&full(&r.name))));
                                    }
                                    let sig = |f: &Func| {
                                        let mut s = format!("pub unsafe fn {}(&self,", f.name);
                                        if f.args.is_empty() {
                                            s = format!("pub unsafe fn {}(&self)", f.name);
                                        }
                                        for (k, a) in f.args.iter().enumerate() {
                                            s += &format!("a{k}: {},", a.rust(&full(&a.name)));
                                        }
                                        s
                                    };
                                    for f in t.impls.iter().chain(t.vfuncs.iter()) {
                                        let s = sig(f);
                                        // prettyplease may or may not add the trailing comma
                                        let s1: String = s.clone();
                                        let s2: String = s.trim_end_matches(',').to_string();
                                        let t1: String = s1.chars().filter(|c| !c.is_whitespace()).collect();
                                        let t2: String = s2.chars().filter(|c| !c.is_whitespace()).collect();
                                        let ret = f.ret.as_ref().map(|r| format!("->{}{{", r.rust(&full(&r.name)))).unwrap_or("{".into());
                                        if !(text.contains(&format!("{t1}){ret}")) || text.contains(&format!("{t2}){ret}")) || text.contains(&format!("{t2}{ret}"))) {
                                            problems.borrow_mut().push(format!("module {} lacks fn `{t1}) {ret}`", MODULES[m]));
                                        }
                                    }
                                    if t.kind == Kind::StructVft {
                                        need(format!("pub struct {}Vftable {{", t.name));
                                        for f in &t.vfuncs {
                                            let mut s = format!("pub {}: unsafe extern \"thiscall\" fn(this: *const crate::{}::{},", f.name, MODULES[m], t.name);
                                            for (k, a) in f.args.iter().enumerate() {
                                                s += &format!("a{k}: {},", a.rust(&full(&a.name)));
                                            }
                                            let s = s.trim_end_matches(',').to_string();
                                            let s: String = s.chars().filter(|c| !c.is_whitespace()).collect();
                                            let ret = f.ret.as_ref().map(|r| format!("->{}", r.rust(&full(&r.name)))).unwrap_or_default();
                                            if !(text.contains(&format!("{s}){ret},")) || text.contains(&format!("{s},){ret},"))) {
                                                problems.borrow_mut().push(format!("module {} vftable lacks slot `{s}){ret}`", MODULES[m]));
                                            }
                                        }
                                    }
                                }
                            }
                        }
                        for (em, n, r) in &evs {
                            if *em == m {
                                need(format!("pub unsafe fn get_{}() -> &'static mut {} {{", n, r.rust(&full(&r.name))));
                            }
                        }
                    }
                }
            }
            Err(e) => {
                n_err += 1;
                let msg = format!("{e:#}");
                if expect_ok {
                    problems.borrow_mut().push(format!("REJECTED but expected acceptance: {msg}"));
                } else if !unresolvable.is_empty() {
                    // parse the list
                    if let Some(rest) = msg.strip_prefix("type resolution will not terminate, failed on types: [") {
                        let list = rest.split(']').next().unwrap();
                        let got: BTreeSet<String> = list
                            .split(", ")
                            .filter(|s| !s.is_empty())
                            .map(|s| s.trim_matches('"').to_string())
                            .collect();
                        if got != unresolvable {
                            problems.borrow_mut().push(format!("LIST MISMATCH got={got:?} expected={unresolvable:?}"));
                        }
                    } else {
                        problems.borrow_mut().push(format!("OTHER ERROR (expected list {unresolvable:?}): {msg}"));
                    }
                } else if !msg.contains("failed to resolve type for") {
                    problems.borrow_mut().push(format!("OTHER ERROR (expected extern value error): {msg}"));
                }
            }
        }
        let problems = problems.into_inner();
        if !problems.is_empty() {
            bad += 1;
            println!("##### seed {seed}: {} problem(s)", problems.len());
            for p in &problems {
                println!("  {p}");
            }
            for m in 0..n_modules {
                println!("--- {}.pyxis\n{}", MODULES[m], sources[m]);
            }
            if bad > 5 {
                break;
            }
        }
        let _ = std::fs::remove_dir_all(&root);
    }
    println!("done: ok={n_ok} err={n_err} bad={bad}");
}
