//! C10 finding 1: the generated vftable type of a type whose name is a raw keyword
//! (`r#type`, `r#match`, `r#box`, ...) cannot be referred to by any spelling, and a user type
//! that collides with it in the generated Rust is accepted.
//!
//! Exits 0 if (a) a program that mentions `<Type>Vftable` of such a type is accepted and the
//! reference is emitted, and (b) no accepted build defines the same Rust item twice.
use std::path::PathBuf;

fn build(name: &str, files: &[(&str, &str)]) -> (anyhow::Result<()>, PathBuf) {
    let root = std::env::temp_dir().join(format!("c10_finding1_{}_{}", std::process::id(), name));
    let _ = std::fs::remove_dir_all(&root);
    let (in_dir, out_dir) = (root.join("in"), root.join("out"));
    std::fs::create_dir_all(&out_dir).unwrap();
    for (p, c) in files {
        let p = in_dir.join(p);
        std::fs::create_dir_all(p.parent().unwrap()).unwrap();
        std::fs::write(p, c).unwrap();
    }
    (pyxis::build(&in_dir, &out_dir, 4), out_dir)
}

fn main() {
    let mut violations = 0;

    // Control: the same program with an ordinary name is accepted.
    let (r, _) = build(
        "control",
        &[("m.pyxis", "type Thing { vftable { fn f(&self); } }\ntype User { p: *const ThingVftable }\n")],
    );
    assert!(r.is_ok(), "control program must build: {r:?}");

    // (a) every spelling of the vftable type's name, same module and imported.
    let spellings: [(&str, Vec<(&str, &str)>); 4] = [
        ("plain", vec![("m.pyxis", "type r#type { vftable { fn f(&self); } }\ntype User { p: *const typeVftable }\n")]),
        ("raw", vec![("m.pyxis", "type r#type { vftable { fn f(&self); } }\ntype User { p: *const r#typeVftable }\n")]),
        ("type_import", vec![
            ("m.pyxis", "type r#type { vftable { fn f(&self); } }\n"),
            ("n.pyxis", "use m::typeVftable;\ntype User { p: *const typeVftable }\n"),
        ]),
        ("module_import", vec![
            ("m.pyxis", "type r#type { vftable { fn f(&self); } }\n"),
            ("n.pyxis", "use m;\ntype User { p: *const typeVftable, q: *const r#type }\n"),
        ]),
    ];
    let mut accepted_any = false;
    for (name, files) in &spellings {
        let (r, out) = build(name, files);
        match r {
            Ok(()) => {
                let module = if files.len() == 1 { "m.rs" } else { "n.rs" };
                let text = std::fs::read_to_string(out.join(module)).unwrap();
                let flat: String = text.chars().filter(|c| !c.is_whitespace()).collect();
                if flat.contains("p:*constcrate::m::r#typeVftable") || flat.contains("p:*constcrate::m::typeVftable") {
                    accepted_any = true;
                    println!("(a) spelling `{name}`: accepted, reference emitted");
                } else {
                    println!("(a) spelling `{name}`: accepted, but the reference is not in the output:\n{text}");
                }
            }
            Err(e) => println!("(a) spelling `{name}`: REJECTED: {e:#}"),
        }
    }
    if !accepted_any {
        println!("VIOLATION (a): `type r#type` has a vftable block, so `typeVftable` counts as defined, but no spelling of that name resolves");
        violations += 1;
    }

    // (b) a user type named like the generated one (as Rust sees it).
    let (r, out) = build(
        "collision",
        &[("m.pyxis", "type r#type { vftable { fn f(&self); } }\ntype typeVftable { x: u32 }\n")],
    );
    match r {
        Err(e) => println!("(b) collision rejected: {e:#}"),
        Ok(()) => {
            let text = std::fs::read_to_string(out.join("m.rs")).unwrap();
            let count = text
                .lines()
                .filter(|l| {
                    let l = l.trim().trim_start_matches("pub ");
                    l.starts_with("struct typeVftable ") || l.starts_with("struct r#typeVftable ")
                })
                .count();
            println!("(b) collision accepted; the output defines `struct typeVftable` {count} time(s)");
            if count > 1 {
                println!("VIOLATION (b): two items of one Rust name in an accepted build");
                violations += 1;
            }
        }
    }

    if violations > 0 {
        std::process::exit(1);
    }
    println!("no violation");
}
