//! C10 finding 3: a valid program placed in a module whose file name is a Rust keyword
//! (`mod.pyxis`, `type.pyxis`, ...) is rejected: resolution succeeds, then writing the module
//! fails with "expected identifier, found keyword `mod`", and no other module can import
//! from it under any spelling.
//!
//! Exits 0 if the program builds whatever module it is placed in.
use std::path::PathBuf;

fn build(name: &str, files: &[(&str, &str)]) -> (anyhow::Result<()>, PathBuf) {
    let root = std::env::temp_dir().join(format!("c10_finding3_{}_{}", std::process::id(), name));
    let _ = std::fs::remove_dir_all(&root);
    let (in_dir, out_dir) = (root.join("in"), root.join("out"));
    std::fs::create_dir_all(&out_dir).unwrap();
    for (p, c) in files {
        let p = in_dir.join(p);
        std::fs::create_dir_all(p.parent().unwrap()).unwrap();
        std::fs::write(p, c).unwrap();
    }
    (pyxis::build(&in_dir, &out_dir, 4), out_dir)
}

const PROGRAM: &str = "type A { x: u32 }\ntype B { a: A, p: *const B }\n";

fn main() {
    let mut violations = 0;
    let (r, _) = build("control", &[("game/entity.pyxis", PROGRAM)]);
    assert!(r.is_ok(), "control placement must build: {r:?}");

    for placement in ["game/mod.pyxis", "type.pyxis", "match.pyxis"] {
        let (r, _) = build("placed", &[(placement, PROGRAM)]);
        match r {
            Ok(()) => println!("{placement}: accepted"),
            Err(e) => {
                println!("{placement}: REJECTED: {e:#}");
                violations += 1;
            }
        }
    }

    // Referring to such a module from another one.
    for (style, import) in [
        ("type import, raw", "use game::r#mod::A;"),
        ("module import, raw", "use game::r#mod;"),
        ("type import, plain", "use game::mod::A;"),
    ] {
        let other = format!("{import}\ntype C {{ a: *const A }}\n");
        let (r, _) = build("import", &[("game/mod.pyxis", "type A { x: u32 }\n"), ("other.pyxis", &other)]);
        match r {
            Ok(()) => println!("{style}: accepted"),
            Err(e) => println!("{style}: rejected: {e:#}"),
        }
    }

    if violations > 0 {
        println!("VIOLATION: the same definitions are accepted in game/entity.pyxis but rejected in {violations} other module placements");
        std::process::exit(1);
    }
    println!("no violation");
}
