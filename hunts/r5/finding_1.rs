//! Finding 1 (C12): the backend's "written type nesting" limit (3d4d3b7, reworked by 0b56c24)
//! does not see every kind of nesting that syn descends into. Directory names supply module
//! path segments; `{`..`}` (const generic blocks) are not counted at all, and the `>` of `->`
//! is counted as a closing bracket. A type reference into such a module is handed to
//! `syn::parse_str` on the caller's stack and overflows it: the process aborts.
//!
//! Exits 0 when the build returns (Ok or Err), 1 when the build kills the process.
use std::path::PathBuf;

fn child(variant: &str) {
    let root = PathBuf::from(std::env::var("FINDING_ROOT").unwrap());
    let input = root.join("in");
    let out = root.join("out");
    let mut dir = input.clone();
    match variant {
        "braces" => {
            // crate::a<{{{..x::<{{{..1::}}}..::}}}..>::m::B   (500 levels of `{`, two `<`)
            let open = "{".repeat(250);
            let close = "}".repeat(250);
            dir.push(format!("a<{open}x"));
            dir.push(format!("<{open}1"));
            dir.push(&close);
            dir.push(format!("{close}>"));
        }
        _ => {
            // crate::a<fn()->a::a<fn()->a::..::m::B   (every `<` is un-counted by the `>` of `->`)
            for _ in 0..380 {
                dir.push("a<fn()->a");
            }
        }
    }
    std::fs::create_dir_all(&dir).unwrap();
    std::fs::create_dir_all(&out).unwrap();
    std::fs::write(dir.join("m.pyxis"), "type B { x: u32 }\ntype A { p: *mut B }\n").unwrap();
    match pyxis::build(&input, &out, 8) {
        Ok(()) => println!("[{variant}] build returned Ok"),
        Err(e) => {
            let s = format!("{e:#}");
            println!("[{variant}] build returned Err: {}", s.chars().take(200).collect::<String>());
        }
    }
}

fn main() {
    if let Ok(variant) = std::env::var("FINDING_CHILD") {
        child(&variant);
        return;
    }
    let mut bad = false;
    for variant in ["braces", "arrow"] {
        let root = std::env::temp_dir().join(format!("rev5_f1_{}_{variant}", std::process::id()));
        let _ = std::fs::remove_dir_all(&root);
        std::fs::create_dir_all(&root).unwrap();
        let status = std::process::Command::new(std::env::current_exe().unwrap())
            .env("FINDING_CHILD", variant)
            .env("FINDING_ROOT", &root)
            .status()
            .unwrap();
        let _ = std::fs::remove_dir_all(&root);
        if !status.success() {
            println!("VIOLATION [{variant}]: pyxis::build did not return, the process died: {status}");
            bad = true;
        }
    }
    std::process::exit(if bad { 1 } else { 0 });
}
