//! Finding 2 (C12): dadaf51 moved parsing + pretty-printing of the generated code onto a thread
//! with a 256 MiB stack instead of bounding the recursion. Both steps still recurse once per
//! level of nesting in a prologue/epilogue, so a prologue of ~12 KB (`type T = &&&&..&u8;`,
//! or as many parentheses) overflows that stack too (unoptimised build; proportionally more
//! in an optimised one) and the whole process aborts instead of `build` returning an error.
//! The prologue is a string literal, so the 256-bracket limit of the parser does not see it.
//!
//! Exits 0 when the build returns (Ok or Err), 1 when the build kills the process.
use std::path::PathBuf;

fn child(variant: &str) {
    let n: usize = std::env::var("FINDING_N").ok().and_then(|n| n.parse().ok()).unwrap_or(40000);
    let root = PathBuf::from(std::env::var("FINDING_ROOT").unwrap());
    let input = root.join("in");
    let out = root.join("out");
    std::fs::create_dir_all(&input).unwrap();
    std::fs::create_dir_all(&out).unwrap();
    let body = match variant {
        "amp" => format!("type T = {}u8;", "&".repeat(n)),
        _ => format!("type T = {}u8{};", "(".repeat(n), ")".repeat(n)),
    };
    let text = format!("backend rust prologue r#\"{body}\"#;\ntype A {{ x: u32 }}\n");
    println!("[{variant}] input is {} bytes", text.len());
    std::fs::write(input.join("m.pyxis"), text).unwrap();
    match pyxis::build(&input, &out, 8) {
        Ok(()) => println!("[{variant}] build returned Ok"),
        Err(e) => {
            let s = format!("{e:#}");
            println!("[{variant}] build returned Err: {}", s.chars().take(200).collect::<String>());
        }
    }
}

fn main() {
    if let Ok(variant) = std::env::var("FINDING_CHILD") {
        child(&variant);
        return;
    }
    let mut bad = false;
    for variant in ["amp", "paren"] {
        let root = std::env::temp_dir().join(format!("rev5_f2_{}_{variant}", std::process::id()));
        let _ = std::fs::remove_dir_all(&root);
        std::fs::create_dir_all(&root).unwrap();
        let status = std::process::Command::new(std::env::current_exe().unwrap())
            .env("FINDING_CHILD", variant)
            .env("FINDING_ROOT", &root)
            .status()
            .unwrap();
        let _ = std::fs::remove_dir_all(&root);
        if !status.success() {
            println!("VIOLATION [{variant}]: pyxis::build did not return, the process died: {status}");
            bad = true;
        }
    }
    std::process::exit(if bad { 1 } else { 0 });
}
