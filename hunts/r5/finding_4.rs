//! Finding 4 (C10, over-rejection): the parser accepts up to 32 pointer/array levels in a type.
//! Since 3d4d3b7 the backend measures the written form of a whole vftable slot
//! (`unsafe extern "C" fn (this: .., a: <type>)`), where the parameter list adds one level:
//! a vftable function whose parameter has 32 pointer levels (31 is fine, and the same type is
//! fine as a field or in an `impl` function) fails the build with
//! "nested more than 32 levels deep", although the parser's own limit admits it and it built
//! before that commit. Exits 0 when the build succeeds, 1 otherwise.
fn run(levels: usize) -> bool {
    let root = std::env::temp_dir().join(format!("rev5_f4_{}_{levels}", std::process::id()));
    let _ = std::fs::remove_dir_all(&root);
    let input = root.join("in");
    let out = root.join("out");
    std::fs::create_dir_all(&input).unwrap();
    std::fs::create_dir_all(&out).unwrap();
    let ty = format!("{}u8", "*mut ".repeat(levels));
    let text = format!(
        "type A {{\n    vftable {{\n        fn f(&self, a: {ty});\n    }},\n    x: {ty},\n}}\n"
    );
    std::fs::write(input.join("m.pyxis"), text).unwrap();
    let r = pyxis::build(&input, &out, 8);
    let _ = std::fs::remove_dir_all(&root);
    match r {
        Ok(()) => {
            println!("[{levels} levels] build ok");
            true
        }
        Err(e) => {
            let s = format!("{e:#}");
            println!("VIOLATION [{levels} levels]: rejected: {}", s.chars().take(160).collect::<String>());
            false
        }
    }
}
fn main() {
    let a = run(31);
    let b = run(32);
    std::process::exit(if a && b { 0 } else { 1 });
}
