//! Finding 3 (C14 / C10): dc98ce9 made a file called just `.pyxis` an input file again, but
//! `ItemPath::from_path` does not strip that "extension" (it only strips a dot that is not the
//! first character): the module is called `.pyxis`, not ``.
//!  (a) `.pyxis` is written to `.pyxis.rs`, the output path of the input file `.pyxis.pyxis`;
//!      an input set holding both is rejected ("module `.pyxis` is defined more than once").
//!  (b) a `.pyxis` file (also `d/.pyxis`) in which one type mentions another of its own types
//!      can never be built: the reference is written `crate::.pyxis::B`, which is no Rust path
//!      ("expected identifier"), although every name is defined and nothing is cyclic.
//! Exits 0 when both builds succeed, 1 otherwise.
fn run(tag: &str, files: &[(&str, &str)]) -> bool {
    let root = std::env::temp_dir().join(format!("rev5_f3_{}_{tag}", std::process::id()));
    let _ = std::fs::remove_dir_all(&root);
    let input = root.join("in");
    let out = root.join("out");
    std::fs::create_dir_all(&out).unwrap();
    for (p, t) in files {
        let f = input.join(p);
        std::fs::create_dir_all(f.parent().unwrap()).unwrap();
        std::fs::write(f, t).unwrap();
    }
    let r = pyxis::build(&input, &out, 8);
    let ok = match &r {
        Ok(()) => {
            println!("[{tag}] build ok");
            true
        }
        Err(e) => {
            println!("VIOLATION [{tag}]: valid input set rejected: {e:#}");
            false
        }
    };
    let _ = std::fs::remove_dir_all(&root);
    ok
}

fn main() {
    let a = run(
        "two_files",
        &[(".pyxis", "type A { x: u32 }"), (".pyxis.pyxis", "type B { x: u32 }")],
    );
    let b = run("self_ref", &[("d/.pyxis", "type B { x: u32 }\ntype A { p: *mut B }")]);
    std::process::exit(if a && b { 0 } else { 1 });
}
