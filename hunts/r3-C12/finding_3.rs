//! Finding 3 (C12): six kilobytes of token soup, `(((..)))` 3000 levels deep, abort the
//! process with a stack overflow inside `pyxis::parser::parse_str` (and so in `add_file`
//! and `build`) on a thread with Rust's default stack size of 2 MiB; the nesting limit of
//! the type parser is only consulted after syn has built its token buffer, recursing once
//! per level of brackets. (On an 8 MiB main thread the same happens from roughly 12000
//! levels, 24 KB of `(`..`)`, or 70 KB of nested array types.) Debug build.
//!
//! Exit code 0: parsing returned (Ok or Err). Exit code 1: parsing killed the process.
const DEFAULT_THREAD_STACK: usize = 2 * 1024 * 1024; // std's default for spawned threads

fn input(levels: usize) -> String {
    format!("{}{}", "(".repeat(levels), ")".repeat(levels))
}

fn child(levels: usize) {
    let text = input(levels);
    let result = std::thread::Builder::new()
        .stack_size(DEFAULT_THREAD_STACK)
        .spawn(move || pyxis::parser::parse_str(&text).map(|_| ()).map_err(|e| e.to_string()))
        .unwrap()
        .join();
    match result {
        Ok(Ok(())) => println!("  parse_str returned Ok"),
        Ok(Err(e)) => println!("  parse_str returned Err: {e}"),
        Err(_) => {
            println!("  parse_str panicked");
            std::process::exit(3);
        }
    }
}

fn run_child(levels: usize) -> bool {
    println!("{levels} levels, {} bytes of input:", input(levels).len());
    let status = std::process::Command::new(std::env::current_exe().unwrap())
        .args(["child", &levels.to_string()])
        .status()
        .unwrap();
    if !status.success() {
        println!("  the process running the parser died: {status}");
    }
    status.success()
}

fn main() {
    let args: Vec<String> = std::env::args().collect();
    if args.get(1).map(|s| s.as_str()) == Some("child") {
        child(args[2].parse().unwrap());
        return;
    }
    assert!(run_child(100), "control case failed");
    if !run_child(3000) {
        println!("VIOLATION: a few kilobytes of input made the parser abort instead of returning an error");
        std::process::exit(1);
    }
    println!("no violation");
}
