//! Finding 2 (C12): the nesting limit for generic-looking names does not cover the module
//! half of a type's path, which is taken from file and directory names. A directory and a
//! file called `a<a<a<..a` put hundreds of `<` into `crate::<module path>::T`, which the
//! backend parses as a Rust type on the caller's stack: the process is killed by a stack
//! overflow even on the main thread (8 MiB). Debug build.
//!
//! Exit code 0: the build returned (Ok or Err). Exit code 1: the build killed the process.
use std::path::PathBuf;

fn child() {
    let dir: PathBuf = std::env::temp_dir().join(format!("pyxis_c12_f2_{}", std::process::id()));
    let _ = std::fs::remove_dir_all(&dir);
    // 8 path components with 120 `<` each: 960 levels, about 2 KiB of path
    let component = format!("{}a", "a<".repeat(120));
    let mut module_dir = dir.join("in");
    for _ in 0..7 {
        module_dir.push(&component);
    }
    std::fs::create_dir_all(&module_dir).unwrap();
    std::fs::create_dir_all(dir.join("out")).unwrap();
    // `U` has a field of type `T`: emitted as `crate::<module path>::T`
    std::fs::write(
        module_dir.join(format!("{component}.pyxis")),
        "type T { x: u32 }\ntype U { t: T }\n",
    )
    .unwrap();
    // on the main thread
    let result = pyxis::build(&dir.join("in"), &dir.join("out"), 8);
    let _ = std::fs::remove_dir_all(&dir);
    match result {
        Ok(()) => println!("  build returned Ok"),
        Err(e) => println!("  build returned Err: {}", format!("{e:#}").chars().take(200).collect::<String>()),
    }
}

fn main() {
    if std::env::args().nth(1).as_deref() == Some("child") {
        child();
        return;
    }
    let status = std::process::Command::new(std::env::current_exe().unwrap())
        .arg("child")
        .status()
        .unwrap();
    if !status.success() {
        println!("  the process running the build died: {status}");
        println!("VIOLATION: file names with `<` made the build abort instead of returning a result");
        // the child could not clean up
        for entry in std::fs::read_dir(std::env::temp_dir()).unwrap().flatten() {
            if entry.file_name().to_string_lossy().starts_with("pyxis_c12_f2_") {
                let _ = std::fs::remove_dir_all(entry.path());
            }
        }
        std::process::exit(1);
    }
    println!("no violation");
}
