//! Finding 1 (C12): a type within the documented nesting limits (32 pointer levels around a
//! name with 32 levels of `<`) aborts the process with a stack overflow when `pyxis::build`
//! is called on a thread with Rust's default stack size (2 MiB: `std::thread::spawn`,
//! every `cargo test` test thread). Debug build.
//!
//! Exit code 0: the build returned (Ok or Err). Exit code 1: the build killed the process.
//!
//! The build itself runs in a child process (this same binary, argument `child`) so that
//! the abort can be observed and reported.
use std::path::PathBuf;

const DEFAULT_THREAD_STACK: usize = 2 * 1024 * 1024; // std's default for spawned threads

fn input(pointer_levels: usize, generic_levels: usize) -> String {
    let ptrs = "*mut ".repeat(pointer_levels);
    let name = format!("{}A{}", "A<".repeat(generic_levels), ">".repeat(generic_levels));
    format!("#[size(4), align(4)]\nextern type {name};\ntype B {{ a: {ptrs}{name} }}\n")
}

fn child(pointer_levels: usize, generic_levels: usize) {
    let dir: PathBuf = std::env::temp_dir().join(format!("pyxis_c12_f1_{}", std::process::id()));
    let _ = std::fs::remove_dir_all(&dir);
    std::fs::create_dir_all(dir.join("in")).unwrap();
    std::fs::create_dir_all(dir.join("out")).unwrap();
    std::fs::write(dir.join("in/m.pyxis"), input(pointer_levels, generic_levels)).unwrap();
    let (i, o) = (dir.join("in"), dir.join("out"));
    // explicit size: independent of RUST_MIN_STACK
    let result = std::thread::Builder::new()
        .stack_size(DEFAULT_THREAD_STACK)
        .spawn(move || pyxis::build(&i, &o, 8).map_err(|e| format!("{e:#}")))
        .unwrap()
        .join();
    let _ = std::fs::remove_dir_all(&dir);
    match result {
        Ok(Ok(())) => println!("  build returned Ok"),
        Ok(Err(e)) => println!("  build returned Err: {e}"),
        Err(_) => {
            println!("  build panicked");
            std::process::exit(3);
        }
    }
}

fn run_child(p: usize, g: usize) -> bool {
    println!("{p} pointer levels, {g} `<` levels, {} bytes of input:", input(p, g).len());
    let status = std::process::Command::new(std::env::current_exe().unwrap())
        .args(["child", &p.to_string(), &g.to_string()])
        .status()
        .unwrap();
    if !status.success() {
        println!("  the process running the build died: {status}");
        // the child could not clean up
        for entry in std::fs::read_dir(std::env::temp_dir()).unwrap().flatten() {
            if entry.file_name().to_string_lossy().starts_with("pyxis_c12_f1_") {
                let _ = std::fs::remove_dir_all(entry.path());
            }
        }
    }
    status.success()
}

fn main() {
    let args: Vec<String> = std::env::args().collect();
    if args.get(1).map(|s| s.as_str()) == Some("child") {
        child(args[2].parse().unwrap(), args[3].parse().unwrap());
        return;
    }
    // control: shallow nesting works
    assert!(run_child(4, 4), "control case failed");
    // 33 levels of either kind are rejected with an error, as the limit promises
    assert!(run_child(33, 1), "control case failed");
    assert!(run_child(1, 33), "control case failed");
    // both limits used to the full: accepted by the parser, kills the process in the backend
    if !run_child(32, 32) {
        println!("VIOLATION: an accepted input made the build abort instead of returning a result");
        std::process::exit(1);
    }
    println!("no violation");
}
