//! CANDIDATE (not a confirmed finding, see HUNT/REPORT.txt): the same input set (relative paths
//! and contents) gives a different successful result depending on where the input directory is.
//!
//! The tree is `in/top.pyxis` plus `in/<15 directories of 200 chars>/deep.pyxis` (relative path
//! about 3000 bytes, well inside PATH_MAX). It is created twice: under a short absolute path,
//! and under one that is 1200 bytes longer. Both are built with a *relative* `in_dir` from the
//! directory that holds `in`, so every path the walker uses is short enough to be opened; only
//! `canonicalize` (the walker's symlink-cycle protection) fails once the absolute path passes
//! PATH_MAX, and the walker then skips the directory without a word.
//!
//! Exits 0 if both builds give the same result, 1 if they differ.
use std::collections::BTreeMap;
use std::path::{Path, PathBuf};

fn collect(dir: &Path, base: &Path, out: &mut BTreeMap<PathBuf, Vec<u8>>) {
    let Ok(rd) = std::fs::read_dir(dir) else { return };
    for e in rd {
        let p = e.unwrap().path();
        if p.is_dir() {
            collect(&p, base, out);
        } else {
            out.insert(p.strip_prefix(base).unwrap().to_path_buf(), std::fs::read(&p).unwrap());
        }
    }
}

/// Creates `in/` in the current directory, with relative steps only
fn make_tree_here() {
    let here = std::env::current_dir().unwrap();
    std::fs::create_dir("in").unwrap();
    std::fs::write("in/top.pyxis", "pub type A { x: u32 }\n").unwrap();
    std::env::set_current_dir("in").unwrap();
    for _ in 0..15 {
        let seg = "d".repeat(200);
        std::fs::create_dir(&seg).unwrap();
        std::env::set_current_dir(&seg).unwrap();
    }
    std::fs::write("deep.pyxis", "pub type B { y: u32 }\n").unwrap();
    std::env::set_current_dir(here).unwrap();
}

fn build_here(out: &Path) -> Result<BTreeMap<PathBuf, Vec<u8>>, String> {
    match pyxis::build(Path::new("in"), out, 4) {
        Ok(()) => {
            let mut m = BTreeMap::new();
            collect(out, out, &mut m);
            Ok(m)
        }
        Err(e) => Err(format!("{e:#}")),
    }
}

fn main() {
    let start = std::env::current_dir().unwrap();
    let root = std::env::temp_dir().join(format!("hunt2-C09-cand1-{}", std::process::id()));
    let _ = std::fs::remove_dir_all(&root);
    let short = root.join("short");
    let long = root.join("long");
    std::fs::create_dir_all(&short).unwrap();
    std::fs::create_dir_all(&long).unwrap();

    std::env::set_current_dir(&short).unwrap();
    make_tree_here();
    let result_short = build_here(&root.join("out_short"));

    std::env::set_current_dir(&long).unwrap();
    for _ in 0..6 {
        let seg = "p".repeat(200);
        std::fs::create_dir(&seg).unwrap();
        std::env::set_current_dir(&seg).unwrap();
    }
    make_tree_here();
    // the deep file can be read through the relative path the walker would use
    let rel = format!("in/{}deep.pyxis", format!("{}/", "d".repeat(200)).repeat(15));
    assert!(std::fs::read_to_string(&rel).is_ok(), "the deep file is readable");
    let result_long = build_here(&root.join("out_long"));

    std::env::set_current_dir(&start).unwrap();
    let describe = |r: &Result<BTreeMap<PathBuf, Vec<u8>>, String>| match r {
        Ok(m) => format!("ok, {} output files: {:?}", m.len(), m.keys().map(|k| k.display().to_string().chars().take(20).collect::<String>()).collect::<Vec<_>>()),
        Err(e) => format!("error: {e}"),
    };
    println!("short location: {}", describe(&result_short));
    println!("long location:  {}", describe(&result_long));
    let same = result_short == result_long;
    let _ = std::fs::remove_dir_all(&root);
    if !same {
        println!("DIFFERENT results for the same relative paths and contents");
        std::process::exit(1);
    }
    println!("same result");
}
