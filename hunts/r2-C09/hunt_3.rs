//! Borderline scenarios (see HUNT/REPORT.txt): partial output of a failed build, a directory
//! called `*.pyxis`, and the location of the input tree (PATH_MAX).
use std::collections::BTreeSet;
use std::path::{Path, PathBuf};

fn list(dir: &Path, base: &Path, out: &mut BTreeSet<PathBuf>) {
    let Ok(rd) = std::fs::read_dir(dir) else { return };
    for e in rd {
        let p = e.unwrap().path();
        if p.is_dir() {
            list(&p, base, out);
        } else {
            out.insert(p.strip_prefix(base).unwrap().to_path_buf());
        }
    }
}

fn s1(root: &Path) {
    // Ten good modules and one whose prologue is not Rust: the build fails every time, but
    // what is left in the output directory depends on the hash order of the modules.
    let in_dir = root.join("s1/in");
    std::fs::create_dir_all(&in_dir).unwrap();
    for i in 0..10 {
        std::fs::write(in_dir.join(format!("m{i}.pyxis")), "pub type A { x: u32 }\n").unwrap();
    }
    std::fs::write(in_dir.join("bad.pyxis"), "backend rust prologue \"fn (\";\n").unwrap();
    let mut seen = BTreeSet::new();
    for k in 0..20 {
        let out = root.join(format!("s1/out{k}"));
        std::fs::create_dir_all(&out).unwrap();
        let r = pyxis::build(&in_dir, &out, 4);
        assert!(r.is_err());
        let mut files = BTreeSet::new();
        list(&out, &out, &mut files);
        seen.insert(files);
    }
    println!("S1: build failed 20/20 times; distinct sets of files left behind: {}", seen.len());
}

fn s2(root: &Path) {
    let a = root.join("s2/a");
    let b = root.join("s2/b");
    for d in [&a, &b] {
        std::fs::create_dir_all(d).unwrap();
        std::fs::write(d.join("m.pyxis"), "pub type A { x: u32 }\n").unwrap();
    }
    std::fs::create_dir_all(b.join("empty.pyxis")).unwrap();
    let ra = pyxis::build(&a, &root.join("s2/out_a"), 4);
    let rb = pyxis::build(&b, &root.join("s2/out_b"), 4);
    println!("S2: without the empty directory: {:?}; with it: {:?}", ra.is_ok(), rb.map_err(|e| format!("{e:#}")));
}

fn s3(root: &Path) {
    // The same tree (relative paths and contents) at a short and at a long absolute location.
    fn make_tree(at: &Path) {
        // at/in/top.pyxis and at/in/<15 x 200 chars>/deep.pyxis, created with relative steps
        let old = std::env::current_dir().unwrap();
        std::fs::create_dir_all(at.join("in")).unwrap();
        std::fs::write(at.join("in/top.pyxis"), "pub type A { x: u32 }\n").unwrap();
        std::env::set_current_dir(at.join("in")).unwrap();
        for _ in 0..15 {
            let seg = "d".repeat(200);
            std::fs::create_dir(&seg).unwrap();
            std::env::set_current_dir(&seg).unwrap();
        }
        std::fs::write("deep.pyxis", "pub type B { y: u32 }\n").unwrap();
        std::env::set_current_dir(old).unwrap();
    }
    let short = root.join("s3/short");
    // make the long location ~1200 bytes longer
    let mut long = root.join("s3/long");
    std::fs::create_dir_all(&long).unwrap();
    let old = std::env::current_dir().unwrap();
    std::env::set_current_dir(&long).unwrap();
    for _ in 0..6 {
        let seg = "p".repeat(200);
        std::fs::create_dir(&seg).unwrap();
        std::env::set_current_dir(&seg).unwrap();
        long.push(&seg);
    }
    std::env::set_current_dir(old).unwrap();
    make_tree(&short);
    make_tree(&long);
    let count = |out: &Path| {
        let mut files = BTreeSet::new();
        list(out, out, &mut files);
        files.len()
    };
    let out_s = root.join("s3/out_short");
    let out_l = root.join("s3/out_long");
    let rs = pyxis::build(&short.join("in"), &out_s, 4);
    let rl = pyxis::build(&long.join("in"), &out_l, 4);
    println!(
        "S3 (absolute in_dir): short location: ok={} files={}; long location: ok={} files={}",
        rs.is_ok(), count(&out_s), rl.is_ok(), count(&out_l)
    );
    // relative in_dir with a deep working directory
    let old = std::env::current_dir().unwrap();
    let out_r = root.join("s3/out_rel");
    std::env::set_current_dir(&long).unwrap();
    let rr = pyxis::build(Path::new("in"), &out_r, 4);
    std::env::set_current_dir(old).unwrap();
    println!("S3 (relative in_dir, deep cwd): ok={} files={}", rr.is_ok(), count(&out_r));
}

fn s4(root: &Path) {
    // module `a` wants the file out/a.rs, module `a.rs::b` wants the directory out/a.rs
    let in_dir = root.join("s4/in");
    std::fs::create_dir_all(in_dir.join("a.rs")).unwrap();
    std::fs::write(in_dir.join("a.pyxis"), "pub type A { x: u32 }\n").unwrap();
    std::fs::write(in_dir.join("a.rs/b.pyxis"), "pub type B { x: u32 }\n").unwrap();
    let mut oks = 0;
    let mut msgs = BTreeSet::new();
    for k in 0..40 {
        let out = root.join(format!("s4/out{k}"));
        match pyxis::build(&in_dir, &out, 4) {
            Ok(()) => oks += 1,
            Err(e) => {
                msgs.insert(format!("{e:#}").replace(&k.to_string(), "K"));
            }
        }
    }
    println!("S4: {oks}/40 builds succeeded; errors: {msgs:?}");
}

fn main() {
    let root = std::env::temp_dir().join(format!("hunt2-C09-h3-{}", std::process::id()));
    let _ = std::fs::remove_dir_all(&root);
    std::fs::create_dir_all(&root).unwrap();
    s1(&root);
    s2(&root);
    s3(&root);
    s4(&root);
    let _ = std::fs::remove_dir_all(&root);
}
