//! Hand-written multi-feature input sets, each built many times in one process (new hash seeds
//! every time) and with every rotation / reversal of the module-addition order; all outcomes
//! must be identical.
use std::collections::BTreeMap;
use std::path::{Path, PathBuf};

type Outcome = Result<BTreeMap<PathBuf, Vec<u8>>, String>;

fn collect(dir: &Path, base: &Path, out: &mut BTreeMap<PathBuf, Vec<u8>>) {
    let Ok(rd) = std::fs::read_dir(dir) else { return };
    for e in rd {
        let p = e.unwrap().path();
        if p.is_dir() {
            collect(&p, base, out);
        } else {
            out.insert(p.strip_prefix(base).unwrap().to_path_buf(), std::fs::read(&p).unwrap());
        }
    }
}

fn run_api(files: &[(&str, String)], order: &[usize], out_dir: &Path, ps: usize) -> Outcome {
    let _ = std::fs::remove_dir_all(out_dir);
    std::fs::create_dir_all(out_dir).unwrap();
    let r = (|| -> anyhow::Result<()> {
        let mut st = pyxis::semantic::SemanticState::new(ps);
        for &i in order {
            let (path, text) = &files[i];
            let module = pyxis::parser::parse_str(text)?;
            let ip = pyxis::grammar::ItemPath::from_path(Path::new(path));
            st.add_module(&module, &ip)?;
        }
        let resolved = st.build()?;
        for (key, module) in resolved.modules() {
            pyxis::backends::rust::write_module(out_dir, key, &resolved, module)?;
        }
        Ok(())
    })();
    match r {
        Ok(()) => {
            let mut m = BTreeMap::new();
            collect(out_dir, out_dir, &mut m);
            Ok(m)
        }
        Err(e) => Err(format!("{e:#}")),
    }
}

fn check(name: &str, files: Vec<(&str, String)>, ps: usize, reps: usize, root: &Path) -> bool {
    let n = files.len();
    let mut orders: Vec<Vec<usize>> = vec![];
    for rot in 0..n {
        let o: Vec<usize> = (0..n).map(|i| (i + rot) % n).collect();
        let mut rev = o.clone();
        rev.reverse();
        orders.push(o);
        orders.push(rev);
    }
    let mut first: Option<Outcome> = None;
    let mut bad = false;
    let mut runs = 0;
    for rep in 0..reps {
        let order = &orders[rep % orders.len()];
        let o = run_api(&files, order, &root.join("out"), ps);
        runs += 1;
        match &first {
            None => first = Some(o),
            Some(f) => {
                let same = match (f, &o) {
                    (Ok(a), Ok(b)) => a == b,
                    (Err(_), Err(_)) => true,
                    _ => false,
                };
                if !same {
                    bad = true;
                    println!("{name}: DIFFERENCE at rep {rep} order {order:?}: first {:?} now {:?}",
                        f.as_ref().map(|m| m.len()).map_err(|e| e.clone()),
                        o.as_ref().map(|m| m.len()).map_err(|e| e.clone()));
                }
            }
        }
    }
    let f = first.unwrap();
    println!(
        "{name}: {runs} runs, {} -> {}",
        if bad { "DIFFERENT" } else { "all the same" },
        match &f {
            Ok(m) => format!("ok, {} files, {} bytes", m.len(), m.values().map(|v| v.len()).sum::<usize>()),
            Err(e) => format!("error: {}", &e[..e.len().min(150)]),
        }
    );
    bad
}

fn main() {
    let root = std::env::temp_dir().join(format!("hunt2-C09-h4-{}", std::process::id()));
    let _ = std::fs::remove_dir_all(&root);
    std::fs::create_dir_all(&root).unwrap();
    let mut bad = false;

    // 1. vftable types used by value, by pointer, through type imports and module imports,
    //    with a derived type in another module whose base waits for its own vftable type.
    let a = r#"
use b;
use c::LeafVftable;
pub type Holder {
    table: LeafVftable,
    base_table: BaseVftable,
    p: *const DerivedVftable,
}
pub type Derived {
    vftable {
        pub fn f(&self, x: *mut Holder) -> u32;
        pub fn g(&mut self, t: BaseVftable);
    },
    #[base] pub base: Base,
    pub extra: [Holder; 2],
}
impl Derived {
    #[address(0x100)] pub fn make(h: *mut Holder) -> *mut Derived;
    #[address(0x104)] pub fn f3(&self) -> LeafVftable;
}
#[address(0x2000)] pub extern the_one: *mut Derived;
"#;
    let b = r#"
use a::DerivedVftable;
pub type Base {
    vftable {
        pub fn f(&self, x: *mut a::Holder) -> u32;
    },
    pub d: *const DerivedVftable,
    pub z: *mut u32,
}
impl Base {
    #[address(0x200)] pub fn f2(&self);
    #[address(0x204)] pub fn other(&self, d: DerivedVftable);
}
"#
    .replace("a::Holder", "Holder")
    .replace("use a::DerivedVftable;", "use a::DerivedVftable;\nuse a::Holder;");
    let c = r#"
use a;
use b;
pub type Leaf {
    vftable {
        pub fn f(&self, x: *mut Holder) -> u32;
        pub fn g(&mut self, t: BaseVftable);
        pub fn h(&self) -> *mut Leaf;
    },
    #[base] pub derived: Derived,
    #[base] pub second: Second,
}
pub type Second {
    vftable { pub fn s(&self); pub fn f(&self); },
    pub v: *mut u32,
}
impl Second { #[address(0x300)] pub fn make(h: *mut Holder) -> *mut Second; }
"#;
    for ps in [4, 8] {
        bad |= check(
            &format!("vftables across modules (ps {ps})"),
            vec![("a", a.to_string()), ("b", b.clone()), ("c", c.to_string())],
            ps,
            120,
            &root,
        );
    }

    // 2. a long by-value chain through many modules: needs many passes in a bad order
    let mut files = vec![];
    let names: Vec<String> = (0..30).map(|i| format!("m{i}")).collect();
    for i in 0..30 {
        let text = if i + 1 < 30 {
            format!(
                "use m{n};\npub type T{i} {{ vftable {{ pub fn f{i}(&self, p: *mut T{n}Vftable); }}, #[base] pub next: T{n}, pub v: T{n}Vftable }}\n",
                n = i + 1
            )
        } else {
            format!("pub type T{i} {{ vftable {{ pub fn last(&self); }}, pub v: u64 }}\n")
        };
        files.push((names[i].as_str(), text));
    }
    // the derived vftables do not repeat the base's functions: that is an error, every time
    bad |= check("chain with mismatching vftables", files.clone(), 8, 40, &root);
    let mut files2 = vec![];
    for i in 0..30 {
        let text = if i + 1 < 30 {
            format!(
                "use m{n};\npub type T{i} {{ #[base] pub next: T{n}, pub v: T{n}Vftable, pub w: *mut T0 }}\nimpl T{i} {{ #[address(0x10)] pub fn get(&self) -> T{n}Vftable; }}\n",
                n = i + 1
            )
        } else {
            format!("pub type T{i} {{ vftable {{ pub fn last(&self); }}, pub v: u64 }}\npub type T{n}Vftable {{ x: u64 }}\n", n = i + 1)
        };
        files2.push((names[i].as_str(), text));
    }
    // only the last type has a vftable block, so `T{n}Vftable` is unknown for all others
    bad |= check("chain naming vftable types that are never generated", files2, 8, 40, &root);
    let mut files3 = vec![];
    for i in 0..30 {
        let text = if i + 1 < 30 {
            format!(
                "use m{n};\nuse m0;\nuse m29::T29Vftable;\npub type T{i} {{ #[base] pub next: T{n}, pub v: T29Vftable, pub w: *mut T0 }}\nimpl T{i} {{ #[address(0x10)] pub fn get{i}(&self) -> T29Vftable; }}\n",
                n = i + 1
            )
        } else {
            format!("use m0;\npub type T{i} {{ vftable {{ pub fn last(&self, t: *mut T0); }}, pub v: u64 }}\n")
        };
        files3.push((names[i].as_str(), text));
    }
    bad |= check("30-deep base chain sharing one vftable", files3, 8, 40, &root);

    // 3. diamonds: conflict markers
    let d = r#"
pub type Top { vftable { pub fn t(&self); }, pub x: u32 }
pub type L { #[base] pub top: Top, pub l: u32 }
pub type R { #[base] pub top: Top, pub r: u32 }
pub type Bottom { #[base] pub l: L, #[base] pub r: R, #[base] pub again: L }
impl Top { #[address(0x1)] pub fn t2(&self); }
impl L { #[address(0x2)] pub fn t2b(&self); }
"#;
    bad |= check("diamond", vec![("d", d.to_string())], 4, 60, &root);

    let _ = std::fs::remove_dir_all(&root);
    if bad {
        std::process::exit(1);
    }
}
