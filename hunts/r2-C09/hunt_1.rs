//! Differential fuzzer: the same random input set is built several times in one process
//! (every `SemanticState` gets hash maps with new seeds) and with permuted add order.
//! Any difference in success/failure or in the output is reported.
use std::collections::BTreeMap;
use std::path::{Path, PathBuf};

struct Rng(u64);
impl Rng {
    fn next(&mut self) -> u64 {
        self.0 ^= self.0 << 13;
        self.0 ^= self.0 >> 7;
        self.0 ^= self.0 << 17;
        self.0
    }
    fn below(&mut self, n: usize) -> usize {
        (self.next() % n as u64) as usize
    }
    fn chance(&mut self, num: usize, den: usize) -> bool {
        self.below(den) < num
    }
    fn pick<'a, T>(&mut self, xs: &'a [T]) -> &'a T {
        &xs[self.below(xs.len())]
    }
}

const MODS: &[&str] = &["m0", "m1", "d/m2", "m0/m3"];
const TYPES: &[&str] = &["T0", "T1", "T2", "T3"];


#[derive(Clone, Default)]
struct Plan {
    present: bool,
    exists: [bool; 4],
    vft: [bool; 4],
    e0: bool,
    en0: bool,
}

struct Ctx<'a> {
    ps: usize,
    mod_idx: usize,
    wild: bool,
    plans: &'a [Plan],
    uses: std::cell::RefCell<Vec<String>>,
}

fn word(c: &Ctx) -> &'static str {
    if c.ps == 4 { "u32" } else { "u64" }
}

/// Candidate names (own module and later modules) with the index of the type they denote
/// (None for extern / enum), restricted to type indices > `min_ti` in the own module.
fn named_candidates(c: &Ctx, min_ti: Option<usize>, r: &mut Rng) -> String {
    let own = &c.plans[c.mod_idx];
    let mut cands: Vec<(Option<usize>, String)> = vec![];
    let lo = min_ti.map(|t| t + 1).unwrap_or(0);
    for ti in lo..4 {
        if own.exists[ti] {
            cands.push((None, TYPES[ti].to_string()));
            if own.vft[ti] {
                cands.push((None, format!("{}Vftable", TYPES[ti])));
            }
        }
    }
    if own.e0 {
        cands.push((None, "E0".to_string()));
    }
    if own.en0 {
        cands.push((None, "En0".to_string()));
    }
    // later modules (any module when only pointers are wanted)
    for mi in 0..c.plans.len() {
        if mi == c.mod_idx || !c.plans[mi].present {
            continue;
        }
        if min_ti.is_some() && mi < c.mod_idx {
            continue;
        }
        let p = &c.plans[mi];
        for ti in 0..4 {
            if p.exists[ti] {
                cands.push((Some(mi), TYPES[ti].to_string()));
                if p.vft[ti] {
                    cands.push((Some(mi), format!("{}Vftable", TYPES[ti])));
                }
            }
        }
        if p.en0 {
            cands.push((Some(mi), "En0".to_string()));
        }
    }
    if cands.is_empty() {
        return word(c).to_string();
    }
    let (mi, name) = r.pick(&cands).clone();
    if let Some(mi) = mi {
        let m = MODS[mi].replace('/', "::");
        let u = if r.chance(1, 2) { format!("use {m};") } else { format!("use {m}::{name};") };
        let mut uses = c.uses.borrow_mut();
        if !uses.contains(&u) {
            uses.push(u);
        }
    }
    name
}

/// A named type usable by value from type index `ti` without creating a cycle
fn rand_value_named(r: &mut Rng, c: &Ctx, ti: usize) -> String {
    if c.wild && r.chance(1, 4) {
        return r.pick(&["X0", "T0", "T1", "u8", "u16", "T3Vftable", "void"]).to_string();
    }
    match r.below(12) {
        0..=3 => word(c).to_string(),
        4..=10 => named_candidates(c, Some(ti), r),
        _ => word(c).to_string(),
    }
}

fn rand_any_named(r: &mut Rng, c: &Ctx) -> String {
    if c.wild && r.chance(1, 6) {
        return r.pick(&["X0", "T0", "T2Vftable", "E0"]).to_string();
    }
    match r.below(12) {
        0..=2 => word(c).to_string(),
        3..=9 => named_candidates(c, None, r),
        _ => r.pick(&["u8", "u16", "bool", "f32", "void", "i64"]).to_string(),
    }
}

/// A type for a field of type index `ti`
fn rand_field_type(r: &mut Rng, c: &Ctx, ti: usize) -> String {
    match r.below(10) {
        0..=3 => rand_value_named(r, c, ti),
        4..=6 => format!("*mut {}", rand_any_type(r, c, 1)),
        7 => format!("*const {}", rand_any_type(r, c, 1)),
        8 => format!("[{}; {}]", rand_value_named(r, c, ti), r.below(3)),
        _ => format!("unknown<{}>", c.ps * r.below(3)),
    }
}

/// A type for a signature or a pointee: anything goes
fn rand_any_type(r: &mut Rng, c: &Ctx, depth: usize) -> String {
    match r.below(10) {
        0..=5 => rand_any_named(r, c),
        6 | 7 if depth < 3 => format!("*mut {}", rand_any_type(r, c, depth + 1)),
        8 if depth < 3 => format!("*const {}", rand_any_type(r, c, depth + 1)),
        9 if depth < 3 => format!("[{}; {}]", rand_any_type(r, c, depth + 1), r.below(3)),
        _ => rand_any_named(r, c),
    }
}

fn rand_fn(r: &mut Rng, c: &Ctx, vfunc: bool, name: &str) -> String {
    let mut s = String::new();
    if !vfunc {
        s += &format!("#[address(0x{:x})] ", r.below(4096));
    }
    if r.chance(1, 8) {
        s += "#[calling_convention(\"cdecl\")] ";
    }
    if r.chance(1, 8) {
        s += "#[doc = \"some doc\"] ";
    }
    if r.chance(3, 4) {
        s += "pub ";
    }
    s += &format!("fn {}(", name);
    let mut args = vec![];
    if r.chance(3, 4) {
        args.push(if r.chance(1, 2) { "&self".to_string() } else { "&mut self".to_string() });
    }
    for i in 0..r.below(3) {
        args.push(format!("a{}: {}", i, rand_any_type(r, c, 0)));
    }
    s += &args.join(", ");
    s += ")";
    if r.chance(1, 2) {
        s += &format!(" -> {}", rand_any_type(r, c, 0));
    }
    s
}

fn rand_module(r: &mut Rng, c: &Ctx) -> String {
    let plan = &c.plans[c.mod_idx];
    let mut s = String::new();
    if plan.e0 {
        s += &format!("#[size({}), align({})] extern type E0;\n", c.ps, c.ps);
    }
    if c.wild && r.chance(1, 8) {
        s += &format!("#[size(8), align(8)] extern type {}Vftable;\n", r.pick(TYPES));
    }
    if plan.en0 {
        s += &format!(
            "#[copyable, defaultable] pub enum En0: {} {{ #[default] A = 1, B, C = 7 }}\n",
            if c.wild { r.pick(&["u8", "T0", "E0", "X0"]) } else { word(c) },
        );
    }
    for ti in 0..TYPES.len() {
        if !plan.exists[ti] {
            continue;
        }
        let name = TYPES[ti];
        let mut attrs = vec![];
        if r.chance(1, 10) {
            attrs.push(format!("align({})", [c.ps, 2 * c.ps][r.below(2)]));
        } else if r.chance(1, 10) {
            attrs.push("packed".to_string());
        }
        if r.chance(1, 6) {
            attrs.push("copyable".to_string());
        }
        if r.chance(1, 12) {
            attrs.push("singleton(0x1234)".to_string());
        }
        if r.chance(1, 12) {
            attrs.push("doc = \"a type\"".to_string());
        }
        let defaultable = r.chance(1, 8) && !plan.vft[ti];
        if defaultable {
            attrs.push("defaultable".to_string());
        }
        let mut body = String::new();
        if plan.vft[ti] {
            if r.chance(1, 8) {
                body += &format!("  #[size({})]\n", r.below(5));
            }
            body += "  vftable {\n";
            for k in 0..r.below(3) {
                if r.chance(1, 8) {
                    body += &format!("    #[index({})]\n", k + r.below(2));
                }
                body += &format!("    {};\n", rand_fn(r, c, true, &format!("vf{ti}_{k}")));
            }
            body += "  },\n";
        }
        let mut addr = 0;
        for i in 0..r.below(4) {
            let mut fattrs = vec![];
            let mut ty = if defaultable && !c.wild {
                r.pick(&[word(c), word(c)]).to_string()
            } else {
                rand_field_type(r, c, ti)
            };
            let later: Vec<usize> = (ti + 1..4).filter(|t| plan.exists[*t]).collect();
            if r.chance(1, 3) && !later.is_empty() && !defaultable {
                fattrs.push("base".to_string());
                if !c.wild || r.chance(2, 3) {
                    ty = TYPES[*r.pick(&later)].to_string();
                }
            }
            if r.chance(1, 12) {
                addr += 64 * c.ps;
                fattrs.push(format!("address({addr})"));
            }
            if r.chance(1, 10) {
                fattrs.push("doc = \"a field\"".to_string());
            }
            let is_base = fattrs.iter().any(|a| a == "base");
            if !fattrs.is_empty() {
                body += &format!("  #[{}]\n", fattrs.join(", "));
            }
            let fname = if r.chance(1, 12) && (!is_base || c.wild) { "_".to_string() } else { format!("f{i}") };
            body += &format!("  {}{}: {},\n", if r.chance(1, 2) { "pub " } else { "" }, fname, ty);
        }
        if c.wild && r.chance(1, 10) {
            body += "  vftable {},\n";
        }
        if !attrs.is_empty() {
            s += &format!("#[{}]\n", attrs.join(", "));
        }
        s += &format!("{}type {} {{\n{}}}\n", if r.chance(3, 4) { "pub " } else { "" }, name, body);
        if r.chance(1, 3) {
            s += &format!("impl {} {{\n", name);
            for k in 0..=r.below(2) {
                let fname = if c.wild && r.chance(1, 4) { "vf0_0".to_string() } else { format!("g{ti}_{k}") };
                s += &format!("  {};\n", rand_fn(r, c, false, &fname));
            }
            s += "}\n";
        }
        if r.chance(1, 10) {
            s += &format!("impl {} {{ #[address(0x20)] pub fn h{ti}(&self); }}\n", name);
        }
    }
    if c.wild && r.chance(1, 10) {
        s += &format!("impl {} {{ #[address(0x10)] pub fn h0(&self); }}\n", r.pick(TYPES));
    }
    if r.chance(1, 4) {
        s += &format!("#[address(0x{:x})] pub extern gv: {};\n", r.below(4096), rand_any_type(r, c, 0));
    }
    if r.chance(1, 8) {
        s += "backend rust prologue \"use std::ffi::c_void;\";\n";
    }
    let mut head = String::new();
    if r.chance(1, 5) {
        head += "#![doc = \"module doc\"]\n";
    }
    for u in c.uses.borrow().iter() {
        head += u;
        head += "\n";
    }
    if c.wild {
        for _ in 0..r.below(3) {
            let m = r.pick(MODS).replace('/', "::");
            match r.below(5) {
                0..=2 => head += &format!("use {m};\n"),
                3 => head += &format!("use {m}::{};\n", r.pick(TYPES)),
                _ => head += &format!("use {m}::{}Vftable;\n", r.pick(TYPES)),
            }
        }
    }
    head + &s
}

type Outcome = Result<BTreeMap<PathBuf, Vec<u8>>, String>;

fn collect(dir: &Path, base: &Path, out: &mut BTreeMap<PathBuf, Vec<u8>>) {
    let Ok(rd) = std::fs::read_dir(dir) else { return };
    for e in rd {
        let p = e.unwrap().path();
        if p.is_dir() {
            collect(&p, base, out);
        } else {
            out.insert(p.strip_prefix(base).unwrap().to_path_buf(), std::fs::read(&p).unwrap());
        }
    }
}

fn run_build(in_dir: &Path, out_dir: &Path, ps: usize) -> Outcome {
    let _ = std::fs::remove_dir_all(out_dir);
    std::fs::create_dir_all(out_dir).unwrap();
    match std::panic::catch_unwind(|| pyxis::build(in_dir, out_dir, ps)) {
        Ok(Ok(())) => {
            let mut m = BTreeMap::new();
            collect(out_dir, out_dir, &mut m);
            Ok(m)
        }
        Ok(Err(e)) => Err(format!("{e:#}")),
        Err(_) => Err("PANIC".to_string()),
    }
}

fn run_api(files: &[(String, String)], order: &[usize], out_dir: &Path, ps: usize) -> Outcome {
    let _ = std::fs::remove_dir_all(out_dir);
    std::fs::create_dir_all(out_dir).unwrap();
    let r = std::panic::catch_unwind(|| -> anyhow::Result<()> {
        let mut st = pyxis::semantic::SemanticState::new(ps);
        for &i in order {
            let (path, text) = &files[i];
            let module = pyxis::parser::parse_str(text)?;
            let ip = pyxis::grammar::ItemPath::from_path(Path::new(path).with_extension("").as_path());
            st.add_module(&module, &ip)?;
        }
        let resolved = st.build()?;
        for (key, module) in resolved.modules() {
            pyxis::backends::rust::write_module(out_dir, key, &resolved, module)?;
        }
        Ok(())
    });
    match r {
        Ok(Ok(())) => {
            let mut m = BTreeMap::new();
            collect(out_dir, out_dir, &mut m);
            Ok(m)
        }
        Ok(Err(e)) => Err(format!("{e:#}")),
        Err(_) => Err("PANIC".to_string()),
    }
}

fn main() {
    let args: Vec<String> = std::env::args().collect();
    let seed: u64 = args.get(1).and_then(|s| s.parse().ok()).unwrap_or(1);
    let iters: usize = args.get(2).and_then(|s| s.parse().ok()).unwrap_or(1000);
    let root = std::env::temp_dir().join(format!("hunt2-C09-fuzz-{}-{}", std::process::id(), seed));
    let _ = std::fs::remove_dir_all(&root);
    std::panic::set_hook(Box::new(|_| {}));
    let mut r = Rng(seed.wrapping_mul(0x9E3779B97F4A7C15) | 1);
    let (mut n_ok, mut n_err, mut n_msgdiff) = (0, 0, 0);
    for it in 0..iters {
        let in_dir = root.join("in");
        let out_dir = root.join("out");
        let _ = std::fs::remove_dir_all(&in_dir);
        let ps = [4, 8][r.below(2)];
        let wild = r.chance(1, 4);
        let mut files: Vec<(String, String)> = vec![];
        let mut plans = vec![Plan::default(); MODS.len()];
        for p in plans.iter_mut() {
            p.present = r.chance(2, 3);
            for ti in 0..4 {
                p.exists[ti] = r.chance(3, 4);
                p.vft[ti] = p.exists[ti] && r.chance(1, 2);
            }
            p.e0 = r.chance(3, 4);
            p.en0 = r.chance(3, 4);
        }
        for (mod_idx, m) in MODS.iter().enumerate() {
            if !plans[mod_idx].present {
                continue;
            }
            let c = Ctx { ps, mod_idx, wild, plans: &plans, uses: Default::default() };
            files.push((format!("{m}.pyxis"), rand_module(&mut r, &c)));
        }
        if files.is_empty() {
            continue;
        }
        for (p, t) in &files {
            let fp = in_dir.join(p);
            std::fs::create_dir_all(fp.parent().unwrap()).unwrap();
            std::fs::write(fp, t).unwrap();
        }
        let mut outcomes: Vec<(String, Outcome)> = vec![];
        for k in 0..4 {
            outcomes.push((format!("build#{k}"), run_build(&in_dir, &out_dir, ps)));
        }
        let n = files.len();
        let mut order: Vec<usize> = (0..n).collect();
        for k in 0..4 {
            // shuffle
            for i in (1..n).rev() {
                order.swap(i, r.below(i + 1));
            }
            outcomes.push((format!("api#{k}{order:?}"), run_api(&files, &order, &out_dir, ps)));
        }
        let first = &outcomes[0].1;
        match first {
            Ok(_) => n_ok += 1,
            Err(_) => n_err += 1,
        }
        let mut bad = false;
        let mut msgdiff = false;
        for (_, o) in &outcomes[1..] {
            match (first, o) {
                (Ok(a), Ok(b)) => {
                    if a != b {
                        bad = true;
                    }
                }
                (Err(a), Err(b)) => {
                    if a != b {
                        msgdiff = true;
                    }
                }
                _ => bad = true,
            }
        }
        if msgdiff {
            n_msgdiff += 1;
            if std::env::var("SHOW_MSGDIFF").is_ok() {
                for (n, o) in &outcomes {
                    if let Err(e) = o {
                        println!("  [{it}] {n}: {e}");
                    }
                }
            }
        }
        if bad {
            println!("=== DIFFERENCE at iteration {it} (seed {seed}, ps {ps}) ===");
            for (p, t) in &files {
                println!("--- {p}\n{t}");
            }
            for (n, o) in &outcomes {
                match o {
                    Ok(m) => println!("{n}: OK {} files, {} bytes", m.len(), m.values().map(|v| v.len()).sum::<usize>()),
                    Err(e) => println!("{n}: ERR {e}"),
                }
            }
            let keep = root.join(format!("keep-{it}"));
            let _ = std::fs::remove_dir_all(&keep);
            std::fs::create_dir_all(&keep).unwrap();
            for (p, t) in &files {
                let fp = keep.join(p);
                std::fs::create_dir_all(fp.parent().unwrap()).unwrap();
                std::fs::write(fp, t).unwrap();
            }
            println!("kept at {}", keep.display());
        }
    }
    println!("seed {seed}: {iters} iterations, ok {n_ok}, err {n_err}, differing error text {n_msgdiff}");
}
