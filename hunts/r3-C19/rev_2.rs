// Repeated builds of the same input (hash order varies per run): outputs must be identical.
use std::path::PathBuf;
fn main() {
    let input = PathBuf::from("/tmp/rev3-C19/codegen_tests/input");
    let mut first: Option<Vec<(String, Vec<u8>)>> = None;
    for run in 0..40 {
        let out = PathBuf::from(format!("/tmp/rev3-C19/target/rev2/out{run}"));
        let _ = std::fs::remove_dir_all(&out);
        std::fs::create_dir_all(&out).unwrap();
        pyxis::build(&input, &out, 4).unwrap();
        let mut files: Vec<(String, Vec<u8>)> = std::fs::read_dir(&out).unwrap().map(|e| { let p = e.unwrap().path(); (p.file_name().unwrap().to_string_lossy().into_owned(), std::fs::read(&p).unwrap()) }).collect();
        files.sort();
        match &first { None => first = Some(files), Some(f) => assert!(f == &files, "run {run} differs") }
    }
    println!("ok");
}
