use std::path::{Path, PathBuf};

fn build(files: &[(&str, &str)], tag: &str) -> (PathBuf, anyhow::Result<()>) {
    let root = PathBuf::from(format!("/tmp/rev3-C19/target/rev1/{tag}"));
    let _ = std::fs::remove_dir_all(&root);
    let (i, o) = (root.join("in"), root.join("out"));
    std::fs::create_dir_all(&o).unwrap();
    for (p, t) in files {
        let p = i.join(p);
        std::fs::create_dir_all(p.parent().unwrap()).unwrap();
        std::fs::write(p, t).unwrap();
    }
    let r = pyxis::build(&i, &o, 4);
    (o, r)
}

fn ls(dir: &Path, out: &mut Vec<String>) {
    for e in std::fs::read_dir(dir).unwrap() {
        let p = e.unwrap().path();
        if p.is_dir() { ls(&p, out) } else { out.push(p.display().to_string()) }
    }
}

fn main() {
    let m = "use a::c::Other;\npub type T { vftable { pub fn f(&self, x: *mut U) -> *const TVftable; }, pub o: *mut Other, pub u: U }\npub type U { pub x: u32 }\nimpl T { #[address(0x10)] pub fn g(&self) -> *mut T; }\n#[address(0x20)] pub extern gt: *mut T;\n";
    let c = "pub type Other { pub x: u32 }\n";
    let base: Vec<(&str, &str)> = vec![("a/b.pyxis", m), ("a/c.pyxis", c)];
    let (o, r) = build(&base, "base");
    r.unwrap();
    let want = std::fs::read(o.join("a/b.rs")).unwrap();
    let junk = "pub type T { vftable { pub fn f(&self); }, pub x: u32 }\npub type U { pub x: u64 }\npub type b { vftable {}, pub y: u32 }\npub type bVftable2 { pub y: u32 }\npub enum c: u32 { A }\n";
    let junk_enum = "pub enum T: u32 { A }\npub enum U: u32 { A }\n";
    let names = [
        "a::b.pyxis", "a..pyxis", "a.b.pyxis", "..pyxis", "...pyxis", "a/..pyxis", "a/b.rs.pyxis", "a/b/T.pyxis",
        "a/b/TVftable.pyxis", "a/b/U.pyxis", "a.pyxis", "a/b .pyxis", "a/b<x>.pyxis", "a/r#b.pyxis", "a/b/b.pyxis",
        "crate.pyxis", "a/self.pyxis", "a/B.pyxis", "u32.pyxis", "a/u32.pyxis", "a/b/u32.pyxis", "a/c/Other.pyxis", "a/b.pyxis.pyxis",
        "a/b.rs/x.pyxis", "a/b.RS.pyxis", "void.pyxis", "a/b/vftable.pyxis", "a/ b.pyxis", "a/b\n.pyxis",
    ];
    let mut bad = 0;
    for (k, name) in names.iter().enumerate() {
        for (jn, j) in [("junk", junk), ("enum", junk_enum)] {
            let mut files = base.clone();
            files.push((name, j));
            let (o, r) = build(&files, &format!("t{k}{jn}"));
            match r {
                Err(e) => println!("{name:?} [{jn}]: rejected: {}", format!("{e:#}").lines().next().unwrap()),
                Ok(()) => {
                    let got = std::fs::read(o.join("a/b.rs")).ok();
                    let mut l = vec![]; ls(&o, &mut l); l.sort();
                    if got.as_deref() == Some(&want[..]) {
                        println!("{name:?} [{jn}]: accepted, same  ({} files)", l.len());
                    } else {
                        bad += 1;
                        println!("{name:?} [{jn}]: accepted, DIFFERENT {l:?}");
                    }
                }
            }
        }
    }
    std::process::exit(if bad > 0 { 1 } else { 0 });
}
