// Differential fuzzer for C19: build a random input set A, then for every module M the set
// B = modules reachable from M through `use`; compare M's output.
use std::collections::{BTreeMap, BTreeSet};
use std::path::{Path, PathBuf};

struct Rng(u64);
impl Rng {
    fn next(&mut self) -> u64 {
        self.0 ^= self.0 << 13;
        self.0 ^= self.0 >> 7;
        self.0 ^= self.0 << 17;
        self.0
    }
    fn below(&mut self, n: usize) -> usize {
        (self.next() % n as u64) as usize
    }
    fn chance(&mut self, pct: usize) -> bool {
        self.below(100) < pct
    }
    fn pick<'a, T>(&mut self, v: &'a [T]) -> &'a T {
        &v[self.below(v.len())]
    }
}

const MODULES: &[&str] = &[
    "a", "b", "c", "a/b", "a/T", "a/TVftable", "b/a", "c/U", "a/b/T", "T", "b/UVftable", "r#type", "a/r#type",
];
const TYPE_NAMES: &[&str] = &["T", "U", "V", "TVftable", "UVftable", "a", "b", "r#type", "typeVftable", "W"];

#[derive(Clone, Default)]
struct Mod {
    path: String, // with '/'
    uses: Vec<String>, // with '::'
    defs: Vec<(String, String)>, // name, kind
    text: String,
}

fn mp(path: &str) -> String {
    path.replace('/', "::")
}

fn gen_set(rng: &mut Rng) -> Vec<Mod> {
    let n = 2 + rng.below(5);
    let mut chosen: BTreeSet<&str> = BTreeSet::new();
    while chosen.len() < n {
        chosen.insert(*rng.pick(MODULES));
    }
    let mut mods: Vec<Mod> = chosen
        .iter()
        .map(|p| Mod { path: p.to_string(), ..Default::default() })
        .collect();
    // definitions
    for m in &mut mods {
        let k = 1 + rng.below(3);
        let mut names = BTreeSet::new();
        while names.len() < k {
            names.insert(*rng.pick(TYPE_NAMES));
        }
        for name in names {
            let kind = match rng.below(10) {
                0 => "extern",
                1 | 2 => "enum",
                3 | 4 | 5 => "vtype",
                _ => "type",
            };
            m.defs.push((name.to_string(), kind.to_string()));
        }
    }
    // uses
    let snapshot: Vec<(String, Vec<String>)> = mods
        .iter()
        .map(|m| (mp(&m.path), m.defs.iter().map(|d| d.0.clone()).collect()))
        .collect();
    for m in &mut mods {
        let k = rng.below(4);
        for _ in 0..k {
            let (path, defs) = rng.pick(&snapshot).clone();
            if rng.chance(50) {
                m.uses.push(path);
            } else if rng.chance(85) {
                let mut d = rng.pick(&defs).clone();
                if rng.chance(20) {
                    d = format!("{}Vftable", d.trim_start_matches("r#"));
                }
                m.uses.push(format!("{path}::{d}"));
            } else {
                m.uses.push(format!("{}::{}", mp(*rng.pick(MODULES)), *rng.pick(TYPE_NAMES)));
            }
        }
    }
    // bodies
    let all: BTreeMap<String, Vec<(String, String)>> =
        mods.iter().map(|m| (mp(&m.path), m.defs.clone())).collect();
    for m in &mut mods {
        // visible names
        let mut visible: Vec<String> = vec!["u32".into(), "i32".into(), "f32".into()];
        let mut add_defs = |defs: &Vec<(String, String)>, visible: &mut Vec<String>| {
            for (n, k) in defs {
                visible.push(n.clone());
                if k == "vtype" {
                    visible.push(format!("{}Vftable", n.trim_start_matches("r#")));
                }
            }
        };
        add_defs(&m.defs, &mut visible);
        for u in &m.uses {
            if let Some(defs) = all.get(u) {
                add_defs(defs, &mut visible);
            } else if let Some((_, last)) = u.rsplit_once("::") {
                visible.push(last.to_string());
            }
        }
        let mut text = String::new();
        for u in &m.uses {
            text += &format!("use {u};\n");
        }
        let name_of = |rng: &mut Rng, visible: &Vec<String>| -> String {
            if rng.chance(92) {
                rng.pick(visible).clone()
            } else {
                rng.pick(TYPE_NAMES).to_string()
            }
        };
        let ty_of = |rng: &mut Rng, visible: &Vec<String>| -> String {
            let n = name_of(rng, visible);
            match rng.below(10) {
                0 | 1 | 2 | 3 => format!("*mut {n}"),
                4 | 5 => format!("*const {n}"),
                6 => format!("[*const {n}; 2]"),
                7 => "u32".to_string(),
                _ => n,
            }
        };
        for (name, kind) in &m.defs.clone() {
            match kind.as_str() {
                "extern" => text += &format!("#[size(8), align(4)]\nextern type {name};\n"),
                "enum" => text += &format!("pub enum {name}: u32 {{ A = 0, B = 1 }}\n"),
                _ => {
                    let vis = if rng.chance(70) { "pub " } else { "" };
                    text += &format!("{vis}type {name} {{\n");
                    if kind == "vtype" {
                        text += "    vftable {\n";
                        for i in 0..rng.below(3) {
                            let a = ty_of(rng, &visible);
                            let r = ty_of(rng, &visible);
                            text += &format!("        pub fn vf{i}(&self, x: {a}) -> {r};\n");
                        }
                        text += "    },\n";
                    }
                    if rng.chance(25) {
                        let b = name_of(rng, &visible);
                        text += &format!("    #[base] pub base: {b},\n");
                    }
                    for i in 0..rng.below(3) {
                        let t = ty_of(rng, &visible);
                        text += &format!("    pub f{i}: {t},\n");
                    }
                    text += "}\n";
                    if rng.chance(40) {
                        let a = ty_of(rng, &visible);
                        text += &format!(
                            "impl {name} {{\n    #[address(0x1000)]\n    pub fn m0(&self, x: {a});\n}}\n"
                        );
                    }
                }
            }
        }
        if rng.chance(30) {
            let t = ty_of(rng, &visible);
            text += &format!("#[address(0x2000)]\npub extern g: {t};\n");
        }
        m.text = text;
    }
    mods
}

fn write_set(dir: &Path, mods: &[&Mod]) {
    for m in mods {
        let p = dir.join(format!("{}.pyxis", m.path));
        std::fs::create_dir_all(p.parent().unwrap()).unwrap();
        std::fs::write(p, &m.text).unwrap();
    }
}

fn read_out(out: &Path, m: &Mod) -> Option<Vec<u8>> {
    std::fs::read(out.join(format!("{}.rs", m.path))).ok()
}

fn main() {
    let args: Vec<String> = std::env::args().collect();
    let seed: u64 = args.get(1).map(|s| s.parse().unwrap()).unwrap_or(1);
    let iters: usize = args.get(2).map(|s| s.parse().unwrap()).unwrap_or(1000);
    let root = PathBuf::from(format!("/tmp/rev3-C19/target/fuzz_{seed}"));
    let _ = std::fs::remove_dir_all(&root);
    let mut rng = Rng(seed.wrapping_mul(0x9E3779B97F4A7C15) | 1);
    let (mut accepted, mut compared, mut rejected_sub, mut amb) = (0, 0, 0, 0);
    for it in 0..iters {
        let mods = gen_set(&mut rng);
        let dir_a = root.join(format!("{it}/in_a"));
        let out_a = root.join(format!("{it}/out_a"));
        write_set(&dir_a, &mods.iter().collect::<Vec<_>>());
        std::fs::create_dir_all(&out_a).unwrap();
        if pyxis::build(&dir_a, &out_a, 4).is_err() {
            let _ = std::fs::remove_dir_all(root.join(format!("{it}")));
            continue;
        }
        accepted += 1;
        let module_paths: BTreeSet<String> = mods.iter().map(|m| mp(&m.path)).collect();
        let mut type_paths: BTreeSet<String> = BTreeSet::new();
        for m in &mods {
            for (n, k) in &m.defs {
                type_paths.insert(format!("{}::{}", mp(&m.path), n));
                if k == "vtype" {
                    type_paths.insert(format!("{}::{}Vftable", mp(&m.path), n.trim_start_matches("r#")));
                }
            }
        }
        let mut keep = false;
        for (idx, m) in mods.iter().enumerate() {
            // closure
            let mut reach: BTreeSet<String> = BTreeSet::new();
            let mut todo = vec![mp(&m.path)];
            let mut ambiguous = false;
            while let Some(p) = todo.pop() {
                if !reach.insert(p.clone()) {
                    continue;
                }
                let mm = mods.iter().find(|x| mp(&x.path) == p).unwrap();
                for u in &mm.uses {
                    if module_paths.contains(u) && type_paths.contains(u) {
                        ambiguous = true;
                    }
                    if module_paths.contains(u) {
                        todo.push(u.clone());
                    }
                    if let Some((parent, _)) = u.rsplit_once("::") {
                        if module_paths.contains(parent) {
                            todo.push(parent.to_string());
                        }
                    }
                }
            }
            if ambiguous {
                amb += 1;
                continue;
            }
            if reach.len() == mods.len() {
                continue;
            }
            let sub: Vec<&Mod> = mods.iter().filter(|x| reach.contains(&mp(&x.path))).collect();
            let dir_b = root.join(format!("{it}/in_b{idx}"));
            let out_b = root.join(format!("{it}/out_b{idx}"));
            write_set(&dir_b, &sub);
            std::fs::create_dir_all(&out_b).unwrap();
            match pyxis::build(&dir_b, &out_b, 4) {
                Err(e) => {
                    rejected_sub += 1;
                    keep = true;
                    println!("iter {it}: subset for {} rejected: {e:#}", m.path);
                }
                Ok(()) => {
                    compared += 1;
                    let a = read_out(&out_a, m);
                    let b = read_out(&out_b, m);
                    if a != b || a.is_none() {
                        keep = true;
                        println!("iter {it}: DIFFERENCE for module {} (dirs under {})", m.path, root.join(format!("{it}")).display());
                    }
                }
            }
        }
        if !keep {
            let _ = std::fs::remove_dir_all(root.join(format!("{it}")));
        }
    }
    println!("accepted {accepted}/{iters}, compared {compared}, subset rejected {rejected_sub}, ambiguous skipped {amb}");
}
