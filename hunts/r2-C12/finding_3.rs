// FINDING 3 (C12: "parsing and building return either success or an error value ... never cause a panic")
//
// The text of a `prologue`/`epilogue` is pasted into the generated file, and the whole file is
// then parsed with `syn::parse_file` and printed with prettyplease, both of which recurse once
// per nesting level of the Rust code.  A prologue of under 1 KiB that is nothing but a deeply
// nested type (`type X = &&&&...u8;`) or expression (`const X: u32 = ((((...1...))));`) overflows
// the stack in `write_module`: the process is killed instead of `build` returning an error like
// it does for any other prologue that is not valid Rust.
//
// The build runs in a child process (this program re-executed); exits 1 if a child is killed.
use std::process::Command;

fn child(which: &str) {
    let dir = std::env::temp_dir().join(format!("pyxis_finding_3_{}", std::process::id()));
    let _ = std::fs::remove_dir_all(&dir);
    let in_dir = dir.join("in");
    let out_dir = dir.join("out");
    std::fs::create_dir_all(&in_dir).unwrap();
    std::fs::create_dir_all(&out_dir).unwrap();
    let code = match which {
        // 8 MiB main thread, debug build: dies from about 400 `&` / 800 parentheses
        "refs" => format!("type X = {}u8;", "&".repeat(1000)),
        _ => format!("const X: u32 = {}1{};", "(".repeat(1500), ")".repeat(1500)),
    };
    let text = format!("backend rust prologue \"{code}\";\n");
    println!("{which}: input of {} bytes", text.len());
    std::fs::write(in_dir.join("m.pyxis"), text).unwrap();
    let result = pyxis::build(&in_dir, &out_dir, 4);
    let _ = std::fs::remove_dir_all(&dir);
    match result {
        Ok(()) => println!("{which}: build returned Ok"),
        Err(e) => println!("{which}: build returned an error: {}", format!("{e:#}").chars().take(200).collect::<String>()),
    }
}

fn main() {
    if let Ok(which) = std::env::var("PYXIS_FINDING_CHILD") {
        return child(&which);
    }
    let mut violated = false;
    for which in ["refs", "parens"] {
        let status = Command::new(std::env::current_exe().unwrap())
            .env("PYXIS_FINDING_CHILD", which)
            .status()
            .unwrap();
        if !status.success() {
            println!("VIOLATION ({which}): the build did not return, the process died: {status}");
            violated = true;
        }
    }
    if violated {
        std::process::exit(1);
    }
    println!("both builds returned a value");
}
