// FINDING 2 (C12: "parsing and building return either success or an error value ... never cause a panic")
//
// Type names may carry a pseudo-generic suffix (`Foo<Bar>`; `parse_type_ident` glues identifiers,
// `<` and `>` together into one name).  The limit of 32 nesting levels only counts pointers and
// arrays, not these brackets.  A name such as `A<A<A<...>>>` with 200 levels is about 600 bytes;
// declared as an extern type and used as a field it is handed to `syn::parse_str::<syn::Type>`
// by the Rust backend, whose recursive descent overflows the stack: the process is killed
// (SIGABRT, "has overflowed its stack") instead of `build` returning a value.
//
// The build runs in a child process (this program re-executed); exits 1 if the child is killed.
use std::process::Command;

const DEPTH: usize = 400; // 8 MiB main thread, debug build: dies from about 200

fn child() {
    let dir = std::env::temp_dir().join(format!("pyxis_finding_2_{}", std::process::id()));
    let _ = std::fs::remove_dir_all(&dir);
    let in_dir = dir.join("in");
    let out_dir = dir.join("out");
    std::fs::create_dir_all(&in_dir).unwrap();
    std::fs::create_dir_all(&out_dir).unwrap();
    let name = format!("A{}{}", "<A".repeat(DEPTH), ">".repeat(DEPTH));
    let text = format!("#[size(4), align(4)]\nextern type {name};\ntype T {{\n    a: {name},\n}}\n");
    println!("input: {} bytes", text.len());
    std::fs::write(in_dir.join("m.pyxis"), text).unwrap();
    let result = pyxis::build(&in_dir, &out_dir, 4);
    let _ = std::fs::remove_dir_all(&dir);
    match result {
        Ok(()) => println!("build returned Ok"),
        Err(e) => println!("build returned an error: {}", format!("{e:#}").chars().take(200).collect::<String>()),
    }
}

fn main() {
    if std::env::var_os("PYXIS_FINDING_CHILD").is_some() {
        return child();
    }
    let status = Command::new(std::env::current_exe().unwrap())
        .env("PYXIS_FINDING_CHILD", "1")
        .status()
        .unwrap();
    if status.success() {
        println!("the build returned a value");
    } else {
        println!("VIOLATION: the build did not return, the process died: {status}");
        std::process::exit(1);
    }
}
