// FINDING 1 (C12, last sentence: "Parse errors identify the file, line and column")
//
// A file whose text cannot even be split into tokens (a stray closing bracket, a character that
// is no token such as a backtick) is reported at the END of the file instead of where the
// offending character is.  `SemanticState::add_file` treats every error whose span is empty as
// "the input ended too early" and moves it to the end of the last non-blank line; the lexer's
// errors have an empty span too, but they do carry the real position.
//
// Exits 0 if the reported position is on the line of the offending character, 1 otherwise.
use std::path::Path;

fn check(dir: &Path, name: &str, text: &str, bad_line: usize) -> bool {
    let in_dir = dir.join(format!("in_{name}"));
    let out_dir = dir.join(format!("out_{name}"));
    std::fs::create_dir_all(&in_dir).unwrap();
    std::fs::create_dir_all(&out_dir).unwrap();
    let file = in_dir.join(format!("{name}.pyxis"));
    std::fs::write(&file, text).unwrap();

    // What the tokenizer itself says about the position (1-based line, 0-based column):
    let own = pyxis::parser::parse_str(text).unwrap_err().span().start();

    let message = match pyxis::build(&in_dir, &out_dir, 4) {
        Ok(()) => {
            println!("{name}: unexpectedly built");
            return false;
        }
        Err(e) => format!("{e:#}"),
    };
    println!("{name}: {message}");
    println!("    the offending character is on line {bad_line}; the error's own span says {}:{}", own.line, own.column + 1);
    let wanted_prefix = format!("{}:{}:", file.display(), bad_line);
    let ok = message.contains(&wanted_prefix);
    if !ok {
        println!("    VIOLATION: the message does not point at line {bad_line}");
    }
    ok
}

fn main() {
    let dir = std::env::temp_dir().join(format!("pyxis_finding_1_{}", std::process::id()));
    let _ = std::fs::remove_dir_all(&dir);
    std::fs::create_dir_all(&dir).unwrap();

    let mut ok = true;
    // a `)` that closes nothing, on line 2 of 7
    ok &= check(&dir, "stray_paren", "type A {\n    a: u32 )\n}\n\ntype B {\n    b: u32,\n}\n", 2);
    // a character that is no token, on line 4 of 7
    ok &= check(&dir, "backtick", "type A {\n    a: u32,\n}\ntype B { ` }\ntype C {\n    c: u32,\n}\n", 4);
    // a closing bracket of the wrong kind, on line 1 of 5
    ok &= check(&dir, "mismatch", "type A { a: [u8; 4) }\ntype B {\n    b: u32,\n}\n\n", 1);

    let _ = std::fs::remove_dir_all(&dir);
    if !ok {
        std::process::exit(1);
    }
    println!("all positions correct");
}
