// FINDING 4 (C12: "For any input text ... parsing ... return either success or an error value, using
// time and memory proportional to the size of the input")
//
// Brackets nested N deep anywhere in a `.pyxis` text (they need not make sense: `((((...))))`):
//   * `parse_str` takes time quadratic in N (syn's TokenBuffer keeps a clone of every group's
//     stream, and dropping each of them walks and clones the rest of the chain);
//   * syn's `TokenBuffer::recursive_new` recurses once per level, so on a thread with the
//     default 2 MiB stack (std::thread::spawn, the test harness) 3000 levels - a 6 KiB text -
//     overflow the stack and kill the process; the 8 MiB main thread dies from about 10000
//     levels (20 KiB).
// Types are limited to 32 levels by the parser, but that check is only reached after the whole
// text has been turned into a TokenBuffer.
//
// Runs in a child process (this program re-executed); exits 1 if the child is killed or if
// quadrupling the input makes parsing more than 10 times slower.
use std::process::Command;
use std::time::Instant;

fn nested(n: usize) -> String {
    format!("type A {{ a: {}u8{} }}\n", "[".repeat(n), "]".repeat(n))
}

fn child() {
    let text = nested(4000); // 8 KiB
    println!("stack: parsing {} bytes on a thread with the default stack size", text.len());
    let handle = std::thread::spawn(move || pyxis::parser::parse_str(&text).map(|_| ()).map_err(|e| e.to_string()));
    println!("stack: parse_str returned {:?}", handle.join().unwrap());
}

fn main() {
    if std::env::var_os("PYXIS_FINDING_CHILD").is_some() {
        return child();
    }
    let mut violated = false;

    let time = |n: usize| {
        let text = nested(n);
        let start = Instant::now();
        let _ = pyxis::parser::parse_str(&text);
        start.elapsed()
    };
    let _ = time(100);
    let (small, large) = (time(500), time(2000));
    let ratio = large.as_secs_f64() / small.as_secs_f64();
    println!("time: 500 levels (1 KiB) {small:?}, 2000 levels (4 KiB) {large:?}: x{ratio:.1} for 4 times the input");
    if ratio > 10.0 {
        println!("VIOLATION: parse time is not proportional to the size of the input");
        violated = true;
    }

    let status = Command::new(std::env::current_exe().unwrap())
        .env("PYXIS_FINDING_CHILD", "1")
        .status()
        .unwrap();
    if !status.success() {
        println!("VIOLATION: parse_str did not return, the process died: {status}");
        violated = true;
    }
    if violated {
        std::process::exit(1);
    }
    println!("parse_str returned a value in proportional time");
}
