//! Finding 1: two sources that map to the same module path silently replace one another.
//! The types of the replaced module stay in the registry but belong to no module, so they are
//! never written; its extern values and impl blocks vanish, together with any undefined
//! names in them. The build succeeds.
//!
//! Exits non-zero when the violation shows.

use std::path::{Path, PathBuf};

use pyxis::{grammar::ItemPath, parser::parse_str, semantic::SemanticState};

fn fresh(name: &str) -> PathBuf {
    let root = std::env::temp_dir().join(format!("finding1-{}-{}", name, std::process::id()));
    let _ = std::fs::remove_dir_all(&root);
    std::fs::create_dir_all(&root).unwrap();
    root
}
fn write(dir: &Path, rel: &str, content: &str) {
    let p = dir.join(rel);
    std::fs::create_dir_all(p.parent().unwrap()).unwrap();
    std::fs::write(p, content).unwrap();
}
fn all_output(dir: &Path) -> String {
    let mut out = String::new();
    let mut stack = vec![dir.to_path_buf()];
    while let Some(d) = stack.pop() {
        for e in std::fs::read_dir(&d).unwrap() {
            let p = e.unwrap().path();
            if p.is_dir() {
                stack.push(p);
            } else {
                out.push_str(&std::fs::read_to_string(&p).unwrap());
            }
        }
    }
    out
}

// Everything here is defined: the property wants both types in the output.
const FIRST_OK: &str = "pub type First { x: u32 }\n#[address(0x10)] pub extern first_value: u32;\nimpl First { #[address(0x20)] pub fn first_fn(&self, a: u32) -> u32; }";
// Undefined names in an extern value, a parameter and a return type: the property wants an error.
const FIRST_BAD: &str = "pub type First { x: u32 }\n#[address(0x10)] pub extern first_value: UndefinedA;\nimpl First { #[address(0x20)] pub fn first_fn(&self, a: UndefinedB) -> UndefinedC; }";
const SECOND: &str = "pub type Second { y: u32 }";

fn main() {
    let mut violations = vec![];

    // (A) pyxis::build: `dir/...pyxis` and `dir/..pyxis` both become module `dir::..`
    // (Path::with_extension("") turns both into `dir/..`). `...pyxis` sorts first.
    for (label, first) in [("defined", FIRST_OK), ("undefined", FIRST_BAD)] {
        let root = fresh(&format!("fs-{label}"));
        let (i, o) = (root.join("in"), root.join("out"));
        std::fs::create_dir_all(&o).unwrap();
        write(&i, "dir/...pyxis", first);
        write(&i, "dir/..pyxis", SECOND);
        let r = pyxis::build(&i, &o, 8);
        match r {
            Err(e) => println!("(A/{label}) rejected: {e:#}"),
            Ok(()) => {
                let out = all_output(&o);
                let complete = out.contains("struct First")
                    && out.contains("struct Second")
                    && out.contains("get_first_value")
                    && out.contains("fn first_fn");
                println!("(A/{label}) accepted, output complete: {complete}");
                if label == "undefined" {
                    violations.push("(A) build accepted undefined names in extern value / parameter / return type");
                } else if !complete {
                    violations.push("(A) build succeeded with type First, its function and the extern value left out");
                }
            }
        }
        let _ = std::fs::remove_dir_all(&root);
    }

    // (B) add_file from two input roots: `r1/x.pyxis` and `r2/x.pyxis` are both module `x`.
    for (label, first) in [("defined", FIRST_OK), ("undefined", FIRST_BAD)] {
        let root = fresh(&format!("roots-{label}"));
        write(&root, "r1/x.pyxis", first);
        write(&root, "r2/x.pyxis", SECOND);
        let mut s = SemanticState::new(8);
        let r = s
            .add_file(&root.join("r1"), &root.join("r1/x.pyxis"))
            .and_then(|_| s.add_file(&root.join("r2"), &root.join("r2/x.pyxis")))
            .and_then(|_| s.build());
        match r {
            Err(e) => println!("(B/{label}) rejected: {e:#}"),
            Ok(state) => {
                let listed = state
                    .modules()
                    .values()
                    .any(|m| m.definition_paths().contains(&ItemPath::from("x::First")));
                println!("(B/{label}) accepted, First listed in a module: {listed}");
                if label == "undefined" {
                    violations.push("(B) build accepted undefined names in extern value / parameter / return type");
                } else if !listed {
                    violations.push("(B) build succeeded with type First belonging to no module");
                }
            }
        }
        let _ = std::fs::remove_dir_all(&root);
    }

    // (C) add_module twice with the same path.
    {
        let mut s = SemanticState::new(8);
        let r = s
            .add_module(&parse_str(FIRST_BAD).unwrap(), &ItemPath::from("a"))
            .and_then(|_| s.add_module(&parse_str(SECOND).unwrap(), &ItemPath::from("a")))
            .and_then(|_| s.build());
        match r {
            Err(e) => println!("(C) rejected: {e:#}"),
            Ok(_) => {
                println!("(C) accepted");
                violations.push("(C) build accepted undefined names after add_module replaced module `a`");
            }
        }
    }

    if !violations.is_empty() {
        for v in &violations {
            eprintln!("VIOLATION: {v}");
        }
        std::process::exit(1);
    }
}
