//! Finding 2: an `impl` block is only looked at when a `type` of that name is declared in
//! the same module. For an enum, an extern type, an imported type, a generated vftable type
//! or a name that does not exist at all, the block is silently discarded: its functions are
//! not emitted and undefined names in their parameters / return types are accepted.
//!
//! Exits non-zero when the violation shows.

use std::path::{Path, PathBuf};

fn fresh(name: &str) -> PathBuf {
    let root = std::env::temp_dir().join(format!("finding2-{}-{}", name, std::process::id()));
    let _ = std::fs::remove_dir_all(&root);
    std::fs::create_dir_all(&root).unwrap();
    root
}
fn write(dir: &Path, rel: &str, content: &str) {
    let p = dir.join(rel);
    std::fs::create_dir_all(p.parent().unwrap()).unwrap();
    std::fs::write(p, content).unwrap();
}
fn all_output(dir: &Path) -> String {
    let mut out = String::new();
    let mut stack = vec![dir.to_path_buf()];
    while let Some(d) = stack.pop() {
        for e in std::fs::read_dir(&d).unwrap() {
            let p = e.unwrap().path();
            if p.is_dir() {
                stack.push(p);
            } else {
                out.push_str(&std::fs::read_to_string(&p).unwrap());
            }
        }
    }
    out
}

fn main() {
    let undefined = "#[address(0x10)] pub fn lost_fn(a: UndefinedParam) -> UndefinedReturn;";
    let defined = "#[address(0x10)] pub fn lost_fn(a: u32) -> u32;";

    let cases: Vec<(&str, Vec<(&str, String)>, Vec<(&str, String)>)> = vec![
        (
            "enum",
            vec![("m.pyxis", format!("enum E: u32 {{ A = 0 }}\nimpl E {{ {undefined} }}"))],
            vec![("m.pyxis", format!("enum E: u32 {{ A = 0 }}\nimpl E {{ {defined} }}"))],
        ),
        (
            "extern type",
            vec![("m.pyxis", format!("#[size(4), align(4)] extern type X;\nimpl X {{ {undefined} }}"))],
            vec![],
        ),
        (
            "imported type",
            vec![
                ("a.pyxis", "pub type Foo { x: u32 }".to_string()),
                ("b.pyxis", format!("use a::Foo;\nimpl Foo {{ {undefined} }}")),
            ],
            vec![
                ("a.pyxis", "pub type Foo { x: u32 }".to_string()),
                ("b.pyxis", format!("use a::Foo;\nimpl Foo {{ {defined} }}")),
            ],
        ),
        (
            "generated vftable type",
            vec![("m.pyxis", format!("type A {{ vftable {{ fn f(&self); }} }}\nimpl AVftable {{ {undefined} }}"))],
            vec![],
        ),
        (
            "undeclared name",
            vec![("m.pyxis", format!("type A {{ x: u32 }}\nimpl Nope {{ {undefined} }}"))],
            vec![],
        ),
    ];

    let mut violations = vec![];
    for (label, bad, good) in cases {
        // (b): undefined names in a function parameter / return type must be rejected
        let root = fresh("bad");
        let (i, o) = (root.join("in"), root.join("out"));
        std::fs::create_dir_all(&o).unwrap();
        for (rel, c) in &bad {
            write(&i, rel, c);
        }
        match pyxis::build(&i, &o, 8) {
            Err(e) => println!("[{label}] undefined names rejected: {e:#}"),
            Ok(()) => {
                println!("[{label}] undefined names in parameter and return type ACCEPTED");
                violations.push(format!("impl for {label}: undefined parameter/return type accepted"));
            }
        }
        let _ = std::fs::remove_dir_all(&root);

        // (d): with defined names, the declared function must be in the output
        if !good.is_empty() {
            let root = fresh("good");
            let (i, o) = (root.join("in"), root.join("out"));
            std::fs::create_dir_all(&o).unwrap();
            for (rel, c) in &good {
                write(&i, rel, c);
            }
            match pyxis::build(&i, &o, 8) {
                Err(e) => println!("[{label}] valid variant rejected: {e:#}"),
                Ok(()) => {
                    let present = all_output(&o).contains("lost_fn");
                    println!("[{label}] valid variant accepted, function emitted: {present}");
                    if !present {
                        violations.push(format!("impl for {label}: declared function left out of an accepted build"));
                    }
                }
            }
            let _ = std::fs::remove_dir_all(&root);
        }
    }

    if !violations.is_empty() {
        for v in &violations {
            eprintln!("VIOLATION: {v}");
        }
        std::process::exit(1);
    }
}
