//! Finding 4: `use game::entity;` when `game.pyxis` declares a type `entity` AND
//! `game/entity.pyxis` is a module. The import is taken as a type import only, so the types of
//! the module `game::entity` are not in scope and a program in which every name has a
//! definition ends in "type resolution will not terminate". (The sibling case, the module
//! `game::entity` looking up its own types, was repaired in 1896706.)
//!
//! Exits non-zero when the violation shows.

use std::path::Path;

fn write(dir: &Path, rel: &str, content: &str) {
    let p = dir.join(rel);
    std::fs::create_dir_all(p.parent().unwrap()).unwrap();
    std::fs::write(p, content).unwrap();
}

fn build(label: &str, files: &[(&str, &str)]) -> anyhow::Result<()> {
    let root = std::env::temp_dir().join(format!("finding4-{}-{}", label, std::process::id()));
    let _ = std::fs::remove_dir_all(&root);
    let (i, o) = (root.join("in"), root.join("out"));
    std::fs::create_dir_all(&o).unwrap();
    for (rel, c) in files {
        write(&i, rel, c);
    }
    let r = pyxis::build(&i, &o, 8);
    let _ = std::fs::remove_dir_all(&root);
    r
}

fn main() {
    // Control: the same program, with the type in game.pyxis called something else.
    let control = build(
        "control",
        &[
            ("game.pyxis", "pub type other { x: u64 }"),
            ("game/entity.pyxis", "pub type Foo { x: u64 }"),
            ("x.pyxis", "use game::entity;\nuse game::other;\ntype Bar { f: Foo, p: *const other }"),
        ],
    );
    println!("control (module import, no type of that path): {:?}", control.as_ref().map_err(|e| format!("{e:#}")));
    assert!(control.is_ok(), "control must build");

    let r = build(
        "case",
        &[
            ("game.pyxis", "pub type entity { x: u64 }"),
            ("game/entity.pyxis", "pub type Foo { x: u64 }"),
            ("x.pyxis", "use game::entity;\ntype Bar { f: Foo, p: *const entity }"),
        ],
    );
    println!("case (type `game::entity` next to module `game::entity`): {:?}", r.as_ref().map_err(|e| format!("{e:#}")));
    if r.is_err() {
        eprintln!("VIOLATION: a program in which every mentioned name is defined and imported was rejected");
        std::process::exit(1);
    }
}
