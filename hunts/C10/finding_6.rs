//! Finding 6 (by upstream design, but against clause (d) as written): a declared function
//! whose name starts with `_` is resolved and kept in the semantic state, but the Rust
//! backend filters it out, so the accepted build's output does not contain it.
//!
//! Exits non-zero when the violation shows.

use pyxis::{grammar::ItemPath, parser::parse_str, semantic::SemanticState};

fn main() {
    let src = "type A { x: u32 }\nimpl A { #[address(0x10)] pub fn _hidden(&self, a: u32) -> u32; #[address(0x20)] pub fn shown(&self); }";
    let mut s = SemanticState::new(8);
    s.add_module(&parse_str(src).unwrap(), &ItemPath::from("m")).unwrap();
    let state = s.build().unwrap();
    let out = std::env::temp_dir().join(format!("finding6-{}", std::process::id()));
    let _ = std::fs::remove_dir_all(&out);
    std::fs::create_dir_all(&out).unwrap();
    for (k, m) in state.modules() {
        pyxis::backends::rust::write_module(&out, k, &state, m).unwrap();
    }
    let text = std::fs::read_to_string(out.join("m.rs")).unwrap();
    let _ = std::fs::remove_dir_all(&out);
    let shown = text.contains("fn shown");
    let hidden = text.contains("fn _hidden");
    println!("`shown` emitted: {shown}; `_hidden` emitted: {hidden}");
    assert!(shown);
    if !hidden {
        eprintln!("VIOLATION: declared function `_hidden` is missing from the accepted build's output");
        std::process::exit(1);
    }
}
