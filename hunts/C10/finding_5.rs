//! Finding 5 (weaker, see REPORT.md): `A` has a vftable block and a field with an undefined
//! name; `B` only embeds the generated `AVftable` by value. `AVftable` consists of function
//! pointers and mentions nothing undefined, but it is only generated once all of A's field
//! names resolve, so B waits forever and the error lists B as unresolvable (and does not list
//! `AVftable`). With a by-value cycle in A instead of an undefined name, `AVftable` IS
//! generated and B resolves: the implementation itself treats `AVftable` as independent of A.
//!
//! Exits non-zero when the violation shows.

use pyxis::{grammar::ItemPath, parser::parse_str, semantic::SemanticState};

fn failed_types(src: &str) -> Vec<String> {
    let mut s = SemanticState::new(8);
    s.add_module(&parse_str(src).unwrap(), &ItemPath::from("m")).unwrap();
    let msg = format!("{:#}", s.build().expect_err("an undefined name / cycle must be rejected"));
    println!("  {msg}");
    let list = msg.split("failed on types: [").nth(1).expect("no list of failed types");
    let list = &list[..list.find(']').unwrap()];
    let mut v: Vec<String> = list
        .split(',')
        .map(|s| s.trim().trim_matches('"').to_string())
        .filter(|s| !s.is_empty())
        .collect();
    v.sort();
    v
}

fn main() {
    println!("by-value cycle in A:");
    let cycle = failed_types("type A { vftable { fn f(&self); }, x: A }\ntype B { v: AVftable }");
    println!("undefined field name in A:");
    let name = failed_types("type A { vftable { fn f(&self); }, x: Undefined }\ntype B { v: AVftable }");
    println!("cycle: {cycle:?}\nundefined name: {name:?}");
    if name != ["m::A"] {
        eprintln!("VIOLATION: the error does not list exactly the unresolvable types (expected only m::A)");
        std::process::exit(1);
    }
}
