//! Finding 7 (file-system layout): `find_pyxis_files` silently skips any directory it cannot
//! canonicalize or read. A `.pyxis` file below such a directory is left out and the build
//! succeeds, even when that file has an undefined name in a field. Reproduced here with a
//! directory nested deeper than PATH_MAX (ENAMETOOLONG); an unreadable directory takes the
//! same code path (not reproducible as root).
//!
//! Exits non-zero when the violation shows.

fn main() {
    let root = std::env::temp_dir().join(format!("finding7-{}", std::process::id()));
    let _ = std::fs::remove_dir_all(&root);
    let (i, o) = (root.join("in"), root.join("out"));
    std::fs::create_dir_all(&i).unwrap();
    std::fs::create_dir_all(&o).unwrap();
    std::fs::write(i.join("top.pyxis"), "pub type Top { x: u32 }").unwrap();

    let seg = "d".repeat(200);
    let old = std::env::current_dir().unwrap();
    std::env::set_current_dir(&i).unwrap();
    for _ in 0..25 {
        std::fs::create_dir(&seg).unwrap();
        std::env::set_current_dir(&seg).unwrap();
    }
    std::fs::write("deep.pyxis", "pub type Deep { x: Undefined }").unwrap();
    std::env::set_current_dir(&old).unwrap();

    let r = pyxis::build(&i, &o, 8);
    println!("build: {:?}", r.as_ref().map_err(|e| format!("{e:#}")));
    let violated = r.is_ok();
    std::fs::remove_dir_all(&root).unwrap();
    if violated {
        eprintln!("VIOLATION: the build succeeded although `Deep` (with an undefined field type) was declared in the input directory");
        std::process::exit(1);
    }
}
