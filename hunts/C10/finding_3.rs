//! Finding 3: a declared field whose type is an array of total size zero (`[B; 0]`, or
//! `[Empty; 3]` for a zero-sized `Empty`) is dropped from an accepted build: neither the
//! resolved type nor the generated struct has it, and the reference to `B` is gone.
//!
//! Exits non-zero when the violation shows.

use pyxis::{grammar::ItemPath, parser::parse_str, semantic::SemanticState};

fn main() {
    let src = "type B { x: u64 }\ntype Empty;\ntype A { pub a: u64, pub z: [B; 0], pub e: [Empty; 3], pub q: Empty, pub p: *const B }";
    let mut s = SemanticState::new(8);
    s.add_module(&parse_str(src).unwrap(), &ItemPath::from("m")).unwrap();
    let state = match s.build() {
        Ok(state) => state,
        Err(e) => {
            println!("rejected: {e:#}");
            return;
        }
    };
    let a = state.type_registry().get(&ItemPath::from("m::A")).unwrap();
    let td = a.resolved().unwrap().inner.as_type().unwrap();
    let names: Vec<_> = td.regions.iter().map(|r| r.name.clone().unwrap_or_default()).collect();
    println!("accepted; fields of m::A: {names:?}");

    let out = std::env::temp_dir().join(format!("finding3-{}", std::process::id()));
    let _ = std::fs::remove_dir_all(&out);
    std::fs::create_dir_all(&out).unwrap();
    for (k, m) in state.modules() {
        pyxis::backends::rust::write_module(&out, k, &state, m).unwrap();
    }
    let text = std::fs::read_to_string(out.join("m.rs")).unwrap();
    let _ = std::fs::remove_dir_all(&out);

    let mut bad = false;
    for field in ["a", "z", "e", "q", "p"] {
        let in_state = names.iter().any(|n| n == field);
        let in_text = text.contains(&format!("pub {field}:"));
        println!("field `{field}`: in resolved type = {in_state}, in generated struct = {in_text}");
        bad |= !in_state || !in_text;
    }
    if bad {
        eprintln!("VIOLATION: an accepted build left out declared fields");
        std::process::exit(1);
    }
}
