// Odd file layouts: every module maps to its own output file, whatever the write order.
use std::collections::{BTreeMap, BTreeSet};
use std::path::Path;

fn collect(dir: &Path, base: &Path, out: &mut BTreeMap<String, String>) {
    let Ok(rd) = std::fs::read_dir(dir) else { return };
    for e in rd.flatten() {
        let p = e.path();
        if p.is_dir() && !p.is_symlink() {
            collect(&p, base, out);
        } else {
            out.insert(
                p.strip_prefix(base).unwrap().display().to_string(),
                String::from_utf8_lossy(&std::fs::read(&p).unwrap_or_default()).into_owned(),
            );
        }
    }
}

fn main() {
    std::panic::set_hook(Box::new(|_| {}));
    let root = std::env::temp_dir().join(format!("rev3c09_layout_{}", std::process::id()));
    let _ = std::fs::remove_dir_all(&root);
    let in_dir = root.join("in");
    let files: &[(&str, &str)] = &[
        ("a.pyxis", "pub type T { vftable { pub fn f(&self) -> *const TVftable; }, x: u32 }"),
        ("a.b.pyxis", "use a; pub type U { #[base] pub t: T, p: *const TVftable }"),
        ("a/b.pyxis", "use a::T; pub type U { #[base] pub t: T }"),
        ("a::b.pyxis", "pub type U { x: u32 }"),
        ("..pyxis", "pub type Dot { x: u32 }"),
        ("...pyxis", "pub type DotDot { x: u32 }"),
        ("a/..pyxis", "pub type Dot2 { x: u32 }"),
        ("a/...pyxis", "pub type DotDot2 { x: u32 }"),
        ("a.rs.pyxis", "pub type R { x: u32 }"),
        ("r#type.pyxis", "pub type r#type { vftable { pub fn r#fn(&self); } } pub type W { v: typeVftable, #[base] pub b: r#type }"),
        ("z/FooVftable.pyxis", "pub type Q { x: u32 }"),
        ("z.pyxis", "use z::FooVftable; pub type Foo { vftable { pub fn g(&self, q: *const Q); } } pub type Q { f: FooVftable }"),
    ];
    for (rel, c) in files {
        let p = in_dir.join(rel);
        std::fs::create_dir_all(p.parent().unwrap()).unwrap();
        std::fs::write(p, c).unwrap();
    }
    // a directory link to a sibling, and one back to the root
    std::os::unix::fs::symlink(in_dir.join("a"), in_dir.join("link")).unwrap();
    std::os::unix::fs::symlink(&in_dir, in_dir.join("a").join("up")).unwrap();

    let mut outcomes = BTreeSet::new();
    for _ in 0..40 {
        let out = root.join("out");
        let _ = std::fs::remove_dir_all(&out);
        std::fs::create_dir_all(&out).unwrap();
        let r = pyxis::build(&in_dir, &out, 4);
        let mut m = BTreeMap::new();
        collect(&out, &out, &mut m);
        outcomes.insert((r.map_err(|e| format!("{e:#}")), m));
    }
    for (r, m) in &outcomes {
        println!("{:?} -> {:?}", r, m.keys().collect::<Vec<_>>());
    }
    // a digest for comparison between processes
    let mut h: u64 = 1469598103934665603;
    for (r, m) in &outcomes {
        for b in format!("{r:?}{m:?}").bytes() {
            h = (h ^ b as u64).wrapping_mul(1099511628211);
        }
    }
    println!("distinct outcomes: {}, digest {h:016x}", outcomes.len());
    let _ = std::fs::remove_dir_all(&root);
    if outcomes.len() != 1 {
        std::process::exit(1);
    }
}
