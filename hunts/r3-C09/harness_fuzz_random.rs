// Fuzz-ish determinism harness: random small module sets, each built many times (fresh
// HashMaps -> fresh seeds), via `pyxis::build` and via the API with permuted add order.
use std::collections::{BTreeMap, BTreeSet};
use std::path::{Path, PathBuf};

struct Rng(u64);
impl Rng {
    fn next(&mut self) -> u64 {
        self.0 ^= self.0 << 13;
        self.0 ^= self.0 >> 7;
        self.0 ^= self.0 << 17;
        self.0
    }
    fn below(&mut self, n: usize) -> usize {
        (self.next() % n as u64) as usize
    }
    fn chance(&mut self, num: usize, den: usize) -> bool {
        self.below(den) < num
    }
    fn pick<'a, T>(&mut self, v: &'a [T]) -> &'a T {
        &v[self.below(v.len())]
    }
}

fn collect(dir: &Path, base: &Path, out: &mut BTreeMap<String, String>) {
    let Ok(rd) = std::fs::read_dir(dir) else { return };
    for e in rd.flatten() {
        let p = e.path();
        if p.is_dir() {
            collect(&p, base, out);
        } else {
            out.insert(
                p.strip_prefix(base).unwrap().display().to_string(),
                String::from_utf8_lossy(&std::fs::read(&p).unwrap()).into_owned(),
            );
        }
    }
}

#[derive(Debug, Clone, PartialEq, Eq, PartialOrd, Ord)]
enum Outcome {
    Ok(BTreeMap<String, String>),
    Err(String),
}

fn write_inputs(root: &Path, files: &[(String, String)]) -> PathBuf {
    let in_dir = root.join("in");
    let _ = std::fs::remove_dir_all(&in_dir);
    for (rel, content) in files {
        let p = in_dir.join(rel);
        std::fs::create_dir_all(p.parent().unwrap()).unwrap();
        std::fs::write(p, content).unwrap();
    }
    in_dir
}

fn run_build(root: &Path, in_dir: &Path) -> Outcome {
    let out_dir = root.join("out");
    let _ = std::fs::remove_dir_all(&out_dir);
    std::fs::create_dir_all(&out_dir).unwrap();
    match pyxis::build(in_dir, &out_dir, 4) {
        Ok(()) => {
            let mut m = BTreeMap::new();
            collect(&out_dir, &out_dir, &mut m);
            Outcome::Ok(m)
        }
        Err(e) => Outcome::Err(norm(format!("{e:#}"))),
    }
}

fn norm(e: String) -> String {
    if let Some(rest) = e.strip_prefix("type resolution will not terminate, failed on types: [") {
        if let Some((failed, resolved)) = rest.split_once("] (resolved types: [") {
            let mut f: Vec<&str> = failed.split(", ").collect();
            f.sort();
            let mut r: Vec<&str> = resolved.trim_end_matches("])").split(", ").collect();
            r.sort();
            return format!("NOPROGRESS failed={f:?} resolved={r:?}");
        }
    }
    e
}

fn run_api(root: &Path, in_dir: &Path, order: &[(String, String)]) -> Outcome {
    let out_dir = root.join("out");
    let _ = std::fs::remove_dir_all(&out_dir);
    std::fs::create_dir_all(&out_dir).unwrap();
    let mut st = pyxis::semantic::SemanticState::new(4);
    for (rel, _) in order {
        if let Err(e) = st.add_file(in_dir, &in_dir.join(rel)) {
            return Outcome::Err(norm(format!("{e:#}")));
        }
    }
    let resolved = match st.build() {
        Ok(r) => r,
        Err(e) => return Outcome::Err(norm(format!("{e:#}"))),
    };
    for (k, m) in resolved.modules() {
        if let Err(e) = pyxis::backends::rust::write_module(&out_dir, k, &resolved, m) {
            return Outcome::Err(norm(format!("{e:#}")));
        }
    }
    let mut m = BTreeMap::new();
    collect(&out_dir, &out_dir, &mut m);
    Outcome::Ok(m)
}

thread_local! { static VFT: std::cell::RefCell<Vec<bool>> = std::cell::RefCell::new(vec![]); }
fn gen_type(rng: &mut Rng, names: &[&str]) -> String {
    gen_type_for(rng, names, usize::MAX, false)
}

fn gen_type_for(rng: &mut Rng, names: &[&str], me: usize, by_value_only: bool) -> String {
    let prims = ["u32", "i32", "f32", "u32", "i32", "u32", if rng.chance(1, 20) { "u8" } else { "u32" }];
    let mut pool: Vec<(String, bool)> = prims.iter().map(|s| (s.to_string(), true)).collect();
    for (i, n) in names.iter().enumerate() {
        // by value only "earlier" names, to keep most inputs free of cycles
        pool.push((n.to_string(), me == usize::MAX || i < me));
        let has = VFT.with(|v| v.borrow().get(i).copied().unwrap_or(false));
        if (has && rng.chance(1, 3)) || rng.chance(1, 60) {
            pool.push((format!("{n}Vftable"), true));
        }
    }
    if rng.chance(1, 40) {
        return "Nope".to_string();
    }
    let (base, by_value_ok) = rng.pick(&pool).clone();
    let by_value_ok = by_value_ok || rng.chance(1, 30);
    if by_value_only {
        if !by_value_ok {
            return "u32".to_string();
        }
        return base;
    }
    match rng.below(6) {
        0 | 1 if by_value_ok => base,
        4 if by_value_ok => format!("[{base}; {}]", rng.below(3)),
        2 => format!("*const {base}"),
        3 | 0 | 1 | 4 => format!("*mut {base}"),
        _ => format!("*const *mut {base}"),
    }
}

fn gen_fn(rng: &mut Rng, names: &[&str], vfunc: bool) -> String {
    let fnames = ["f", "g", "h", "vftable", "r#type", "get", "k1", "k2", "k3", "k4", "k5", "k6", "k7", "k8", "k9", "k10", "k11", "k12", "k13", "k14", "k15", "k16"];
    let mut s = String::new();
    if !vfunc {
        s += &format!("#[address(0x{:x})] ", 0x1000 + rng.below(100));
    } else if rng.chance(1, 6) {
        s += &format!("#[index({})] ", rng.below(4));
    }
    if rng.chance(2, 3) {
        s += "pub ";
    }
    s += &format!("fn {}(", rng.pick(&fnames));
    let mut args = vec![];
    if rng.chance(3, 4) {
        args.push(if rng.chance(1, 2) { "&self".to_string() } else { "&mut self".to_string() });
    }
    for i in 0..rng.below(3) {
        args.push(format!("a{i}: {}", gen_type(rng, names)));
    }
    s += &args.join(", ");
    s += ")";
    if rng.chance(1, 3) {
        s += &format!(" -> {}", gen_type(rng, names));
    }
    s
}

fn gen_module(rng: &mut Rng, my: usize, mods: &[&str], names: &[&str]) -> String {
    let mut s = String::new();
    for (i, m) in mods.iter().enumerate() {
        if i != my && rng.chance(1, 2) {
            if rng.chance(1, 2) {
                s += &format!("use {m};\n");
            } else {
                let n = rng.pick(names);
                let suffix = if rng.chance(1, 4) { "Vftable" } else { "" };
                s += &format!("use {m}::{n}{suffix};\n");
            }
        }
    }
    let mut declared = BTreeSet::new();
    VFT.with(|v| *v.borrow_mut() = (0..names.len()).map(|_| rng.chance(1, 2)).collect());
    let mut plan: Vec<usize> = (0..names.len()).filter(|_| rng.chance(9, 10)).collect();
    if rng.chance(1, 40) {
        plan.push(rng.below(names.len()));
    }
    // shuffle declaration order
    for i in (1..plan.len()).rev() {
        plan.swap(i, rng.below(i + 1));
    }
    for me_idx in plan {
        let n = names[me_idx];
        declared.insert(n);
        if rng.chance(1, 8) {
            s += &format!("#[size({}), align({})] extern type {n};\n", rng.below(3) * 4, 1 << rng.below(3));
            continue;
        }
        if rng.chance(1, 8) {
            s += &format!("enum {n}: {} {{ A = 1, B }}\n", gen_type(rng, names));
            continue;
        }
        let mut attrs = vec![];
        if rng.chance(1, 25) {
            attrs.push(format!("size(0x{:x})", 4 * rng.below(8)));
        }
        if rng.chance(1, 80) {
            attrs.push("defaultable".to_string());
        }
        if rng.chance(1, 8) {
            attrs.push("packed".to_string());
        }
        if rng.chance(1, 25) {
            attrs.push(format!("align({})", 1 << rng.below(4)));
        }
        if !attrs.is_empty() {
            s += &format!("#[{}]\n", attrs.join(", "));
        }
        if rng.chance(2, 3) {
            s += "pub ";
        }
        s += &format!("type {n} {{\n");
        let mut stmts = vec![];
        if VFT.with(|v| v.borrow()[me_idx]) {
            let mut v = String::from("    vftable {\n");
            for _ in 0..rng.below(3) {
                v += &format!("        {};\n", gen_fn(rng, names, true));
            }
            v += "    }";
            stmts.push(v);
        }
        for i in 0..rng.below(4) {
            let mut f = String::from("    ");
            let is_base = rng.chance(1, 3);
            if is_base {
                f += "#[base] ";
            }
            if rng.chance(1, 30) {
                f += &format!("#[address(0x{:x})] ", 4 * rng.below(6));
            }
            if rng.chance(1, 2) {
                f += "pub ";
            }
            let fname = if rng.chance(1, 10) { "_".to_string() } else { format!("f{i}") };
            let fname = if is_base && !rng.chance(1, 20) { format!("f{i}") } else { fname };
            let bvo = is_base && !rng.chance(1, 20);
            f += &format!("{fname}: {}", gen_type_for(rng, names, me_idx, bvo));
            stmts.push(f);
        }
        s += &stmts.join(",\n");
        s += "\n}\n";
        if rng.chance(1, 3) {
            s += &format!("impl {n} {{\n");
            for _ in 0..1 + rng.below(2) {
                s += &format!("    {};\n", gen_fn(rng, names, false));
            }
            s += "}\n";
        }
    }
    if rng.chance(1, 4) {
        s += &format!("#[address(0x100)] pub extern g{my}: {};\n", gen_type(rng, names));
    }
    s
}

fn main() {
    let args: Vec<String> = std::env::args().collect();
    let seed: u64 = args.get(1).map(|s| s.parse().unwrap()).unwrap_or(1);
    let cases: usize = args.get(2).map(|s| s.parse().unwrap()).unwrap_or(200);
    let reps: usize = args.get(3).map(|s| s.parse().unwrap()).unwrap_or(12);
    let root = std::env::temp_dir().join(format!("rev3c09_fuzz_{}", std::process::id()));
    std::fs::create_dir_all(&root).unwrap();
    // silence prettyplease panics
    std::panic::set_hook(Box::new(|_| {}));

    let mut rng = Rng(seed.wrapping_mul(0x9E3779B97F4A7C15) | 1);
    let names = ["A", "B", "C", "D"];
    let mods_all = ["m0", "m1", "m0::sub", "m2"];
    let mut flips = 0;
    let mut msgvar = 0;
    let mut oks = 0;
    let mut digest: u64 = 1469598103934665603;
    for case in 0..cases {
        let nmods = 1 + rng.below(3);
        let mods = &mods_all[..nmods];
        let files: Vec<(String, String)> = (0..nmods)
            .map(|i| {
                (
                    format!("{}.pyxis", mods[i].replace("::", "/")),
                    gen_module(&mut rng, i, mods, &names),
                )
            })
            .collect();
        let in_dir = write_inputs(&root, &files);
        let mut outcomes = BTreeSet::new();
        for r in 0..reps {
            outcomes.insert(run_build(&root, &in_dir));
            let mut order = files.clone();
            // rotate / reverse
            order.rotate_left(r % nmods);
            if r % 2 == 1 {
                order.reverse();
            }
            outcomes.insert(run_api(&root, &in_dir, &order));
        }
        let n_ok = outcomes.iter().filter(|o| matches!(o, Outcome::Ok(_))).count();
        let n_err = outcomes.len() - n_ok;
        if n_ok > 0 {
            oks += 1;
        }
        for o in &outcomes {
            if let Outcome::Ok(m) = o {
                for b in format!("{m:?}").bytes() {
                    digest = (digest ^ b as u64).wrapping_mul(1099511628211);
                }
            }
        }
        if std::env::var("SHOW_NP").is_ok() && outcomes.iter().any(|o| matches!(o, Outcome::Err(e) if e.starts_with("NOPROGRESS"))) {
            for (rel, c) in &files {
                println!("--- {rel}\n{c}");
            }
            for o in &outcomes {
                if let Outcome::Err(e) = o {
                    println!("ERR: {e}");
                }
            }
        }
        if std::env::var("SHOW_ALL").is_ok() {
            for o in &outcomes {
                if let Outcome::Err(e) = o {
                    println!("ALLERR: {e}");
                }
            }
        }
        if n_ok > 1 || (n_ok > 0 && n_err > 0) {
            flips += 1;
            println!("=== FLIP case {case} (seed {seed}) ok-variants={n_ok} err-variants={n_err}");
            for (rel, c) in &files {
                println!("--- {rel}\n{c}");
            }
            for o in &outcomes {
                match o {
                    Outcome::Ok(m) => println!("OK: {:?}", m.keys().collect::<Vec<_>>()),
                    Outcome::Err(e) => println!("ERR: {e}"),
                }
            }
        } else if n_err > 1 {
            msgvar += 1;
            if std::env::var("SHOW_MSG").is_ok() {
                println!("=== MSGVAR case {case}");
                for (rel, c) in &files {
                    println!("--- {rel}\n{c}");
                }
                for o in &outcomes {
                    if let Outcome::Err(e) = o {
                        println!("ERR: {e}");
                    }
                }
            }
        }
    }
    println!("seed {seed}: cases {cases}, with-ok {oks}, flips {flips}, message-variants {msgvar}, ok-digest {digest:016x}");
    let _ = std::fs::remove_dir_all(&root);
}
