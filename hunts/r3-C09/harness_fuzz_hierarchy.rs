// Fuzz-ish determinism harness: random small module sets, each built many times (fresh
// HashMaps -> fresh seeds), via `pyxis::build` and via the API with permuted add order.
use std::collections::{BTreeMap, BTreeSet};
use std::path::{Path, PathBuf};

struct Rng(u64);
impl Rng {
    fn next(&mut self) -> u64 {
        self.0 ^= self.0 << 13;
        self.0 ^= self.0 >> 7;
        self.0 ^= self.0 << 17;
        self.0
    }
    fn below(&mut self, n: usize) -> usize {
        (self.next() % n as u64) as usize
    }
    fn chance(&mut self, num: usize, den: usize) -> bool {
        self.below(den) < num
    }
    fn pick<'a, T>(&mut self, v: &'a [T]) -> &'a T {
        &v[self.below(v.len())]
    }
}

fn collect(dir: &Path, base: &Path, out: &mut BTreeMap<String, String>) {
    let Ok(rd) = std::fs::read_dir(dir) else { return };
    for e in rd.flatten() {
        let p = e.path();
        if p.is_dir() {
            collect(&p, base, out);
        } else {
            out.insert(
                p.strip_prefix(base).unwrap().display().to_string(),
                String::from_utf8_lossy(&std::fs::read(&p).unwrap()).into_owned(),
            );
        }
    }
}

#[derive(Debug, Clone, PartialEq, Eq, PartialOrd, Ord)]
enum Outcome {
    Ok(BTreeMap<String, String>),
    Err(String),
}

fn write_inputs(root: &Path, files: &[(String, String)]) -> PathBuf {
    let in_dir = root.join("in");
    let _ = std::fs::remove_dir_all(&in_dir);
    for (rel, content) in files {
        let p = in_dir.join(rel);
        std::fs::create_dir_all(p.parent().unwrap()).unwrap();
        std::fs::write(p, content).unwrap();
    }
    in_dir
}

fn run_build(root: &Path, in_dir: &Path) -> Outcome {
    let out_dir = root.join("out");
    let _ = std::fs::remove_dir_all(&out_dir);
    std::fs::create_dir_all(&out_dir).unwrap();
    match pyxis::build(in_dir, &out_dir, 4) {
        Ok(()) => {
            let mut m = BTreeMap::new();
            collect(&out_dir, &out_dir, &mut m);
            Outcome::Ok(m)
        }
        Err(e) => Outcome::Err(norm(format!("{e:#}"))),
    }
}

fn norm(e: String) -> String {
    if let Some(rest) = e.strip_prefix("type resolution will not terminate, failed on types: [") {
        if let Some((failed, resolved)) = rest.split_once("] (resolved types: [") {
            let mut f: Vec<&str> = failed.split(", ").collect();
            f.sort();
            let mut r: Vec<&str> = resolved.trim_end_matches("])").split(", ").collect();
            r.sort();
            return format!("NOPROGRESS failed={f:?} resolved={r:?}");
        }
    }
    e
}

fn run_api(root: &Path, in_dir: &Path, order: &[(String, String)]) -> Outcome {
    let out_dir = root.join("out");
    let _ = std::fs::remove_dir_all(&out_dir);
    std::fs::create_dir_all(&out_dir).unwrap();
    let mut st = pyxis::semantic::SemanticState::new(4);
    for (rel, _) in order {
        if let Err(e) = st.add_file(in_dir, &in_dir.join(rel)) {
            return Outcome::Err(norm(format!("{e:#}")));
        }
    }
    let resolved = match st.build() {
        Ok(r) => r,
        Err(e) => return Outcome::Err(norm(format!("{e:#}"))),
    };
    for (k, m) in resolved.modules() {
        if let Err(e) = pyxis::backends::rust::write_module(&out_dir, k, &resolved, m) {
            return Outcome::Err(norm(format!("{e:#}")));
        }
    }
    let mut m = BTreeMap::new();
    collect(&out_dir, &out_dir, &mut m);
    Outcome::Ok(m)
}


struct Class {
    module: usize,
    name: String,
    bases: Vec<usize>,       // indices of earlier classes
    vfuncs: Vec<String>,     // full list (inherited prefix + own)
    has_vft_block: bool,
    fields: Vec<String>,
    impls: Vec<String>,
    attrs: Vec<String>,
}

fn gen_classes(rng: &mut Rng, nmods: usize) -> Vec<Class> {
    let n = 3 + rng.below(5);
    let mut classes: Vec<Class> = vec![];
    let blocks: Vec<bool> = (0..n).map(|_| rng.chance(3, 5)).collect();
    let vt = |rng: &mut Rng, t: usize, fallback: &str| -> String {
        if blocks[t] || rng.chance(1, 40) { format!("K{t}Vftable") } else { fallback.to_string() }
    };
    for i in 0..n {
        let module = rng.below(nmods);
        let name = format!("K{i}");
        let mut bases = vec![];
        if i > 0 {
            for _ in 0..rng.below(3) {
                let b = rng.below(i);
                if !bases.contains(&b) || rng.chance(1, 10) {
                    bases.push(b);
                }
            }
        }
        // inherited vfuncs from first base
        let mut vfuncs: Vec<String> = bases
            .first()
            .map(|b| classes[*b].vfuncs.clone())
            .unwrap_or_default();
        let inherited = vfuncs.len();
        let has_vft_block = blocks[i];
        if has_vft_block {
            for k in 0..rng.below(3) {
                let ptr_to = rng.below(i + 1);
                let arg = match rng.below(5) {
                    0 => format!(", a: *const K{ptr_to}"),
                    1 => format!(", a: *mut {}", vt(rng, ptr_to, "u32")),
                    2 => ", a: u32".to_string(),
                    _ => String::new(),
                };
                let ret = match rng.below(5) {
                    0 => format!(" -> *const {}", vt(rng, ptr_to, "u32")),
                    1 => " -> u32".to_string(),
                    _ => String::new(),
                };
                let vis = if rng.chance(3, 4) { "pub " } else { "" };
                let nm = if rng.chance(1, 12) { "shared".to_string() } else { format!("v{i}_{k}") };
                vfuncs.push(format!("{vis}fn {nm}(&self{arg}){ret}"));
            }
            // occasionally break compatibility
            if inherited > 0 && rng.chance(1, 25) {
                vfuncs.remove(0);
            }
        }
        let mut fields = vec![];
        for (bi, b) in bases.iter().enumerate() {
            fields.push(format!("#[base] pub base{bi}: K{b}"));
        }
        for k in 0..rng.below(3) {
            let t = rng.below(n);
            let ty = match rng.below(7) {
                0 => format!("*const K{t}"),
                1 => format!("*mut {}", vt(rng, t, "u32")),
                2 if t < i => format!("K{t}"),
                3 if t <= i => vt(rng, t, "u32"),
                4 => "unknown<4>".to_string(),
                5 => format!("[*const K{t}; 2]"),
                _ => "u32".to_string(),
            };
            fields.push(format!("pub m{k}: {ty}"));
        }
        // non-base fields may come before bases sometimes
        if rng.chance(1, 6) {
            fields.reverse();
        }
        let mut impls = vec![];
        for k in 0..rng.below(3) {
            let nm = if rng.chance(1, 10) { "shared".to_string() } else { format!("f{i}_{k}") };
            let t = rng.below(n);
            let arg = match rng.below(4) {
                0 => format!(", a: *const {}", vt(rng, t, "u32")),
                1 => format!(", a: *mut K{t}"),
                _ => String::new(),
            };
            let vis = if rng.chance(3, 4) { "pub " } else { "" };
            impls.push(format!("#[address(0x{:x})] {vis}fn {nm}(&self{arg})", 0x1000 + 16 * k));
        }
        let mut attrs = vec![];
        if rng.chance(1, 12) {
            attrs.push("copyable".to_string());
        }
        if rng.chance(1, 30) {
            attrs.push("defaultable".to_string());
        }
        if rng.chance(1, 20) {
            attrs.push(format!("singleton(0x{:x})", 0x2000 + i));
        }
        classes.push(Class { module, name, bases, vfuncs, has_vft_block, fields, impls, attrs });
    }
    classes
}

fn render(rng: &mut Rng, classes: &[Class], mods: &[&str]) -> Vec<(String, String)> {
    let mut files = vec![];
    for (mi, m) in mods.iter().enumerate() {
        let mut s = String::new();
        // imports: either whole modules or individual names
        let mut uses = vec![];
        for (oi, o) in mods.iter().enumerate() {
            if oi == mi {
                continue;
            }
            if rng.chance(2, 3) {
                uses.push(format!("use {o};"));
            } else {
                for c in classes.iter().filter(|c| c.module == oi) {
                    uses.push(format!("use {o}::{};", c.name));
                    if rng.chance(2, 3) {
                        uses.push(format!("use {o}::{}Vftable;", c.name));
                    }
                }
            }
        }
        for i in (1..uses.len()).rev() {
            uses.swap(i, rng.below(i + 1));
        }
        s += &uses.join("\n");
        s += "\n";
        let mut mine: Vec<&Class> = classes.iter().filter(|c| c.module == mi).collect();
        for i in (1..mine.len()).rev() {
            mine.swap(i, rng.below(i + 1));
        }
        for c in mine {
            if !c.attrs.is_empty() {
                s += &format!("#[{}]\n", c.attrs.join(", "));
            }
            s += &format!("pub type {} {{\n", c.name);
            let mut stmts = vec![];
            if c.has_vft_block {
                let mut v = String::from("    vftable {\n");
                for f in &c.vfuncs {
                    v += &format!("        {f};\n");
                }
                v += "    }";
                stmts.push(v);
            }
            for f in &c.fields {
                stmts.push(format!("    {f}"));
            }
            s += &stmts.join(",\n");
            s += "\n}\n";
            if !c.impls.is_empty() {
                if rng.chance(1, 3) && c.impls.len() > 1 {
                    for f in &c.impls {
                        s += &format!("impl {} {{ {f}; }}\n", c.name);
                    }
                } else {
                    s += &format!("impl {} {{\n", c.name);
                    for f in &c.impls {
                        s += &format!("    {f};\n");
                    }
                    s += "}\n";
                }
            }
        }
        if rng.chance(1, 3) && !classes.is_empty() {
            let c = rng.pick(classes);
            let suffix = if c.has_vft_block || rng.chance(1, 30) { "Vftable" } else { "" };
            s += &format!("#[address(0x100)] pub extern g{mi}: *const {}{suffix};\n", c.name);
        }
        files.push((format!("{}.pyxis", m.replace("::", "/")), s));
    }
    files
}

fn main() {
    let args: Vec<String> = std::env::args().collect();
    let seed: u64 = args.get(1).map(|s| s.parse().unwrap()).unwrap_or(1);
    let cases: usize = args.get(2).map(|s| s.parse().unwrap()).unwrap_or(200);
    let reps: usize = args.get(3).map(|s| s.parse().unwrap()).unwrap_or(12);
    let root = std::env::temp_dir().join(format!("rev3c09_fuzz2_{}", std::process::id()));
    std::fs::create_dir_all(&root).unwrap();
    // silence prettyplease panics
    std::panic::set_hook(Box::new(|_| {}));

    let mut rng = Rng(seed.wrapping_mul(0x9E3779B97F4A7C15) | 1);
    let mods_all = ["m0", "m1", "m0::sub", "m2"];
    let mut flips = 0;
    let mut msgvar = 0;
    let mut oks = 0;
    let mut digest: u64 = 1469598103934665603;
    for case in 0..cases {
        let nmods = 1 + rng.below(3);
        let mods = &mods_all[..nmods];
        let classes = gen_classes(&mut rng, nmods);
        let files = render(&mut rng, &classes, mods);
        let in_dir = write_inputs(&root, &files);
        let mut outcomes = BTreeSet::new();
        for r in 0..reps {
            outcomes.insert(run_build(&root, &in_dir));
            let mut order = files.clone();
            // rotate / reverse
            order.rotate_left(r % nmods);
            if r % 2 == 1 {
                order.reverse();
            }
            outcomes.insert(run_api(&root, &in_dir, &order));
        }
        let n_ok = outcomes.iter().filter(|o| matches!(o, Outcome::Ok(_))).count();
        let n_err = outcomes.len() - n_ok;
        if n_ok > 0 {
            oks += 1;
        }
        for o in &outcomes {
            if let Outcome::Ok(m) = o {
                for b in format!("{m:?}").bytes() {
                    digest = (digest ^ b as u64).wrapping_mul(1099511628211);
                }
            }
        }
        if std::env::var("SHOW_NP").is_ok() && outcomes.iter().any(|o| matches!(o, Outcome::Err(e) if e.starts_with("NOPROGRESS"))) {
            for (rel, c) in &files {
                println!("--- {rel}\n{c}");
            }
            for o in &outcomes {
                if let Outcome::Err(e) = o {
                    println!("ERR: {e}");
                }
            }
        }
        if std::env::var("SHOW_ALL").is_ok() {
            for o in &outcomes {
                if let Outcome::Err(e) = o {
                    println!("ALLERR: {e}");
                }
            }
        }
        if n_ok > 1 || (n_ok > 0 && n_err > 0) {
            flips += 1;
            println!("=== FLIP case {case} (seed {seed}) ok-variants={n_ok} err-variants={n_err}");
            for (rel, c) in &files {
                println!("--- {rel}\n{c}");
            }
            for o in &outcomes {
                match o {
                    Outcome::Ok(m) => println!("OK: {:?}", m.keys().collect::<Vec<_>>()),
                    Outcome::Err(e) => println!("ERR: {e}"),
                }
            }
        } else if n_err > 1 {
            msgvar += 1;
            if std::env::var("SHOW_MSG").is_ok() {
                println!("=== MSGVAR case {case}");
                for (rel, c) in &files {
                    println!("--- {rel}\n{c}");
                }
                for o in &outcomes {
                    if let Outcome::Err(e) = o {
                        println!("ERR: {e}");
                    }
                }
            }
        }
    }
    println!("seed {seed}: cases {cases}, with-ok {oks}, flips {flips}, message-variants {msgvar}, ok-digest {digest:016x}");
    let _ = std::fs::remove_dir_all(&root);
}
