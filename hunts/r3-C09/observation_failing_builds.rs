// Observation (not a C09 violation by the letter): what a FAILING build reports and leaves
// behind depends on hash order. Always exits 0; prints what it saw.
use std::collections::BTreeSet;

fn main() {
    std::panic::set_hook(Box::new(|_| {}));
    let root = std::env::temp_dir().join(format!("rev3c09_partial_{}", std::process::id()));
    let _ = std::fs::remove_dir_all(&root);
    let in_dir = root.join("in");
    std::fs::create_dir_all(&in_dir).unwrap();
    // `a` cannot be pretty-printed (its prologue is no Rust), the others are fine.
    std::fs::write(in_dir.join("a.pyxis"), "backend rust prologue \"fn (\";\npub type A { x: u32 }\n").unwrap();
    for m in ["b", "c", "d"] {
        std::fs::write(in_dir.join(format!("{m}.pyxis")), "pub type B { x: u32 }\n").unwrap();
    }
    // two modules with an extern value of an unknown type
    let in2 = root.join("in2");
    std::fs::create_dir_all(&in2).unwrap();
    std::fs::write(in2.join("p.pyxis"), "#[address(0x10)] pub extern gp: Nope;\n").unwrap();
    std::fs::write(in2.join("q.pyxis"), "#[address(0x10)] pub extern gq: Nope;\n").unwrap();

    let mut left_behind = BTreeSet::new();
    let mut messages = BTreeSet::new();
    for _ in 0..60 {
        let out = root.join("out");
        let _ = std::fs::remove_dir_all(&out);
        std::fs::create_dir_all(&out).unwrap();
        let r = pyxis::build(&in_dir, &out, 4);
        assert!(r.is_err());
        let mut names: Vec<String> = std::fs::read_dir(&out)
            .unwrap()
            .flatten()
            .map(|e| e.file_name().to_string_lossy().into_owned())
            .collect();
        names.sort();
        left_behind.insert(names);
        let r2 = pyxis::build(&in2, &out, 4);
        messages.insert(format!("{:#}", r2.unwrap_err()));
    }
    println!("files left behind by the failing build: {left_behind:?}");
    println!("messages of the failing build of in2: {messages:?}");
    let _ = std::fs::remove_dir_all(&root);
}
