//! C14 finding 4: `write_module` follows symbolic links that are already in the output
//! directory. If `out/m.rs` is a link to a file elsewhere, that file is overwritten with the
//! generated code; if `out/sub` is a link to a directory elsewhere, `sub/m.rs` is created in
//! that directory. Both builds are accepted.
//!
//! Property sentence violated: clause (a) "nothing else written or modified (also nothing
//! outside the output directory, whatever was in it before)".
//!
//! Exit code 0: the builds were rejected, or nothing outside the output directory changed.
//! Non-zero otherwise.
use std::path::PathBuf;

fn main() {
    let root: PathBuf =
        std::env::temp_dir().join(format!("pyxis-C14-finding-4-{}", std::process::id()));
    let _ = std::fs::remove_dir_all(&root);
    let mut ok = true;

    // Case 1: the output file exists already, as a link to a file outside of out_dir
    {
        let dir = root.join("file-link");
        let in_dir = dir.join("in");
        let out_dir = dir.join("out");
        let outside = dir.join("outside");
        std::fs::create_dir_all(&in_dir).unwrap();
        std::fs::create_dir_all(&out_dir).unwrap();
        std::fs::create_dir_all(&outside).unwrap();
        std::fs::write(in_dir.join("m.pyxis"), "type A { x: u32 }\n").unwrap();
        let victim = outside.join("notes.txt");
        std::fs::write(&victim, "precious\n").unwrap();
        std::os::unix::fs::symlink(&victim, out_dir.join("m.rs")).unwrap();

        let result = pyxis::build(&in_dir, &out_dir, 8);
        let after = std::fs::read_to_string(&victim).unwrap();
        println!("=== file link: build -> {:?}", result.as_ref().map_err(|e| format!("{e:#}")));
        if after != "precious\n" {
            println!(
                "    VIOLATION (a): {} (outside of the output directory) was overwritten; it now starts with {:?}",
                victim.display(),
                after.lines().next().unwrap_or_default()
            );
            ok = false;
        } else {
            println!("    the file outside of the output directory is untouched");
        }
    }

    // Case 2: a directory of the output tree exists already, as a link to a directory elsewhere
    {
        let dir = root.join("dir-link");
        let in_dir = dir.join("in");
        let out_dir = dir.join("out");
        let outside = dir.join("outside");
        std::fs::create_dir_all(in_dir.join("sub")).unwrap();
        std::fs::create_dir_all(&out_dir).unwrap();
        std::fs::create_dir_all(&outside).unwrap();
        std::fs::write(in_dir.join("sub/m.pyxis"), "type A { x: u32 }\n").unwrap();
        std::os::unix::fs::symlink(&outside, out_dir.join("sub")).unwrap();

        let result = pyxis::build(&in_dir, &out_dir, 8);
        let created: Vec<_> = std::fs::read_dir(&outside)
            .unwrap()
            .map(|e| e.unwrap().file_name())
            .collect();
        println!("=== directory link: build -> {:?}", result.as_ref().map_err(|e| format!("{e:#}")));
        if !created.is_empty() {
            println!(
                "    VIOLATION (a): files were created in {} (outside of the output directory): {created:?}",
                outside.display()
            );
            ok = false;
        } else {
            println!("    nothing was created outside of the output directory");
        }
    }

    let _ = std::fs::remove_dir_all(&root);
    std::process::exit(if ok { 0 } else { 1 });
}
