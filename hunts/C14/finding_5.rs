//! C14 finding 5 (arguable, see REPORT.md): prologues and epilogues are pasted as text around
//! the generated items before the whole file is parsed and pretty-printed. A prologue that
//! opens a block comment (`/*`) and an epilogue that closes it (`*/`) turn every generated
//! item of the module into a comment, which the pretty-printer then drops. The build is
//! accepted and the module's file contains none of the declared types, vftable structs or
//! accessors.
//!
//! Property sentence violated: "that file contains, exactly once each, every type and enum
//! the module declares, one vftable struct for every type that declares a vftable block and
//! one accessor for every extern value" (clause (b)).
//!
//! Exit code 0: the build was rejected, or all declared items are in the file. Non-zero
//! otherwise.
use std::path::PathBuf;

fn main() {
    let root: PathBuf =
        std::env::temp_dir().join(format!("pyxis-C14-finding-5-{}", std::process::id()));
    let _ = std::fs::remove_dir_all(&root);
    let in_dir = root.join("in");
    let out_dir = root.join("out");
    std::fs::create_dir_all(&in_dir).unwrap();
    std::fs::create_dir_all(&out_dir).unwrap();

    std::fs::write(
        in_dir.join("m.pyxis"),
        r#"
backend rust prologue "/*";
backend rust epilogue "*/";
type A { vftable { fn f(&self); } }
enum E: u32 { X = 1 }
#[address(0x10)] pub extern value: u32;
"#,
    )
    .unwrap();

    let code = match pyxis::build(&in_dir, &out_dir, 8) {
        Err(e) => {
            println!("build rejected the input (fine): {e:#}");
            0
        }
        Ok(()) => {
            let text = std::fs::read_to_string(out_dir.join("m.rs")).unwrap();
            println!("--- m.rs\n{text}---");
            let missing: Vec<&str> = ["struct A ", "struct AVftable ", "enum E ", "fn get_value("]
                .into_iter()
                .filter(|needle| !text.contains(needle))
                .collect();
            if missing.is_empty() {
                0
            } else {
                println!("VIOLATION (b): the build was accepted, but m.rs lacks {missing:?}");
                1
            }
        }
    };
    let _ = std::fs::remove_dir_all(&root);
    std::process::exit(code);
}
