//! C14 finding 2: `r#Name` and `Name` are the same Rust identifier (for anything that is not
//! a keyword), but every duplicate check compares the spelling. Two declarations that differ
//! only in the `r#` prefix are both accepted and both emitted, so the output file declares the
//! same Rust item twice: two `struct Foo`, two `fn get_foo`, or a user type plus a generated
//! `<T>Vftable` struct of the same name.
//!
//! Property sentences violated: "Two declarations that would produce the same item are an
//! error" (clause (d), including the listed collision "a user type named like a generated
//! vftable struct"), and "exactly once each" / "one accessor for every extern value"
//! (clause (b)): the item `Foo` / `get_foo` is in the file twice.
//!
//! Exit code 0: every case was rejected (or produced no duplicate item). Non-zero otherwise.
use std::path::{Path, PathBuf};

/// The names of the structs, enums and `get_*` functions a generated file declares at the top
/// level, with a leading `r#` removed (`r#Foo` and `Foo` name the same item in Rust).
fn declared_items(text: &str) -> Vec<String> {
    let mut items = vec![];
    for line in text.lines() {
        // top-level items are not indented in the pretty-printed output
        let line = line.strip_prefix("pub ").unwrap_or(line);
        let line = line.strip_prefix("unsafe ").unwrap_or(line);
        for (keyword, kind) in [("struct ", "struct"), ("enum ", "enum"), ("fn get_", "fn get_")] {
            if let Some(rest) = line.strip_prefix(keyword) {
                let name: String = rest
                    .chars()
                    .take_while(|c| c.is_alphanumeric() || *c == '_' || *c == '#')
                    .collect();
                let name = name.strip_prefix("r#").unwrap_or(&name).to_string();
                let kind = if kind == "fn get_" { "fn get_" } else { "type " };
                items.push(format!("{kind}{name}"));
            }
        }
    }
    items
}

fn case(root: &Path, name: &str, source: &str) -> bool {
    let dir = root.join(name);
    let in_dir = dir.join("in");
    let out_dir = dir.join("out");
    std::fs::create_dir_all(&in_dir).unwrap();
    std::fs::create_dir_all(&out_dir).unwrap();
    std::fs::write(in_dir.join("m.pyxis"), source).unwrap();

    println!("=== {name}");
    match pyxis::build(&in_dir, &out_dir, 8) {
        Err(e) => {
            println!("    rejected (fine): {e:#}");
            true
        }
        Ok(()) => {
            let text = std::fs::read_to_string(out_dir.join("m.rs")).unwrap();
            let items = declared_items(&text);
            println!("    accepted; m.rs declares: {items:?}");
            let mut duplicates: Vec<&String> = items
                .iter()
                .enumerate()
                .filter(|(i, item)| items[..*i].contains(item))
                .map(|(_, item)| item)
                .collect();
            duplicates.dedup();
            if duplicates.is_empty() {
                true
            } else {
                println!("    VIOLATION: accepted, and the same Rust item is declared more than once: {duplicates:?}");
                false
            }
        }
    }
}

fn main() {
    let root: PathBuf =
        std::env::temp_dir().join(format!("pyxis-C14-finding-2-{}", std::process::id()));
    let _ = std::fs::remove_dir_all(&root);

    let mut ok = true;
    ok &= case(
        &root,
        "two-types",
        "type Foo { x: u32 }\ntype r#Foo { y: u64 }\n",
    );
    ok &= case(
        &root,
        "enum-and-type",
        "enum Bar: u32 { A = 0 }\ntype r#Bar { y: u64 }\n",
    );
    ok &= case(
        &root,
        "two-extern-values",
        "#[address(0x10)] pub extern foo: u32;\n#[address(0x20)] pub extern r#foo: u64;\n",
    );
    ok &= case(
        &root,
        "user-type-vs-generated-vftable-of-raw-type",
        "type r#Baz { vftable { fn a(&self); } }\ntype BazVftable { y: u64 }\n",
    );
    ok &= case(
        &root,
        "raw-user-type-vs-generated-vftable",
        "type Qux { vftable { fn a(&self); } }\ntype r#QuxVftable { y: u64 }\n",
    );

    let _ = std::fs::remove_dir_all(&root);
    std::process::exit(if ok { 0 } else { 1 });
}
