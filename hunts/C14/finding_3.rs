//! C14 finding 3: two different input files can be mapped onto the same module path. The
//! second one then silently replaces the first (`SemanticState::add_module` does a plain
//! `modules.insert`): the build is accepted, only ONE output file is written for the TWO input
//! modules, the types declared by the replaced module are emitted nowhere, and the one file
//! that is written is not at the mirrored path of (at least one of) its inputs.
//!
//! Ways to get there on Linux with `pyxis::build`:
//!  * `..pyxis` and `...pyxis` in one directory: `Path::with_extension("")` turns both into
//!    `..`, so both are the module `..`, written to `...rs`;
//!  * two file names that are not valid UTF-8 and differ only in the invalid bytes:
//!    `to_string_lossy` turns both into the same name with U+FFFD.
//! Each of those names alone already ends up at a path that is not the mirrored one
//! (`..pyxis` -> `...rs` instead of `..rs`; `m\xFF.pyxis` -> `m\u{FFFD}.rs`).
//!
//! Property sentences violated: "An accepted build writes exactly one output file per input
//! module, at the same relative path with the .rs extension" (clause (a)); "that file
//! contains, exactly once each, every type and enum the module declares" (clause (b)); "never
//! a silent overwrite" (clause (d)).
//!
//! Exit code 0: every case was rejected, or wrote exactly the mirrored files with all declared
//! types. Non-zero otherwise.
use std::ffi::{OsStr, OsString};
use std::os::unix::ffi::{OsStrExt, OsStringExt};
use std::path::{Path, PathBuf};

fn files_below(dir: &Path) -> Vec<PathBuf> {
    fn walk(base: &Path, dir: &Path, out: &mut Vec<PathBuf>) {
        for entry in std::fs::read_dir(dir).unwrap() {
            let path = entry.unwrap().path();
            if std::fs::symlink_metadata(&path).unwrap().is_dir() {
                walk(base, &path, out);
            } else {
                out.push(path.strip_prefix(base).unwrap().to_path_buf());
            }
        }
    }
    let mut out = vec![];
    walk(dir, dir, &mut out);
    out.sort();
    out
}

/// `x/y.pyxis` -> `x/y.rs`, bytewise (no `Path` cleverness)
fn mirrored(relative_input: &Path) -> PathBuf {
    let bytes = relative_input.as_os_str().as_bytes();
    let stem = bytes.strip_suffix(b".pyxis").unwrap();
    let mut out = stem.to_vec();
    out.extend_from_slice(b".rs");
    PathBuf::from(OsString::from_vec(out))
}

/// `inputs`: (file name relative to the input directory, the one type it declares)
fn case(root: &Path, name: &str, inputs: &[(&OsStr, &str)]) -> bool {
    let dir = root.join(name);
    let in_dir = dir.join("in");
    let out_dir = dir.join("out");
    std::fs::create_dir_all(&in_dir).unwrap();
    std::fs::create_dir_all(&out_dir).unwrap();
    for (file, type_name) in inputs {
        let path = in_dir.join(file);
        std::fs::create_dir_all(path.parent().unwrap()).unwrap();
        std::fs::write(path, format!("type {type_name} {{ x: u32 }}\n")).unwrap();
    }

    println!("=== {name}: inputs {:?}", inputs.iter().map(|i| i.0).collect::<Vec<_>>());
    match pyxis::build(&in_dir, &out_dir, 8) {
        Err(e) => {
            println!("    rejected (fine): {e:#}");
            true
        }
        Ok(()) => {
            let written = files_below(&out_dir);
            let mut expected: Vec<PathBuf> =
                inputs.iter().map(|(f, _)| mirrored(Path::new(f))).collect();
            expected.sort();
            println!("    accepted; expected files {expected:?}");
            println!("              written  files {written:?}");
            let mut ok = true;
            if written != expected {
                println!("    VIOLATION (a): the written files are not one mirrored file per input module");
                ok = false;
            }
            let everything: String = written
                .iter()
                .map(|f| std::fs::read_to_string(out_dir.join(f)).unwrap_or_default())
                .collect();
            for (file, type_name) in inputs {
                let occurrences = everything.matches(&format!("struct {type_name} ")).count();
                if occurrences != 1 {
                    println!(
                        "    VIOLATION (b): type `{type_name}` declared in {file:?} is emitted {occurrences} times in the whole output directory"
                    );
                    ok = false;
                }
            }
            ok
        }
    }
}

fn main() {
    let root: PathBuf =
        std::env::temp_dir().join(format!("pyxis-C14-finding-3-{}", std::process::id()));
    let _ = std::fs::remove_dir_all(&root);

    let mut ok = true;
    ok &= case(
        &root,
        "dots-pair",
        &[(OsStr::new("..pyxis"), "First"), (OsStr::new("...pyxis"), "Second")],
    );
    ok &= case(
        &root,
        "dots-pair-nested",
        &[(OsStr::new("sub/..pyxis"), "First"), (OsStr::new("sub/...pyxis"), "Second")],
    );
    ok &= case(
        &root,
        "non-utf8-pair",
        &[
            (OsStr::from_bytes(b"m\xfe.pyxis"), "First"),
            (OsStr::from_bytes(b"m\xff.pyxis"), "Second"),
        ],
    );
    // The same names on their own: nothing is lost, but the file is not at the mirrored path.
    ok &= case(&root, "dots-single", &[(OsStr::new("..pyxis"), "First")]);
    ok &= case(&root, "non-utf8-single", &[(OsStr::from_bytes(b"m\xff.pyxis"), "First")]);

    let _ = std::fs::remove_dir_all(&root);
    std::process::exit(if ok { 0 } else { 1 });
}
