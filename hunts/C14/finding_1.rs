//! C14 finding 1: a `backend rust { ... }` block that contains more than one `prologue`
//! (or `epilogue`) entry is accepted, but only the LAST entry of each kind survives;
//! the earlier ones are silently dropped from the output.
//!
//! Property sentence violated: "The module's rust prologues come first and its epilogues
//! last, each complete and in source order" (clause (c)).
//!
//! Exit code 0: the build was rejected, or every prologue/epilogue is in the output in source
//! order. Non-zero: the violation shows.
use std::path::PathBuf;

fn main() {
    let root: PathBuf =
        std::env::temp_dir().join(format!("pyxis-C14-finding-1-{}", std::process::id()));
    let _ = std::fs::remove_dir_all(&root);
    let in_dir = root.join("in");
    let out_dir = root.join("out");
    std::fs::create_dir_all(&in_dir).unwrap();
    std::fs::create_dir_all(&out_dir).unwrap();

    std::fs::write(
        in_dir.join("m.pyxis"),
        r#"
backend rust {
    prologue "use std::fmt::Debug;";
    prologue "use std::fmt::Display;";
    epilogue "const E1: u32 = 1;";
    epilogue "const E2: u32 = 2;";
}
type A { x: u32 }
"#,
    )
    .unwrap();

    let result = pyxis::build(&in_dir, &out_dir, 8);
    let code = match result {
        Err(e) => {
            println!("build rejected the input (fine): {e:#}");
            0
        }
        Ok(()) => {
            let text = std::fs::read_to_string(out_dir.join("m.rs")).unwrap();
            println!("{text}");
            let pos = |needle: &str| text.find(needle);
            let p1 = pos("use std::fmt::Debug;");
            let p2 = pos("use std::fmt::Display;");
            let s = pos("struct A");
            let e1 = pos("const E1: u32 = 1;");
            let e2 = pos("const E2: u32 = 2;");
            println!("positions: prologue1={p1:?} prologue2={p2:?} struct={s:?} epilogue1={e1:?} epilogue2={e2:?}");
            let ok = matches!((p1, p2, s, e1, e2), (Some(a), Some(b), Some(c), Some(d), Some(e)) if a < b && b < c && c < d && d < e);
            if ok {
                println!("all prologues and epilogues present, in order");
                0
            } else {
                println!("VIOLATION: the build was accepted, but a prologue/epilogue of the module is missing from m.rs");
                1
            }
        }
    };
    let _ = std::fs::remove_dir_all(&root);
    std::process::exit(code);
}
