//! C10 (d)/(a): a module declares a type whose name is also the name of a predefined type
//! (`u32`) and uses that name in a field. pyxis binds the field to the predefined type (root
//! first, own module second), but emits the bare name `u32` into a Rust module that contains
//! `struct u32`, where it means the declared struct: the accepted build does not contain the
//! field "with the declared type" (whichever of the two one calls the declared one), and the
//! same spelling means `m::u32` in a module that imports it with `use m::u32;`.
use std::path::PathBuf;

fn main() {
    let root: PathBuf = std::env::temp_dir().join(format!("pyxis_c10_f1_{}", std::process::id()));
    let _ = std::fs::remove_dir_all(&root);
    let (in_dir, out_dir) = (root.join("in"), root.join("out"));
    std::fs::create_dir_all(&in_dir).unwrap();
    std::fs::create_dir_all(&out_dir).unwrap();
    std::fs::write(
        in_dir.join("m.pyxis"),
        "pub type u32 { pub a: u64 }\npub type T { pub x: u32 }\n",
    )
    .unwrap();
    std::fs::write(
        in_dir.join("n.pyxis"),
        "use m::u32;\npub type U { pub x: u32 }\n",
    )
    .unwrap();

    if let Err(e) = pyxis::build(&in_dir, &out_dir, 8) {
        // Refusing the name outright would at least not be a silent mismatch.
        println!("build refused the input: {e:#}");
        let _ = std::fs::remove_dir_all(&root);
        return;
    }

    // What pyxis thinks `T.x` is.
    let mut state = pyxis::semantic::SemanticState::new(8);
    state.add_file(&in_dir, &in_dir.join("m.pyxis")).unwrap();
    state.add_file(&in_dir, &in_dir.join("n.pyxis")).unwrap();
    let resolved = state.build().unwrap();
    let registry = resolved.type_registry();
    let field_type = |path: &str| {
        let item = registry.get(&pyxis::grammar::ItemPath::from(path)).unwrap();
        let r = item.resolved().unwrap();
        (r.size, r.inner.as_type().unwrap().regions[0].type_ref.to_string())
    };
    let (t_size, t_x) = field_type("m::T");
    let (u_size, u_x) = field_type("n::U");
    println!("pyxis: m::T.x = `{t_x}` (size of T: {t_size}); n::U.x = `{u_x}` (size of U: {u_size})");

    // What the emitted Rust says.
    let m_rs = std::fs::read_to_string(out_dir.join("m.rs")).unwrap();
    let declares_local = m_rs.contains("struct u32");
    let bare_reference = m_rs.contains("pub x: u32,");
    println!("m.rs declares `struct u32`: {declares_local}; T.x is written as bare `u32`: {bare_reference}");
    let _ = std::fs::remove_dir_all(&root);

    // In m.rs the bare `u32` *is* `crate::m::u32` (8 bytes). pyxis laid T out with 4.
    if declares_local && bare_reference && t_x == "u32" && t_size == 4 {
        eprintln!(
            "VIOLATION: the field `x: u32` of m::T is the predefined u32 for pyxis (T is 4 bytes) \
             but the struct m::u32 (8 bytes) in the generated Rust; in module n the same spelling is `{u_x}`"
        );
        std::process::exit(1);
    }
}
