//! C10 (a): a valid program is rejected. A vftable function with `&self` and 31 pointer
//! parameters is refused ("nested more than 32 levels deep") although nothing in it is nested
//! more than one level: the backend's nesting estimate counts every `*` of a function type and
//! never un-counts it. The very same signature in an `impl` block is accepted.
use std::path::PathBuf;

fn build(text: &str, tag: &str) -> anyhow::Result<()> {
    let root: PathBuf =
        std::env::temp_dir().join(format!("pyxis_c10_f2_{}_{tag}", std::process::id()));
    let _ = std::fs::remove_dir_all(&root);
    let (in_dir, out_dir) = (root.join("in"), root.join("out"));
    std::fs::create_dir_all(&in_dir).unwrap();
    std::fs::create_dir_all(&out_dir).unwrap();
    std::fs::write(in_dir.join("m.pyxis"), text).unwrap();
    let result = pyxis::build(&in_dir, &out_dir, 8);
    let _ = std::fs::remove_dir_all(&root);
    result
}

fn main() {
    let params = (0..31)
        .map(|i| format!("p{i}: *const u8"))
        .collect::<Vec<_>>()
        .join(", ");
    let as_impl = format!("type A {{ x: u64 }}\nimpl A {{ #[address(0x10)] fn f(&self, {params}); }}\n");
    let as_vfunc = format!("type A {{ vftable {{ fn f(&self, {params}); }} }}\n");

    let impl_result = build(&as_impl, "impl");
    println!("as impl function:    {:?}", impl_result.as_ref().map_err(|e| format!("{e:#}")));
    let vfunc_result = build(&as_vfunc, "vfunc");
    println!(
        "as vftable function: {:?}",
        vfunc_result.as_ref().map_err(|e| format!("{e:#}").chars().take(60).collect::<String>() + " ...")
    );
    if let Err(e) = vfunc_result {
        let message = format!("{e:#}");
        eprintln!(
            "VIOLATION: valid program rejected: ...{}",
            &message[message.len().saturating_sub(60)..]
        );
        std::process::exit(1);
    }
}
