//! C10 (a) "definitions may appear ... in any module", borderline: the same valid definition
//! is accepted in `a/node.pyxis` and rejected in `a/mod.pyxis` (or `type.pyxis`, `match.pyxis`,
//! ...): the module name is written into the generated paths as it is (`crate::a::mod::Node`),
//! which is not a Rust path. The error names neither the file nor the module.
use std::path::PathBuf;

fn build(file: &str) -> anyhow::Result<()> {
    let root: PathBuf = std::env::temp_dir().join(format!("pyxis_c10_f6_{}", std::process::id()));
    let _ = std::fs::remove_dir_all(&root);
    let (in_dir, out_dir) = (root.join("in"), root.join("out"));
    std::fs::create_dir_all(in_dir.join("a")).unwrap();
    std::fs::create_dir_all(&out_dir).unwrap();
    std::fs::write(in_dir.join("a").join(file), "type Node { next: *mut Node }\n").unwrap();
    let result = pyxis::build(&in_dir, &out_dir, 8);
    let _ = std::fs::remove_dir_all(&root);
    result
}

fn main() {
    build("node.pyxis").expect("control case");
    println!("a/node.pyxis: accepted");
    if let Err(e) = build("mod.pyxis") {
        eprintln!("VIOLATION: a/mod.pyxis rejected: {e:#}");
        std::process::exit(1);
    }
    println!("a/mod.pyxis: accepted");
}
