//! C10 "A build never succeeds with a type left out or a reference dropped", for a sequence of
//! public API calls: `add_module` is not atomic. When it fails half-way (here: on a duplicate
//! declaration) the module, the declarations before the failing one and the reservations of
//! vftable names stay in the state. A caller that reports the error and carries on (or simply
//! builds what it has) gets `build()` == Ok with
//!   (1) the module `m` present but its type `Q` left out, and
//!   (2) a reference to `m::FooVftable`, a type that does not exist anywhere, accepted.
//! Caveat: it takes a caller that continues after an `Err` from `add_module`.
use pyxis::{grammar::ItemPath, parser::parse_str, semantic::SemanticState};

fn main() {
    let mut violations = 0;

    // (1) a type left out
    {
        let mut state = SemanticState::new(8);
        let m = parse_str(
            "type P { x: u64 } type Dup { x: u64 } type Dup { x: u64 } type Q { p: P }",
        )
        .unwrap();
        let error = state.add_module(&m, &ItemPath::from("m")).unwrap_err();
        println!("(1) add_module(m) failed: {error:#}");
        let n = parse_str("use m::P; type R { p: P }").unwrap();
        state.add_module(&n, &ItemPath::from("n")).unwrap();
        match state.build() {
            Err(e) => println!("(1) build failed: {e:#}"),
            Ok(resolved) => {
                let module = resolved.modules().get(&ItemPath::from("m"));
                let mut names: Vec<String> = module
                    .map(|m| m.definition_paths().iter().map(|p| p.to_string()).collect())
                    .unwrap_or_default();
                names.sort();
                println!("(1) build succeeded; module m is present: {}; it contains {names:?}", module.is_some());
                if module.is_some() && !names.contains(&"m::Q".to_string()) {
                    eprintln!("VIOLATION (1): the build succeeded with module m emitted without its type Q");
                    violations += 1;
                }
            }
        }
    }

    // (2) an undefined name accepted: the reservation of `m::FooVftable` outlives the failure
    {
        let mut state = SemanticState::new(8);
        let m = parse_str("type Foo { x: u64 } type Foo { vftable { fn f(&self); } }").unwrap();
        let error = state.add_module(&m, &ItemPath::from("m")).unwrap_err();
        println!("(2) add_module(m) failed: {error:#}");
        let n = parse_str("use m::FooVftable; type X { p: *const FooVftable }").unwrap();
        state.add_module(&n, &ItemPath::from("n")).unwrap();
        match state.build() {
            Err(e) => println!("(2) build failed: {e:#}"),
            Ok(resolved) => {
                let exists = resolved
                    .type_registry()
                    .get(&ItemPath::from("m::FooVftable"))
                    .is_some();
                let x = resolved.type_registry().get(&ItemPath::from("n::X")).unwrap();
                let field = &x.resolved().unwrap().inner.as_type().unwrap().regions[0];
                println!("(2) build succeeded; n::X.p is `{}`; m::FooVftable exists: {exists}", field.type_ref);
                if !exists {
                    eprintln!("VIOLATION (2): the build succeeded with a field of type `{}`, which is not defined", field.type_ref);
                    violations += 1;
                }
            }
        }
    }

    if violations > 0 {
        std::process::exit(1);
    }
}
