//! C10 (a): a valid program is rejected. The bracket-nesting limit of `parse_str` counts the
//! characters `(`, `[`, `{` of the raw text, comments and string literals included, and an
//! opening bracket that is never closed stays counted for the rest of the file. 257 comments
//! (or doc strings) with an unmatched `(` anywhere in a module make every declaration after
//! them fail with "brackets are nested more than 256 levels deep", although no bracket in the
//! program is nested more than one level.
use std::path::PathBuf;

fn build(comment: &str) -> anyhow::Result<()> {
    let root: PathBuf = std::env::temp_dir().join(format!("pyxis_c10_f7_{}", std::process::id()));
    let _ = std::fs::remove_dir_all(&root);
    let (in_dir, out_dir) = (root.join("in"), root.join("out"));
    std::fs::create_dir_all(&in_dir).unwrap();
    std::fs::create_dir_all(&out_dir).unwrap();
    let mut text = String::from("type Other { x: u64 }\ntype A {\n");
    for i in 0..260 {
        text += &format!("    // offset {i}: {comment}\n    f{i}: u64,\n");
    }
    text += "    last: *mut Other,\n}\n";
    std::fs::write(in_dir.join("m.pyxis"), text).unwrap();
    let result = pyxis::build(&in_dir, &out_dir, 8);
    let _ = std::fs::remove_dir_all(&root);
    result
}

fn main() {
    build("(unverified)").expect("control case");
    println!("comments with balanced brackets: accepted");
    if let Err(e) = build("(unverified") {
        eprintln!("VIOLATION: comments with an unmatched `(`: rejected: {e:#}");
        std::process::exit(1);
    }
    println!("comments with an unmatched `(`: accepted");
}
