//! C10 "a reference dropped": a `#[base]` field without a name (`_`). As the first base it is
//! an error ("a base field of type `m::D` has no name"). As the second base the build succeeds
//! and the base relation is silently dropped: the field becomes a private plain field
//! `_field_8`, the public function of the base is not forwarded and no AsRef/AsMut is generated.
use std::path::PathBuf;

fn build(text: &str, tag: &str) -> Result<String, String> {
    let root: PathBuf =
        std::env::temp_dir().join(format!("pyxis_c10_f5_{}_{tag}", std::process::id()));
    let _ = std::fs::remove_dir_all(&root);
    let (in_dir, out_dir) = (root.join("in"), root.join("out"));
    std::fs::create_dir_all(&in_dir).unwrap();
    std::fs::create_dir_all(&out_dir).unwrap();
    std::fs::write(in_dir.join("m.pyxis"), text).unwrap();
    let result = pyxis::build(&in_dir, &out_dir, 8)
        .map(|_| std::fs::read_to_string(out_dir.join("m.rs")).unwrap())
        .map_err(|e| format!("{e:#}"));
    let _ = std::fs::remove_dir_all(&root);
    result
}

fn main() {
    let bases = "#[packed] type B1 { x: u64 }\n\
                 #[packed] type B2 { y: u64 }\n\
                 impl B2 { #[address(0x10)] pub fn g(&self); }\n";
    let first = build(&format!("{bases}#[packed] type D {{ #[base] _: B2, #[base] a: B1 }}\n"), "first");
    println!("unnamed FIRST base:  {:?}", first.as_ref().map(|_| "accepted"));
    let named = build(&format!("{bases}#[packed] type D {{ #[base] a: B1, #[base] b: B2 }}\n"), "named").unwrap();
    assert!(named.contains("AsRef<crate::m::B2> for D") && named.contains("fn g("), "control case");
    let second = build(&format!("{bases}#[packed] type D {{ #[base] a: B1, #[base] _: B2 }}\n"), "second");
    println!("unnamed SECOND base: {:?}", second.as_ref().map(|_| "accepted"));
    if let Ok(output) = second {
        let d = &output[output.find("struct D").unwrap()..];
        let as_ref = d.contains("AsRef<crate::m::B2> for D");
        let forwarded = d.contains("fn g(");
        println!("  D has AsRef<B2>: {as_ref}; D forwards B2::g: {forwarded}");
        if !as_ref || !forwarded {
            eprintln!("VIOLATION: accepted, but the declared base B2 of D is no longer a base in the output");
            std::process::exit(1);
        }
    }
}
