//! C10 (c): the list of failed types is not exactly the unresolvable ones. `A` has a vftable
//! block and a field of an undefined type. `B` embeds `AVftable` by value: that name counts as
//! defined (A has a vftable block), the vftable type holds nothing but function pointers and
//! does not depend on A's fields. Still `B` is reported as failed, because the vftable type is
//! only generated once all of A's field names are bound. When the undefined name sits in a
//! function parameter of A instead, AVftable and B *are* resolved and only A is listed.
use std::path::PathBuf;

fn failed_types(text: &str, tag: &str) -> Option<Vec<String>> {
    let root: PathBuf =
        std::env::temp_dir().join(format!("pyxis_c10_f3_{}_{tag}", std::process::id()));
    let _ = std::fs::remove_dir_all(&root);
    let (in_dir, out_dir) = (root.join("in"), root.join("out"));
    std::fs::create_dir_all(&in_dir).unwrap();
    std::fs::create_dir_all(&out_dir).unwrap();
    std::fs::write(in_dir.join("m.pyxis"), text).unwrap();
    let result = pyxis::build(&in_dir, &out_dir, 8);
    let _ = std::fs::remove_dir_all(&root);
    let message = format!("{:#}", result.err()?);
    println!("{tag}: {message}");
    let list = message.split("failed on types: [").nth(1)?.split(']').next()?;
    let mut names: Vec<String> = list
        .split(',')
        .map(|s| s.trim().trim_matches('"').to_string())
        .filter(|s| !s.is_empty())
        .collect();
    names.sort();
    Some(names)
}

fn main() {
    let in_field = "type A { vftable { fn f(&self); }, x: Missing }\n\
                    type B { v: AVftable }\n\
                    type C { p: *const AVftable }\n";
    let in_parameter = "type A { vftable { fn f(&self); }, x: u64 }\n\
                        impl A { #[address(0x10)] fn g(&self, m: *const Missing); }\n\
                        type B { v: AVftable }\n\
                        type C { p: *const AVftable }\n";
    let parameter = failed_types(in_parameter, "undefined name in a parameter of A");
    let field = failed_types(in_field, "undefined name in a field of A");
    assert_eq!(parameter, Some(vec!["m::A".to_string()]), "control case");
    match field {
        None => {
            eprintln!("VIOLATION: an undefined field type was accepted");
            std::process::exit(2);
        }
        Some(names) if names != ["m::A"] => {
            eprintln!("VIOLATION: failed types are {names:?}, but only m::A is unresolvable (m::B only needs AVftable)");
            std::process::exit(1);
        }
        Some(_) => {}
    }
}
