// Randomised C14 check: generates multi-module inputs with name collisions, builds them and
// compares the output directory with what C14 promises.
use std::collections::{BTreeMap, BTreeSet};
use std::path::{Path, PathBuf};

struct Rng(u64);
impl Rng {
    fn next(&mut self) -> u64 {
        self.0 ^= self.0 << 13;
        self.0 ^= self.0 >> 7;
        self.0 ^= self.0 << 17;
        self.0
    }
    fn below(&mut self, n: usize) -> usize {
        (self.next() % n as u64) as usize
    }
    fn chance(&mut self, num: usize, den: usize) -> bool {
        self.below(den) < num
    }
    fn pick<'a, T>(&mut self, xs: &'a [T]) -> &'a T {
        &xs[self.below(xs.len())]
    }
}

const KEYWORDS: &[&str] = &["type", "fn", "match", "impl", "enum", "struct", "mod"];

fn norm(name: &str) -> String {
    match name.strip_prefix("r#") {
        Some(plain) if !KEYWORDS.contains(&plain) => plain.to_string(),
        _ => name.to_string(),
    }
}
fn unraw(name: &str) -> &str {
    name.strip_prefix("r#").unwrap_or(name)
}

#[derive(Debug, Clone)]
enum Decl {
    Type { name: String, vftable: Option<Vec<String>>, fields: Vec<(String, String)>, has_impl: bool },
    Enum { name: String },
    ExternType { name: String },
}
impl Decl {
    fn name(&self) -> &str {
        match self {
            Decl::Type { name, .. } | Decl::Enum { name } | Decl::ExternType { name } => name,
        }
    }
}

#[derive(Debug, Clone, Default)]
struct Module {
    rel: PathBuf, // without extension
    decls: Vec<Decl>,
    extern_values: Vec<String>,
    prologues: Vec<String>,
    epilogues: Vec<String>,
    other_backend: Vec<String>,
    text: String,
}

fn gen_module(rng: &mut Rng, rel: PathBuf, id: usize, earlier: &[(String, Vec<String>)]) -> Module {
    let type_names = [
        "Foo", "Bar", "FooVftable", "BarVftable", "r#type", "typeVftable", "r#Foo", "Baz",
        "r#fn", "fnVftable", "r#BarVftable", "FooVftableVftable", "Qux", "Quux", "Corge", "Grault",
    ];
    let ev_names = ["x", "r#x", "y", "r#type", "type_", "z", "w"];
    let mut m = Module { rel, ..Default::default() };
    let n_decls = rng.below(6);
    let mut uses: Vec<String> = vec![];
    let mut imported: Vec<String> = vec![];
    // effective vftable length per declared type index (None: no vftable)
    let mut eff: Vec<Option<usize>> = vec![];
    let pool_size = if rng.chance(1, 2) { type_names.len() } else { 12 };
    for _ in 0..n_decls {
        let name = type_names[rng.below(pool_size)].to_string();
        match rng.below(6) {
            0 => { m.decls.push(Decl::Enum { name }); eff.push(None) }
            1 => { m.decls.push(Decl::ExternType { name }); eff.push(None) }
            _ => {
                let vftable = rng.chance(1, 2).then(|| {
                    (0..rng.below(4)).map(|i| format!("vf{i}")).collect::<Vec<_>>()
                });
                let mut fields = vec![];
                let mut my_eff = vftable.as_ref().map(|v| v.len());
                // bases: earlier types of this module whose name is unique so far
                let mut first = true;
                for b in 0..rng.below(3) {
                    if m.decls.is_empty() { break; }
                    let idx = rng.below(m.decls.len());
                    let Decl::Type { name: bname, .. } = &m.decls[idx] else { continue };
                    let bn = norm(bname);
                    if m.decls.iter().filter(|d| norm(d.name()) == bn).count() != 1 || norm(&name) == bn { continue; }
                    if first {
                        match (vftable.as_ref().map(|v| v.len()), eff[idx]) {
                            (Some(mine), Some(base)) if mine < base => continue,
                            (None, Some(base)) => my_eff = Some(base),
                            _ => {}
                        }
                    }
                    first = false;
                    fields.push((format!("#[base] pub b{b}"), bname.clone()));
                }
                if let (Some(_), true) = (&vftable, rng.chance(1, 4)) {
                    fields.push(("pub own_vft".to_string(), format!("{}Vftable", unraw(&norm(&name)))));
                }
                eff.push(my_eff);
                for i in 0..rng.below(3) {
                    // pointers to anything declared so far in this module (by name), or u64
                    let ty = if !m.decls.is_empty() && rng.chance(1, 2) {
                        let d = rng.pick(&m.decls).clone();
                        let target = if let (Decl::Type { vftable: Some(_), name, .. }, true) =
                            (&d, rng.chance(1, 2))
                        {
                            format!("{}Vftable", unraw(name))
                        } else {
                            d.name().to_string()
                        };
                        format!("*mut {target}")
                    } else {
                        "u64".to_string()
                    };
                    fields.push((format!("pub f{i}"), ty));
                }
                m.decls.push(Decl::Type { name, vftable, fields, has_impl: rng.chance(1, 3) });
            }
        }
    }
    for _ in 0..rng.below(3) {
        m.extern_values.push(ev_names[rng.below(ev_names.len())].to_string());
    }

    // imports of names that do not collide with anything local
    let mut local: BTreeSet<String> = BTreeSet::new();
    for d in &m.decls {
        local.insert(norm(d.name()));
        if let Decl::Type { name, vftable: Some(_), .. } = d {
            local.insert(format!("{}Vftable", unraw(&norm(name))));
        }
    }
    for k in 0..rng.below(3) {
        if earlier.is_empty() { break; }
        let (mp, names) = rng.pick(earlier);
        if names.is_empty() { continue; }
        let n = rng.pick(names).clone();
        if local.contains(&norm(&n)) || imported.contains(&norm(&n)) { continue; }
        let targets: Vec<usize> = m.decls.iter().enumerate().filter(|(_, d)| matches!(d, Decl::Type { .. })).map(|(i, _)| i).collect();
        if targets.is_empty() { break; }
        let ti = *rng.pick(&targets);
        if let Decl::Type { fields, .. } = &mut m.decls[ti] {
            fields.push((format!("pub imp{k}"), format!("*const {n}")));
        }
        uses.push(format!("use {mp}::{n};\n"));
        imported.push(norm(&n));
    }
    // text
    let mut t = String::new();
    if rng.chance(1, 3) {
        t += &format!("#![doc = \"module {id}\"]\n");
    }
    let mut parts: Vec<String> = vec![];
    let mut pi = 0;
    let mut ei = 0;
    for _ in 0..rng.below(4) {
        match rng.below(4) {
            0 => {
                let p = format!("const M{id}_P{pi}: u32 = {pi};");
                pi += 1;
                parts.push(format!("backend rust prologue \"{p}\";\n"));
                m.prologues.push(p);
            }
            1 => {
                let e = format!("const M{id}_E{ei}: u32 = {ei};");
                ei += 1;
                parts.push(format!("backend rust epilogue r#\"{e}\"#;\n"));
                m.epilogues.push(e);
            }
            2 => {
                let mut block = String::from("backend rust {\n");
                for _ in 0..rng.below(4) {
                    if rng.chance(1, 2) {
                        let p = format!("const M{id}_P{pi}: u32 = {pi};");
                        pi += 1;
                        block += &format!("  prologue \"{p}\";\n");
                        m.prologues.push(p);
                    } else {
                        let e = format!("const M{id}_E{ei}: u32 = {ei};");
                        ei += 1;
                        block += &format!("  epilogue \"{e}\";\n");
                        m.epilogues.push(e);
                    }
                }
                block += "}\n";
                parts.push(block);
            }
            _ => {
                let o = format!("const M{id}_OTHER{}: u32 = 0;", m.other_backend.len());
                parts.push(format!(
                    "backend cpp {{ prologue \"{o}\"; epilogue \"{o}\"; }}\n"
                ));
                m.other_backend.push(o);
            }
        }
    }
    for u in &uses { t += u; }
    let mut impl_counter = 0;
    for d in &m.decls {
        let mut s = String::new();
        match d {
            Decl::Type { name, vftable, fields, has_impl } => {
                s += &format!("pub type {name} {{\n");
                if let Some(fns) = vftable {
                    s += "  vftable {\n";
                    for f in fns {
                        s += &format!("    pub fn {f}(&self) -> u64;\n");
                    }
                    s += "  },\n";
                }
                for (f, ty) in fields {
                    s += &format!("  {f}: {ty},\n");
                }
                s += "}\n";
                if *has_impl {
                    s += &format!("impl {name} {{ #[address(0x100)] pub fn imp{id}_{}(&self); }}\n", { impl_counter += 1; impl_counter });
                }
            }
            Decl::Enum { name } => s += &format!("pub enum {name}: u32 {{ A = 0, B = 1 }}\n"),
            Decl::ExternType { name } => {
                s += &format!("#[size(8), align(8)]\nextern type {name};\n")
            }
        }
        parts.push(s);
    }
    for (i, ev) in m.extern_values.iter().enumerate() {
        parts.push(format!("#[address(0x{:x})]\npub extern {ev}: u64;\n", 0x1000 + i * 8));
    }
    // shuffle the parts (source order of prologues/epilogues among themselves must be kept, so
    // only move non-backend parts around: simple approach - rotate declarations before backends
    // half the time)
    if rng.chance(1, 2) {
        let (b, d): (Vec<_>, Vec<_>) = parts.into_iter().partition(|p| p.starts_with("backend"));
        parts = d.into_iter().chain(b).collect();
    }
    for p in parts {
        t += &p;
    }
    m.text = t;
    m
}

fn expect_collision(m: &Module) -> bool {
    let mut seen = BTreeSet::new();
    for d in &m.decls {
        if !seen.insert(norm(d.name())) {
            return true;
        }
    }
    for d in &m.decls {
        if let Decl::Type { name, vftable: Some(_), .. } = d {
            let v = format!("{}Vftable", unraw(&norm(name)));
            if !seen.insert(v) {
                return true;
            }
        }
    }
    let mut evs = BTreeSet::new();
    for ev in &m.extern_values {
        if !evs.insert(norm(ev)) {
            return true;
        }
    }
    false
}

fn list_files(dir: &Path, base: &Path, out: &mut BTreeMap<PathBuf, Vec<u8>>) {
    for e in std::fs::read_dir(dir).unwrap() {
        let p = e.unwrap().path();
        if p.is_dir() {
            list_files(&p, base, out);
        } else {
            out.insert(p.strip_prefix(base).unwrap().to_path_buf(), std::fs::read(&p).unwrap());
        }
    }
}

fn check_module_file(m: &Module, text: &str) -> Result<(), String> {
    let file = syn::parse_file(text).map_err(|e| format!("output does not parse: {e}"))?;
    let mut structs: Vec<String> = vec![];
    let mut enums: Vec<String> = vec![];
    let mut getters: Vec<String> = vec![];
    let mut consts: Vec<(usize, String)> = vec![];
    for (i, item) in file.items.iter().enumerate() {
        match item {
            syn::Item::Struct(s) => structs.push(s.ident.to_string()),
            syn::Item::Enum(e) => enums.push(e.ident.to_string()),
            syn::Item::Fn(f) => {
                let n = f.sig.ident.to_string();
                if n.starts_with("get_") {
                    getters.push(n);
                }
            }
            syn::Item::Const(c) if !c.ident.to_string().starts_with("_CONFLICTING_") => {
                consts.push((i, c.ident.to_string()))
            }
            _ => {}
        }
    }
    let n_items = file.items.len();
    let mut want_structs: Vec<String> = vec![];
    let mut want_enums: Vec<String> = vec![];
    for d in &m.decls {
        match d {
            Decl::Type { name, vftable, .. } => {
                want_structs.push(norm(name));
                if vftable.is_some() {
                    want_structs.push(format!("{}Vftable", unraw(&norm(name))));
                }
            }
            Decl::Enum { name } => want_enums.push(norm(name)),
            Decl::ExternType { .. } => {}
        }
    }
    let mut want_getters: Vec<String> =
        m.extern_values.iter().map(|e| format!("get_{}", unraw(&norm(e)))).collect();
    want_structs.sort();
    want_enums.sort();
    want_getters.sort();
    structs.sort();
    enums.sort();
    getters.sort();
    if structs != want_structs {
        return Err(format!("structs {structs:?} != {want_structs:?}"));
    }
    if enums != want_enums {
        return Err(format!("enums {enums:?} != {want_enums:?}"));
    }
    if getters != want_getters {
        return Err(format!("getters {getters:?} != {want_getters:?}"));
    }
    // prologues first, epilogues last
    let extract = |s: &String| s.split(':').next().unwrap().trim_start_matches("const ").to_string();
    let want_p: Vec<String> = m.prologues.iter().map(extract).collect();
    let want_e: Vec<String> = m.epilogues.iter().map(extract).collect();
    let got: Vec<String> = consts.iter().map(|c| c.1.clone()).collect();
    let want: Vec<String> = want_p.iter().chain(want_e.iter()).cloned().collect();
    if got != want {
        return Err(format!("consts {got:?} != {want:?}"));
    }
    for (k, (i, _)) in consts.iter().enumerate() {
        if k < want_p.len() {
            if *i != k {
                return Err(format!("prologue const {k} at item {i}"));
            }
        } else {
            let from_end = want.len() - k; // 1 for last
            if *i != n_items - from_end {
                return Err(format!("epilogue const {k} at item {i} of {n_items}"));
            }
        }
    }
    for o in &m.other_backend {
        if text.contains(&extract(o)) {
            return Err(format!("other backend text present: {o}"));
        }
    }
    Ok(())
}

fn main() {
    let args: Vec<String> = std::env::args().collect();
    let start: u64 = args.get(1).map(|s| s.parse().unwrap()).unwrap_or(1);
    let count: u64 = args.get(2).map(|s| s.parse().unwrap()).unwrap_or(200);
    let root = std::env::temp_dir().join(format!("rev3-C14-fuzz-{}", std::process::id()));
    let mut bad = 0;
    let (mut n_ok, mut n_err) = (0, 0);
    let dirs = ["", "sub", "sub/deep", "Foo", "other"];
    let files = ["m", "n", "a_b", "Foo", "sub", "deep", "x_y"];
    for seed in start..start + count {
        let mut rng = Rng(seed.wrapping_mul(0x9E3779B97F4A7C15) | 1);
        for _ in 0..5 {
            rng.next();
        }
        let case = root.join(format!("{seed}"));
        let _ = std::fs::remove_dir_all(&case);
        let in_dir = case.join("in");
        let out_dir = case.join("out");
        std::fs::create_dir_all(&in_dir).unwrap();
        std::fs::create_dir_all(&out_dir).unwrap();
        // something that was in the output directory before
        std::fs::write(out_dir.join("keep.txt"), "keep").unwrap();
        std::fs::write(case.join("outside.txt"), "outside").unwrap();
        let mut modules: BTreeMap<PathBuf, Module> = BTreeMap::new();
        let mut earlier: Vec<(String, Vec<String>)> = vec![];
        for id in 0..1 + rng.below(4) {
            let rel = Path::new(*rng.pick(&dirs)).join(*rng.pick(&files));
            if modules.contains_key(&rel) {
                continue;
            }
            let m = gen_module(&mut rng, rel.clone(), id, &earlier);
            {
                let mp = rel.iter().map(|c| c.to_str().unwrap()).collect::<Vec<_>>().join("::");
                let mut names = vec![];
                if !expect_collision(&m) {
                    for d in &m.decls {
                        names.push(d.name().to_string());
                        if let Decl::Type { name, vftable: Some(_), .. } = d {
                            names.push(format!("{}Vftable", unraw(&norm(name))));
                        }
                    }
                }
                earlier.push((mp, names));
            }
            let mut p = in_dir.join(&rel).into_os_string();
            p.push(".pyxis");
            let p = PathBuf::from(p);
            std::fs::create_dir_all(p.parent().unwrap()).unwrap();
            std::fs::write(&p, &m.text).unwrap();
            modules.insert(rel, m);
        }
        let result = pyxis::build(&in_dir, &out_dir, 8);
        let collision = modules.values().any(expect_collision);
        // a second build of the same input must agree with the first
        let out2 = std::env::temp_dir().join(format!("rev3-C14-fuzz-{}-out2", std::process::id()));
        let _ = std::fs::remove_dir_all(&out2);
        std::fs::create_dir_all(&out2).unwrap();
        let result2 = pyxis::build(&in_dir, &out2, 8);
        let mut again_problem = None;
        if result.is_ok() != result2.is_ok() {
            again_problem = Some(format!("second build differs: {:?} vs {:?}", result.as_ref().err().map(|e| e.to_string()), result2.as_ref().err().map(|e| e.to_string())));
        } else if result.is_ok() {
            let mut f1 = BTreeMap::new();
            list_files(&out_dir, &out_dir, &mut f1);
            f1.remove(Path::new("keep.txt"));
            let mut f2 = BTreeMap::new();
            list_files(&out2, &out2, &mut f2);
            if f1 != f2 {
                again_problem = Some("second build wrote different files".to_string());
            }
        }
        let mut files = BTreeMap::new();
        list_files(&case, &case, &mut files);
        let mut problems: Vec<String> = vec![];
        problems.extend(again_problem);
        match &result {
            Ok(()) => {
                n_ok += 1;
                if collision {
                    problems.push("collision accepted".into());
                }
                let mut want: BTreeSet<PathBuf> = BTreeSet::new();
                want.insert("out/keep.txt".into());
                want.insert("outside.txt".into());
                for (rel, m) in &modules {
                    let mut o = Path::new("out").join(rel).into_os_string();
                    o.push(".rs");
                    let o = PathBuf::from(o);
                    want.insert(o.clone());
                    let mut i = Path::new("in").join(rel).into_os_string();
                    i.push(".pyxis");
                    want.insert(PathBuf::from(i));
                    match files.get(&o) {
                        None => problems.push(format!("missing {}", o.display())),
                        Some(bytes) => {
                            if let Err(e) =
                                check_module_file(m, std::str::from_utf8(bytes).unwrap())
                            {
                                problems.push(format!("{}: {e}", o.display()));
                            }
                        }
                    }
                }
                let got: BTreeSet<PathBuf> = files.keys().cloned().collect();
                if got != want {
                    problems.push(format!(
                        "files differ: extra {:?} missing {:?}",
                        got.difference(&want).collect::<Vec<_>>(),
                        want.difference(&got).collect::<Vec<_>>()
                    ));
                }
                if files.get(Path::new("out/keep.txt")).map(|b| b.as_slice()) != Some(b"keep") {
                    problems.push("keep.txt modified".into());
                }
            }
            Err(e) => {
                n_err += 1;
                if !collision {
                    problems.push(format!("rejected without collision: {e:#}"));
                }
            }
        }
        if problems.is_empty() {
            let _ = std::fs::remove_dir_all(&case);
        } else {
            bad += 1;
            println!("seed {seed}: {problems:?}  (kept {})", case.display());
        }
    }
    println!("done, {bad} problem cases ({n_ok} accepted, {n_err} rejected)");
    if bad > 0 {
        std::process::exit(1);
    }
}
