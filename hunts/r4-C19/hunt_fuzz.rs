//! Differential fuzz for C19: a closed set C of modules (imports only inside C) plus an
//! unrelated set U (may import anything). Build C+U1 and C+U2, compare outputs of C.
use std::collections::{BTreeMap, BTreeSet};
use std::path::{Path, PathBuf};

struct Rng(u64);
impl Rng {
    fn next(&mut self) -> u64 {
        self.0 ^= self.0 << 13;
        self.0 ^= self.0 >> 7;
        self.0 ^= self.0 << 17;
        self.0
    }
    fn below(&mut self, n: usize) -> usize {
        (self.next() % n as u64) as usize
    }
    fn chance(&mut self, pct: usize) -> bool {
        self.below(100) < pct
    }
    fn pick<'a, T>(&mut self, v: &'a [T]) -> &'a T {
        &v[self.below(v.len())]
    }
}

type Key = Vec<&'static str>;

const KEYS: &[&[&str]] = &[
    &["a"],
    &["b"],
    &["c"],
    &["A"],
    &["a", "b"],
    &["a", "c"],
    &["a", "A"],
    &["a", "B"],
    &["a", "AVftable"],
    &["b", "a"],
    &["b", "A"],
    &["a", "b", "c"],
    &["a", "b", "A"],
    &["u32"],
    &["a", "u32"],
    &["c", "T"],
    &["c", "TVftable"],
];
const TYPE_NAMES: &[&str] = &["A", "B", "C", "T", "a", "b", "c", "AVftable", "TVftable", "E", "u32"];
const BUILTINS: &[&str] = &["u32", "i32", "f32"];

#[derive(Clone, Default)]
struct ModSpec {
    key: Key,
    uses_mod: Vec<Key>,
    uses_ty: Vec<(Key, &'static str)>,
    text: String,
    types: Vec<(&'static str, bool)>, // name, has vftable
}

fn key_str(k: &Key) -> String {
    k.join("::")
}

/// Generate modules for `keys`; may import modules from `importable` (already generated or
/// in the same batch, by key) and their types.
fn gen_modules(rng: &mut Rng, keys: &[Key], importable_extra: &[ModSpec]) -> Vec<ModSpec> {
    // First decide type names of each module so imports can refer to them.
    let mut specs: Vec<ModSpec> = keys
        .iter()
        .map(|k| {
            let mut types: Vec<(&'static str, bool)> = vec![];
            let n = 1 + rng.below(3);
            for _ in 0..n {
                let name = *rng.pick(TYPE_NAMES);
                if types.iter().any(|(t, _)| *t == name) {
                    continue;
                }
                let vft = rng.chance(35) && !name.ends_with("Vftable") && name != "E";
                types.push((name, vft));
            }
            // drop X + XVftable conflicts
            let names: Vec<_> = types.clone();
            types.retain(|(t, _)| {
                !names
                    .iter()
                    .any(|(o, v)| *v && format!("{o}Vftable") == *t)
            });
            ModSpec {
                key: k.clone(),
                types,
                ..Default::default()
            }
        })
        .collect();

    let all: Vec<ModSpec> = specs.iter().cloned().chain(importable_extra.iter().cloned()).collect();

    for i in 0..specs.len() {
        let mut uses_mod = vec![];
        let mut uses_ty = vec![];
        let n = rng.below(4);
        for _ in 0..n {
            let other = rng.pick(&all);
            if other.key == specs[i].key {
                continue;
            }
            if rng.chance(50) {
                uses_mod.push(other.key.clone());
            } else if !other.types.is_empty() {
                let (t, v) = *rng.pick(&other.types);
                if v && rng.chance(30) {
                    // import the generated vftable type by name
                    let leaked: &'static str = Box::leak(format!("{t}Vftable").into_boxed_str());
                    uses_ty.push((other.key.clone(), leaked));
                } else {
                    uses_ty.push((other.key.clone(), t));
                }
            }
        }
        // visible names
        let mut visible: Vec<String> = specs[i].types.iter().map(|(t, _)| t.to_string()).collect();
        for (t, v) in &specs[i].types {
            if *v {
                visible.push(format!("{t}Vftable"));
            }
        }
        for k in &uses_mod {
            if let Some(m) = all.iter().find(|m| &m.key == k) {
                for (t, v) in &m.types {
                    visible.push(t.to_string());
                    if *v {
                        visible.push(format!("{t}Vftable"));
                    }
                }
            }
        }
        for (_, t) in &uses_ty {
            visible.push(t.to_string());
        }
        for b in BUILTINS {
            visible.push(b.to_string());
        }
        let extern_name = if rng.chance(30) { Some("X") } else { None };
        if let Some(x) = extern_name {
            visible.push(x.to_string());
        }

        let mut text = String::new();
        if rng.chance(30) {
            text.push_str(&format!("#![doc = \"module {}\"]\n", key_str(&specs[i].key)));
        }
        // interleave uses in random order
        let mut use_lines: Vec<String> = uses_mod
            .iter()
            .map(|k| format!("use {};\n", key_str(k)))
            .chain(uses_ty.iter().map(|(k, t)| format!("use {}::{};\n", key_str(k), t)))
            .collect();
        if use_lines.len() > 1 && rng.chance(50) {
            use_lines.reverse();
        }
        for l in &use_lines {
            text.push_str(l);
        }
        if let Some(x) = extern_name {
            text.push_str(&format!("#[size(8), align(4)]\nextern type {x};\n"));
        }
        let own_types = specs[i].types.clone();
        for (idx, (name, vft)) in own_types.iter().enumerate() {
            if *name == "E" {
                let base = if rng.chance(80) { "u32".to_string() } else { rng.pick(&visible).clone() };
                text.push_str(&format!(
                    "#[copyable]\npub enum E: {base} {{ P = 1, Q, R = 7 }}\n"
                ));
                continue;
            }
            let mut attrs = vec![];
            if rng.chance(20) {
                attrs.push("#[align(4)]");
            }
            if rng.chance(10) {
                attrs.push("#[packed]");
            }
            if rng.chance(15) {
                attrs.push("#[singleton(0x1000)]");
            }
            for a in &attrs {
                text.push_str(a);
                text.push('\n');
            }
            let vis = if rng.chance(70) { "pub " } else { "" };
            text.push_str(&format!("{vis}type {name} {{\n"));
            if *vft {
                text.push_str("    vftable {\n");
                let nf = 1 + rng.below(2);
                for f in 0..nf {
                    let arg = rng.pick(&visible).clone();
                    let ret = rng.pick(&visible).clone();
                    text.push_str(&format!(
                        "        pub fn vf{f}(&self, x: *mut {arg}) -> *const {ret};\n"
                    ));
                }
                text.push_str("    },\n");
            }
            // base
            if !*vft && rng.chance(30) {
                let b = rng.pick(&visible).clone();
                if !BUILTINS.contains(&b.as_str()) && b != *name {
                    text.push_str(&format!("    #[base]\n    pub base: {b},\n"));
                }
            }
            let nfields = 1 + rng.below(3);
            for f in 0..nfields {
                let t = rng.pick(&visible).clone();
                let fty = match rng.below(10) {
                    0 if t != *name => t.clone(),
                    1 if t != *name => format!("[{t}; 2]"),
                    2 => format!("[*const {t}; 3]"),
                    3 => "unknown<8>".to_string(),
                    4 | 5 => format!("*const {t}"),
                    _ => format!("*mut {t}"),
                };
                text.push_str(&format!("    pub f{f}: {fty},\n"));
            }
            text.push_str("}\n");
            if rng.chance(40) {
                let t1 = rng.pick(&visible).clone();
                let t2 = rng.pick(&visible).clone();
                text.push_str(&format!(
                    "impl {name} {{\n    #[address(0x{:X})]\n    pub fn func{idx}(&mut self, p: *mut {t1}) -> *mut {t2};\n}}\n",
                    0x1000 + idx * 16
                ));
            }
        }
        if rng.chance(30) {
            let t = rng.pick(&visible).clone();
            text.push_str(&format!("#[address(0x2000)]\npub extern g_val: *mut {t};\n"));
        }
        if rng.chance(15) {
            text.push_str("backend rust prologue r#\"use std::ffi::c_void as PV;\"#;\n");
        }
        specs[i].uses_mod = uses_mod;
        specs[i].uses_ty = uses_ty;
        specs[i].text = text;
    }
    specs
}

fn write_world(dir: &Path, mods: &[&ModSpec]) {
    let _ = std::fs::remove_dir_all(dir);
    std::fs::create_dir_all(dir).unwrap();
    for m in mods {
        let mut p = dir.to_path_buf();
        for s in &m.key {
            p.push(s);
        }
        p.as_mut_os_string().push(".pyxis");
        std::fs::create_dir_all(p.parent().unwrap()).unwrap();
        std::fs::write(&p, &m.text).unwrap();
    }
}

fn out_file(out: &Path, key: &Key) -> PathBuf {
    let mut p = out.to_path_buf();
    for s in key {
        p.push(s);
    }
    p.as_mut_os_string().push(".rs");
    p
}

fn build(inp: &Path, out: &Path) -> Result<(), String> {
    let _ = std::fs::remove_dir_all(out);
    std::fs::create_dir_all(out).unwrap();
    pyxis::build(inp, out, 4).map_err(|e| format!("{e:#}"))
}

fn main() {
    let seed: u64 = std::env::args().nth(1).and_then(|s| s.parse().ok()).unwrap_or(1);
    let iters: usize = std::env::args().nth(2).and_then(|s| s.parse().ok()).unwrap_or(300);
    let base = std::env::temp_dir().join(format!("hunt4c19_fuzz_{seed}"));
    let mut rng = Rng(seed.wrapping_mul(0x9E3779B97F4A7C15) | 1);
    let mut accepted_pairs = 0usize;
    let mut c_only_ok = 0usize;
    let mut diffs = 0usize;
    let mut excluded = 0usize;
    for iter in 0..iters {
        // split keys
        let mut ckeys = vec![];
        let mut u1keys = vec![];
        let mut u2keys = vec![];
        for k in KEYS {
            let k: Key = k.to_vec();
            match rng.below(6) {
                0 | 1 => ckeys.push(k),
                2 => u1keys.push(k),
                3 => u2keys.push(k),
                4 => {
                    u1keys.push(k.clone());
                    u2keys.push(k)
                }
                _ => {}
            }
        }
        if ckeys.is_empty() {
            continue;
        }
        let c = gen_modules(&mut rng, &ckeys, &[]);
        // make sure C alone is accepted, otherwise little hope
        let in0 = base.join("in0");
        let out0 = base.join("out0");
        write_world(&in0, &c.iter().collect::<Vec<_>>());
        if build(&in0, &out0).is_err() {
            continue;
        }
        c_only_ok += 1;
        let baseline: BTreeMap<Key, Vec<u8>> = c
            .iter()
            .map(|m| (m.key.clone(), std::fs::read(out_file(&out0, &m.key)).unwrap()))
            .collect();

        // imports used by C: paths
        let mut c_import_paths: BTreeSet<Vec<String>> = BTreeSet::new();
        for m in &c {
            for k in &m.uses_mod {
                c_import_paths.insert(k.iter().map(|s| s.to_string()).collect());
            }
            for (k, t) in &m.uses_ty {
                let mut p: Vec<String> = k.iter().map(|s| s.to_string()).collect();
                p.push(t.to_string());
                c_import_paths.insert(p);
            }
        }

        for attempt in 0..4 {
            let ukeys = if attempt % 2 == 0 { &u1keys } else { &u2keys };
            if ukeys.is_empty() {
                continue;
            }
            let u = gen_modules(&mut rng, ukeys, &c);
            // excluded class: a type (or vftable type) of a U module sits at an import path of C,
            // or a U module sits at an import path of C (then C imports it).
            let mut is_excluded = false;
            for m in &u {
                let mk: Vec<String> = m.key.iter().map(|s| s.to_string()).collect();
                if c_import_paths.contains(&mk) {
                    is_excluded = true;
                }
                for (t, v) in &m.types {
                    let mut p = mk.clone();
                    p.push(t.to_string());
                    if c_import_paths.contains(&p) {
                        is_excluded = true;
                    }
                    if *v {
                        let mut p = mk.clone();
                        p.push(format!("{t}Vftable"));
                        if c_import_paths.contains(&p) {
                            is_excluded = true;
                        }
                    }
                }
                if m.text.contains("extern type X") {
                    let mut p = mk.clone();
                    p.push("X".to_string());
                    if c_import_paths.contains(&p) {
                        is_excluded = true;
                    }
                }
            }
            let in1 = base.join("in1");
            let out1 = base.join("out1");
            let all: Vec<&ModSpec> = c.iter().chain(u.iter()).collect();
            write_world(&in1, &all);
            match build(&in1, &out1) {
                Err(_) => continue,
                Ok(()) => {}
            }
            accepted_pairs += 1;
            for m in &c {
                let got = std::fs::read(out_file(&out1, &m.key)).unwrap();
                if got != baseline[&m.key] {
                    if is_excluded {
                        excluded += 1;
                        continue;
                    }
                    diffs += 1;
                    let keep = base.join(format!("diff_{iter}_{attempt}"));
                    let _ = std::fs::remove_dir_all(&keep);
                    std::fs::create_dir_all(&keep).unwrap();
                    let _ = std::process::Command::new("cp")
                        .args(["-r"])
                        .arg(&in0)
                        .arg(&out0)
                        .arg(&in1)
                        .arg(&out1)
                        .arg(&keep)
                        .status();
                    println!("DIFF iter {iter} attempt {attempt} module {} kept in {}", key_str(&m.key), keep.display());
                }
            }
        }
    }
    println!(
        "seed {seed}: C-only accepted {c_only_ok}, accepted C+U builds {accepted_pairs}, diffs {diffs}, excluded-class diffs {excluded}"
    );
    if diffs > 0 {
        std::process::exit(1);
    }
}
