//! Inheritance / vftable heavy observed modules, with unrelated users around them.
use std::path::Path;

const BASE: &str = r#"
#[align(4)]
pub type Base {
    vftable {
        pub fn destroy(&mut self);
        pub fn r#type(&self, other: *const Base) -> u32;
    },
    pub id: u32,
}
impl Base {
    #[address(0x10)]
    pub fn new(p: *mut Base) -> *mut Base;
    #[address(0x20)]
    pub fn id(&self) -> u32;
}
#[defaultable, copyable]
pub enum Kind: u32 { #[default] None = 0, Some = 5, More }
#[defaultable, cloneable]
pub type Plain { pub k: Kind, pub v: [u32; 2], }
"#;

const MID: &str = r#"
use base::Base;
use base;
pub type Mid {
    vftable {
        pub fn destroy(&mut self);
        pub fn r#type(&self, other: *const Base) -> u32;
        #[index(4)]
        pub fn extra(&self, k: Kind, p: *mut Plain) -> *const MidVftable;
    },
    #[base]
    pub base: Base,
    pub plain: Plain,
}
impl Mid {
    #[address(0x30)]
    pub fn mid_id(&self) -> u32;
}
pub type Other {
    vftable {
        pub fn other_f(&self) -> *mut Mid;
    },
    pub w: u32,
}
"#;

const OBS: &str = r#"
use mid::Mid;
use mid::Other;
use base::Kind;
#[singleton(0x4000)]
pub type Obs {
    #[base]
    pub mid: Mid,
    #[base]
    pub other: Other,
    #[address(0x40)]
    pub kind: Kind,
    pub back: *mut ObsUser,
}
type ObsUser { pub o: *mut Obs, pub v: *const MidVftable2, }
#[size(4), align(4)]
extern type MidVftable2;
#[address(0x500)]
pub extern the_obs: *mut Obs;
"#;

const U_A: &str = r#"
use obs::Obs;
use mid;
use base;
pub type Obs2 {
    #[base]
    pub obs: Obs,
    pub more: [u32; 4],
}
pub type Mid {
    vftable { pub fn zzz(&self, o: *mut Obs) -> u32; },
    pub q: u32,
}
pub type Base { pub q: u32, }
pub type Kind { pub q: *mut Plain, }
"#;

const U_B: &str = r#"
use mid::Mid;
pub type Derived {
    vftable {
        pub fn destroy(&mut self);
        pub fn r#type(&self, other: *const Base) -> u32;
        fn _vfunc_2(&mut self);
        fn _vfunc_3(&mut self);
        pub fn extra(&self, k: Kind, p: *mut Plain) -> *const MidVftable;
        pub fn derived(&self);
    },
    #[base]
    pub mid: Mid,
}
use base::Base;
use base::Kind;
use base::Plain;
use mid::MidVftable;
"#;

const U_C: &str = r#"
pub type Obs { pub x: u32, }
pub type ObsUser { pub x: u32, }
pub type ObsVftable { pub x: u32, }
pub type MidVftable { pub x: u32, }
pub type MidVftable2 { pub x: u32, }
pub enum Kind: u8 { Z }
"#;

fn fresh(p: &Path) {
    let _ = std::fs::remove_dir_all(p);
    std::fs::create_dir_all(p).unwrap();
}
fn put(root: &Path, rel: &str, text: &str) {
    let p = root.join(rel);
    std::fs::create_dir_all(p.parent().unwrap()).unwrap();
    std::fs::write(p, text).unwrap();
}
fn outs(out: &Path) -> Vec<Vec<u8>> {
    ["base.rs", "mid.rs", "obs.rs"]
        .iter()
        .map(|f| std::fs::read(out.join(f)).unwrap())
        .collect()
}

fn main() {
    let tmp = std::env::temp_dir().join("hunt4c19_inh");
    let variants: Vec<Vec<(&str, &str)>> = vec![
        vec![],
        vec![("ua.pyxis", U_A)],
        vec![("a0.pyxis", U_A)],
        vec![("ub.pyxis", U_B)],
        vec![("uc.pyxis", U_C)],
        vec![("obs/Obs.pyxis", U_C), ("mid/Mid.pyxis", U_C), ("mid/MidVftable.pyxis", U_C)],
        vec![("base/Base.pyxis", U_A), ("base/Kind.pyxis", U_B), ("obs/ObsUser.pyxis", U_C)],
        vec![("ua.pyxis", U_A), ("ub.pyxis", U_B), ("uc.pyxis", U_C), ("obs/MidVftable2.pyxis", U_C)],
    ];
    let mut baseline: Option<Vec<Vec<u8>>> = None;
    let mut bad = 0;
    for round in 0..6 {
        for (vi, v) in variants.iter().enumerate() {
            let inp = tmp.join("in");
            let out = tmp.join("out");
            fresh(&inp);
            fresh(&out);
            put(&inp, "base.pyxis", BASE);
            put(&inp, "mid.pyxis", MID);
            put(&inp, "obs.pyxis", OBS);
            for (f, t) in v {
                put(&inp, f, t);
            }
            match pyxis::build(&inp, &out, 4) {
                Err(e) => {
                    if round == 0 {
                        println!("variant {vi} rejected: {e:#}");
                    }
                }
                Ok(()) => {
                    let got = outs(&out);
                    match &baseline {
                        None => baseline = Some(got),
                        Some(b) => {
                            if *b != got {
                                println!("variant {vi} round {round}: observed outputs DIFFER");
                                bad += 1;
                            } else if round == 0 {
                                println!("variant {vi} accepted, identical");
                            }
                        }
                    }
                }
            }
        }
    }
    if std::env::args().nth(1).is_some() {
        print!("{}", String::from_utf8_lossy(&baseline.unwrap()[2]));
    }
    if bad > 0 {
        std::process::exit(1);
    }
}
