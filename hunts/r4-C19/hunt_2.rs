//! File-system level probes for C19: odd unrelated file names / directories / links next to
//! an observed module `m` (and `a::m`). Each probe is built next to a baseline.
use std::path::{Path, PathBuf};

const M: &str = r#"
#![doc = "observed"]
use a::m::Inner;
pub type Outer {
    vftable {
        pub fn f(&self, x: *mut Inner) -> u32;
    },
    pub inner: Inner,
    pub next: *mut Outer,
}
impl Outer {
    #[address(0x100)]
    pub fn g(&self) -> *const OuterVftable;
}
#[address(0x200)]
pub extern G: *mut Outer;
"#;
const AM: &str = r#"
pub type Inner { pub x: u32, pub y: [u32; 3], }
"#;

fn fresh(p: &Path) {
    let _ = std::fs::remove_dir_all(p);
    std::fs::create_dir_all(p).unwrap();
}

fn put(root: &Path, rel: &str, text: &str) {
    let p = root.join(rel);
    std::fs::create_dir_all(p.parent().unwrap()).unwrap();
    std::fs::write(p, text).unwrap();
}

fn base_world(root: &Path) {
    fresh(root);
    put(root, "m.pyxis", M);
    put(root, "a/m.pyxis", AM);
}

fn outputs(out: &Path) -> (Vec<u8>, Vec<u8>) {
    (
        std::fs::read(out.join("m.rs")).unwrap(),
        std::fs::read(out.join("a/m.rs")).unwrap(),
    )
}

fn main() {
    let tmp: PathBuf = std::env::temp_dir().join("hunt4c19_fs");
    let in0 = tmp.join("in0");
    let out0 = tmp.join("out0");
    base_world(&in0);
    fresh(&out0);
    pyxis::build(&in0, &out0, 4).expect("baseline");
    let baseline = outputs(&out0);

    let other = "pub type Outer { pub z: u64, }\npub type Inner { pub q: u8, }\npub type m { pub q: u8, }\n";
    let user = "use m::Outer;\nuse a::m;\npub type D { #[base] pub b: Outer, pub i: Inner, }\n";
    #[allow(clippy::type_complexity)]
    let probes: Vec<(&str, Box<dyn Fn(&Path)>)> = vec![
        ("coloncolon file", Box::new(|r| put(r, "a::m.pyxis", other))),
        ("m dir", Box::new(|r| put(r, "m/Outer.pyxis", other))),
        ("m dir vft", Box::new(|r| put(r, "m/OuterVftable.pyxis", other))),
        ("a/m dir", Box::new(|r| put(r, "a/m/Inner.pyxis", other))),
        ("a file with type m", Box::new(|r| put(r, "a.pyxis", "pub type mm { pub q: u8, }\n"))),
        ("m.rs file", Box::new(|r| put(r, "m.rs.pyxis", other))),
        ("m. file", Box::new(|r| put(r, "m..pyxis", other))),
        ("dot file", Box::new(|r| put(r, ".pyxis", other))),
        ("dotdot file", Box::new(|r| put(r, "...pyxis", other))),
        ("dot in a", Box::new(|r| put(r, "a/..pyxis", other))),
        ("space", Box::new(|r| put(r, "m .pyxis", other))),
        ("generic name", Box::new(|r| put(r, "m<Outer>.pyxis", other))),
        ("unicode", Box::new(|r| put(r, "ｍ.pyxis", other))),
        ("upper", Box::new(|r| put(r, "M.pyxis", other))),
        ("builtin name", Box::new(|r| put(r, "u32.pyxis", "pub type u32 { pub q: u8, }\npub type Inner { pub q: u8, }\n"))),
        ("void name", Box::new(|r| put(r, "void.pyxis", other))),
        ("crate name", Box::new(|r| put(r, "crate.pyxis", other))),
        ("user of m", Box::new(|r| put(r, "zz.pyxis", user))),
        ("user of m sorted first", Box::new(|r| put(r, "0.pyxis", user))),
        ("file link", Box::new(|r| std::os::unix::fs::symlink(r.join("m.pyxis"), r.join("n.pyxis")).unwrap())),
        ("dir link", Box::new(|r| std::os::unix::fs::symlink(r.join("a"), r.join("b")).unwrap())),
        ("dir link early", Box::new(|r| std::os::unix::fs::symlink(r.join("a"), r.join("0")).unwrap())),
        ("cycle link", Box::new(|r| std::os::unix::fs::symlink(r, r.join("a/up")).unwrap())),
        ("cycle link early", Box::new(|r| std::os::unix::fs::symlink(r, r.join("0up")).unwrap())),
        ("link to parent", Box::new(|r| std::os::unix::fs::symlink(r.parent().unwrap(), r.join("a/0")).unwrap())),
        ("empty module", Box::new(|r| put(r, "e.pyxis", ""))),
        ("empty use", Box::new(|r| put(r, "e.pyxis", "use ;\nuse m;\nuse ::m::Outer;\npub type Q { pub o: *mut Outer, }\n"))),
        ("m.rs dir", Box::new(|r| put(r, "m.rs/x.pyxis", other))),
    ];

    let mut bad = 0;
    for (name, probe) in &probes {
        let inp = tmp.join("in1");
        let out = tmp.join("out1");
        base_world(&inp);
        probe(&inp);
        fresh(&out);
        match pyxis::build(&inp, &out, 4) {
            Err(e) => println!("{name:28} rejected: {}", format!("{e:#}").lines().next().unwrap_or("")),
            Ok(()) => {
                let got = outputs(&out);
                let same = got == baseline;
                println!("{name:28} accepted, observed outputs identical: {same}");
                if !same {
                    bad += 1;
                }
                // build again into the baseline's (already filled) out dir as well
                pyxis::build(&inp, &out0, 4).expect("second build");
                if outputs(&out0) != baseline {
                    println!("{name:28} DIFFERENT when written over the old out dir");
                    bad += 1;
                }
                pyxis::build(&in0, &out0, 4).expect("rebuild baseline");
                if outputs(&out0) != baseline {
                    println!("{name:28} DIFFERENT after going back");
                    bad += 1;
                }
            }
        }
    }
    if bad > 0 {
        std::process::exit(1);
    }
}
