// FINDING 2 (public API, resolution order of the unresolved worklist)
//
// A type with a `vftable` block that is registered with the public
// `SemanticState::add_item` (state `ItemState::Unresolved`) gets its `<T>Vftable` type
// generated during `build()`, but - unlike `add_module` - nothing reserves that name
// beforehand. Until the owner has been attempted for the first time, the name `FooVftable`
// therefore still binds to whatever else is in scope (here `n::FooVftable`, through
// `use n;`); afterwards it binds to the generated `m::FooVftable` (the own module is searched
// before imported modules). Whether `m::Bar` is attempted before or after `m::Foo` in the
// first pass is decided by the HashMap order of `TypeRegistry::unresolved()`.
//
// Scenario A: both orders succeed, with different content of m.rs.
// Scenario B: one order succeeds, the other fails (`#[size(4)]` only fits one binding).
//
// Exits 0 if every repetition gives the same result, 1 otherwise.
use pyxis::grammar::ItemPath;
use pyxis::semantic::types::{ItemCategory, ItemDefinition, ItemState, Visibility};
use pyxis::semantic::SemanticState;
use std::collections::BTreeSet;

fn run(i: usize, root: &std::path::Path, n_src: &str, m_src: &str, foo_src: &str) -> Result<String, String> {
    let mut s = SemanticState::new(4);
    let n = pyxis::parser::parse_str(n_src).unwrap();
    let m = pyxis::parser::parse_str(m_src).unwrap();
    let foo = pyxis::parser::parse_str(foo_src).unwrap();
    s.add_module(&n, &ItemPath::from("n")).unwrap();
    s.add_module(&m, &ItemPath::from("m")).unwrap();
    s.add_item(ItemDefinition {
        visibility: Visibility::Public,
        path: ItemPath::from("m::Foo"),
        state: ItemState::Unresolved(foo.definitions[0].clone()),
        category: ItemCategory::Defined,
    })
    .unwrap();
    let r = s.build().map_err(|e| format!("{e:#}"))?;
    let out = root.join(format!("out{i}"));
    std::fs::create_dir_all(&out).unwrap();
    let key = ItemPath::from("m");
    pyxis::backends::rust::write_module(&out, &key, &r, &r.modules()[&key])
        .map_err(|e| format!("{e:#}"))?;
    Ok(std::fs::read_to_string(out.join("m.rs")).unwrap())
}

fn scenario(name: &str, root: &std::path::Path, n_src: &str, m_src: &str, foo_src: &str) -> bool {
    let mut outcomes = BTreeSet::new();
    for i in 0..64 {
        outcomes.insert(run(i, &root.join(name), n_src, m_src, foo_src));
    }
    println!("scenario {name}: {} distinct outcome(s)", outcomes.len());
    for o in &outcomes {
        match o {
            Ok(text) => println!(
                "  OK : {}",
                text.lines().find(|l| l.contains("pub v:")).unwrap_or("?").trim()
            ),
            Err(e) => println!("  ERR: {e}"),
        }
    }
    outcomes.len() == 1
}

fn main() {
    let root = std::env::temp_dir().join(format!("pyxis_finding_2_{}", std::process::id()));
    let _ = std::fs::remove_dir_all(&root);
    let foo = "pub type Foo { vftable { pub fn f(&self); }, }";
    let a = scenario(
        "A",
        &root,
        "pub type FooVftable { pub x: u32, }",
        "use n;\npub type Bar { pub v: *const FooVftable, }",
        foo,
    );
    let b = scenario(
        "B",
        &root,
        "pub type FooVftable { pub x: u32, pub y: u32, }",
        "use n;\n#[size(4)]\npub type Bar { pub v: FooVftable, }",
        foo,
    );
    let _ = std::fs::remove_dir_all(&root);
    if !(a && b) {
        eprintln!("VIOLATION: the result depends on the order in which types are resolved");
        std::process::exit(1);
    }
}
