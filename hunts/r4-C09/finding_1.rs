// FINDING 1 (pyxis::build, hash-map seeds / repetition in one process)
//
// `pyxis::build` writes the modules in the iteration order of a `HashMap` and stops at the
// first module whose `write_module` fails. For an input set with one module that fails in
// the write phase, the build fails every time - but WHICH of the other modules' files have
// been written to the output directory by then differs from run to run (hash seed), and so
// does the tree that a failed build leaves behind.
//
// Scenario A: the failing module has a prologue that is not Rust (`fn (`).
// Scenario B: no backend text at all: a virtual function takes a 32-level pointer, which the
//             parser accepts (limit 32) but the backend rejects once it is written inside
//             the function pointer type of the vftable (limit 32 for the written form).
//
// The program builds the same input into fresh, empty output directories 24 times in one
// process and compares (success, set of files, content). Exits 0 if all are the same.
use std::collections::{BTreeMap, BTreeSet};
use std::path::Path;

fn tree(dir: &Path, base: &Path, out: &mut BTreeMap<String, Vec<u8>>) {
    let Ok(entries) = std::fs::read_dir(dir) else { return };
    for e in entries {
        let p = e.unwrap().path();
        if p.is_dir() {
            tree(&p, base, out);
        } else {
            out.insert(
                p.strip_prefix(base).unwrap().to_string_lossy().into_owned(),
                std::fs::read(&p).unwrap(),
            );
        }
    }
}

fn scenario(name: &str, root: &Path, bad_module: &str) -> bool {
    let in_dir = root.join(name).join("in");
    std::fs::create_dir_all(&in_dir).unwrap();
    for module in ["a", "b", "c", "d", "e", "f", "g", "h"] {
        std::fs::write(
            in_dir.join(format!("{module}.pyxis")),
            "pub type T { pub x: u32, }\n",
        )
        .unwrap();
    }
    std::fs::write(in_dir.join("bad.pyxis"), bad_module).unwrap();

    let mut outcomes = BTreeSet::new();
    let mut listings = BTreeSet::new();
    for i in 0..24 {
        let out = root.join(name).join(format!("out{i}"));
        std::fs::create_dir_all(&out).unwrap();
        let result = pyxis::build(&in_dir, &out, 4);
        let mut files = BTreeMap::new();
        tree(&out, &out, &mut files);
        listings.insert(format!(
            "ok={} files={:?}",
            result.is_ok(),
            files.keys().collect::<Vec<_>>()
        ));
        outcomes.insert((result.is_ok(), files));
    }
    println!("scenario {name}: {} distinct outcome(s)", outcomes.len());
    for l in listings.iter().take(6) {
        println!("  {l}");
    }
    outcomes.len() == 1
}

fn main() {
    let root = std::env::temp_dir().join(format!("pyxis_finding_1_{}", std::process::id()));
    let _ = std::fs::remove_dir_all(&root);
    let a = scenario(
        "A",
        &root,
        "backend rust prologue \"fn (\";\npub type T { pub x: u32, }\n",
    );
    let deep = format!("{}u32", "*const ".repeat(32));
    let b = scenario(
        "B",
        &root,
        &format!("pub type T {{ vftable {{ pub fn f(&self, a: {deep}); }}, }}\n"),
    );
    let _ = std::fs::remove_dir_all(&root);
    if !(a && b) {
        eprintln!("VIOLATION: what a (failing) build leaves in the output directory depends on the hash seed");
        std::process::exit(1);
    }
}
