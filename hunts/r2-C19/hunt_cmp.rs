// usage: hunt_cmp <dirA> <dirB> <observed output rel path> [pointer_size]
use std::path::Path;
fn main() {
    let a: Vec<String> = std::env::args().collect();
    let ps: usize = a.get(4).map(|s| s.parse().unwrap()).unwrap_or(8);
    let mut outs = vec![];
    for (i, d) in [&a[1], &a[2]].iter().enumerate() {
        let out = std::env::temp_dir().join(format!("hunt_cmp_out_{}_{}", std::process::id(), i));
        let _ = std::fs::remove_dir_all(&out);
        std::fs::create_dir_all(&out).unwrap();
        match pyxis::build(Path::new(d), &out, ps) {
            Ok(()) => println!("[{}] accepted", d),
            Err(e) => { println!("[{}] REJECTED: {:#}", d, e); }
        }
        let f = out.join(&a[3]);
        outs.push(std::fs::read(&f).ok());
    }
    match (&outs[0], &outs[1]) {
        (Some(x), Some(y)) if x == y => println!("IDENTICAL"),
        (Some(x), Some(y)) => {
            println!("DIFFERENT\n--- A\n{}\n--- B\n{}", String::from_utf8_lossy(x), String::from_utf8_lossy(y));
            std::process::exit(1);
        }
        _ => { println!("missing output: {:?} {:?}", outs[0].is_some(), outs[1].is_some()); std::process::exit(2); }
    }
}
