// Differential fuzzer for C19: random module sets, mutate modules unreachable from an observed module.
use std::collections::{BTreeMap, BTreeSet};
use std::path::{Path, PathBuf};

struct Rng(u64);
impl Rng {
    fn next(&mut self) -> u64 { self.0 ^= self.0 << 13; self.0 ^= self.0 >> 7; self.0 ^= self.0 << 17; self.0 }
    fn below(&mut self, n: usize) -> usize { (self.next() % n as u64) as usize }
    fn chance(&mut self, pct: usize) -> bool { self.below(100) < pct }
    fn pick<'a, T>(&mut self, v: &'a [T]) -> &'a T { &v[self.below(v.len())] }
}

const MODS: &[&str] = &["m0", "m1", "A", "B", "m0/m1", "m0/A", "m0/BVftable", "A/B", "A/AVftable", "m1/m0/A", "u32"];
const TYPES: &[&str] = &["A", "B", "C", "AVftable", "BVftable", "m0", "m1", "u32", "r#type"];

fn modpath(m: &str) -> String { m.replace('/', "::") }
fn rank(m: &str) -> usize { MODS.iter().position(|x| *x == m).unwrap() }

#[derive(Clone, PartialEq, Debug)]
struct Decl { name: String, kind: u8 /*0 type,1 enum,2 extern*/, vft: bool }
#[derive(Clone, PartialEq, Debug)]
struct Module { decls: Vec<Decl>, uses: Vec<String>, text: String }
type Set = BTreeMap<String, Module>;

fn gen_decls(r: &mut Rng) -> Vec<Decl> {
    let mut pool: Vec<&str> = TYPES.to_vec();
    let mut out: Vec<Decl> = vec![];
    for _ in 0..r.below(5) {
        let i = r.below(pool.len());
        let name = pool.remove(i).to_string();
        let kind = match r.below(10) { 0 => 2, 1 | 2 => 1, _ => 0 };
        let vft = kind == 0 && r.chance(45);
        let clash = out.iter().any(|d| (d.vft && format!("{}Vftable", d.name) == name) || (vft && format!("{}Vftable", name) == d.name));
        if clash { continue; }
        out.push(Decl { name, kind, vft });
    }
    out
}

// names visible in a module, and which of them may be embedded by value (acyclic: lower-ranked modules only)
fn scope_names(set: &BTreeMap<String, Vec<Decl>>, me: &str, uses: &[String]) -> (Vec<String>, Vec<(String, u8)>) {
    let mut names = vec![];
    let mut byvalue = vec![];
    let mut add_mod = |m: &str, only: Option<&str>, names: &mut Vec<String>, byvalue: &mut Vec<(String, u8)>| {
        let stem = m.replace("::", "/");
        if let Some(ds) = set.get(&stem) {
            for d in ds {
                if only.map_or(true, |o| o == d.name) {
                    names.push(d.name.clone());
                    if stem != me && MODS.contains(&stem.as_str()) && rank(&stem) < rank(me) { byvalue.push((d.name.clone(), d.kind)); }
                }
                if d.vft {
                    let v = format!("{}Vftable", d.name);
                    if only.map_or(true, |o| o == v) { names.push(v); }
                }
            }
        }
    };
    add_mod(&modpath(me), None, &mut names, &mut byvalue);
    for u in uses {
        add_mod(u, None, &mut names, &mut byvalue);
        if let Some((m, t)) = u.rsplit_once("::") { add_mod(m, Some(t), &mut names, &mut byvalue); }
    }
    (names, byvalue)
}

fn gen_type_ref(r: &mut Rng, names: &[String]) -> String {
    if names.is_empty() || r.chance(30) {
        return match r.below(4) { 0 => "u32".into(), 1 => "i32".into(), 2 => "[bool; 4]".into(), _ => "*mut f32".into() };
    }
    let n = if r.chance(3) { r.pick(TYPES).to_string() } else { r.pick(names).clone() };
    match r.below(4) { 0 => format!("*mut {n}"), 1 => format!("[*const {n}; 2]"), 2 => format!("*const *const {n}"), _ => format!("*const {n}") }
}

fn gen_module(r: &mut Rng, me: &str, decls_of: &BTreeMap<String, Vec<Decl>>, all_mods: &[String]) -> Module {
    let decls = decls_of[me].clone();
    let mut s = String::new();
    let mut uses = vec![];
    if r.chance(30) { s += "#![doc = \"module doc\"]\n"; }
    for _ in 0..r.below(4) {
        let m = r.pick(all_mods).clone();
        if r.chance(50) { uses.push(modpath(&m)); } else {
            let ds = &decls_of[&m];
            let t = if ds.is_empty() || r.chance(15) { r.pick(TYPES).to_string() } else { let d = r.pick(ds); if d.vft && r.chance(30) { format!("{}Vftable", d.name) } else { d.name.clone() } };
            uses.push(format!("{}::{}", modpath(&m), t));
        }
    }
    for u in &uses { s += &format!("use {};\n", u); }
    let (names, foreign_byvalue) = scope_names(decls_of, me, &uses);
    // resolving by-value names is subject to shadowing; the build decides. Local by-value: earlier decls.
    let mut local_byvalue: Vec<(String, u8)> = vec![];
    for d in &decls {
        let name = &d.name;
        match d.kind {
            2 => { s += &format!("#[size(8), align(4)]\nextern type {};\n", name); }
            1 => { s += &format!("#[copyable, defaultable]\npub enum {}: u32 {{ #[default] X = 1, Y, Z = 7 }}\n", name); }
            _ => {
                let mut attrs = vec![];
                if r.chance(20) { attrs.push("copyable"); }
                if r.chance(10) { attrs.push("packed"); }
                if !attrs.is_empty() { s += &format!("#[{}]\n", attrs.join(", ")); }
                if r.chance(20) { s += "#[doc = \"a type\"]\n"; }
                s += &format!("{}type {} {{\n", if r.chance(70) {"pub "} else {""}, name);
                if d.vft {
                    s += "    vftable {\n";
                    for k in 0..r.below(3) {
                        s += &format!("        pub fn vf{}_{}(&self, a: {}) -> {};\n", k, name.trim_start_matches("r#"), gen_type_ref(r, &names), gen_type_ref(r, &names));
                    }
                    s += "    },\n";
                }
                let byv: Vec<&(String, u8)> = local_byvalue.iter().chain(foreign_byvalue.iter()).collect();
                let mut nbase = 0;
                while r.chance(30) && nbase < 2 {
                    let cands: Vec<&&(String, u8)> = byv.iter().filter(|b| b.1 != 1).collect();
                    if cands.is_empty() { break; }
                    s += &format!("    #[base]\n    pub base{}: {},\n", nbase, r.pick(&cands).0);
                    nbase += 1;
                }
                for k in 0..r.below(4) {
                    let t = if r.chance(25) && !byv.is_empty() { r.pick(&byv).0.clone() } else { gen_type_ref(r, &names) };
                    s += &format!("    pub f{}: {},\n", k, t);
                }
                s += "}\n";
                if r.chance(40) {
                    s += &format!("impl {} {{\n    #[address(0x100)]\n    pub fn m_{}(&self, a: {}) -> {};\n}}\n", name, name.trim_start_matches("r#"), gen_type_ref(r, &names), gen_type_ref(r, &names));
                }
            }
        }
        local_byvalue.push((name.clone(), d.kind));
    }
    if r.chance(25) { s += &format!("#[address(0x2000)]\npub extern gv: {};\n", gen_type_ref(r, &names)); }
    if r.chance(15) { s += "backend rust prologue r#\"use std::ffi::c_void;\"#;\n"; }
    Module { decls, uses, text: s }
}

fn write_set(dir: &Path, set: &Set) {
    let _ = std::fs::remove_dir_all(dir);
    std::fs::create_dir_all(dir).unwrap();
    for (m, module) in set {
        let p = dir.join(format!("{}.pyxis", m));
        std::fs::create_dir_all(p.parent().unwrap()).unwrap();
        std::fs::write(p, &module.text).unwrap();
    }
}

fn related(set: &Set, observed: &str) -> BTreeSet<String> {
    let mut rel = BTreeSet::new();
    let mut todo = vec![modpath(observed)];
    while let Some(m) = todo.pop() {
        if !rel.insert(m.clone()) { continue; }
        let stem = m.replace("::", "/");
        if let Some(module) = set.get(&stem) {
            for u in &module.uses {
                let segs: Vec<&str> = u.split("::").collect();
                for n in 1..=segs.len() { todo.push(segs[..n].join("::")); }
            }
        }
    }
    rel
}

fn build(dir: &Path, out: &Path) -> Result<(), String> {
    let _ = std::fs::remove_dir_all(out);
    std::fs::create_dir_all(out).unwrap();
    pyxis::build(dir, out, 4).map_err(|e| format!("{e:#}"))
}

fn main() {
    let seed: u64 = std::env::args().nth(1).map(|s| s.parse().unwrap()).unwrap_or(1);
    let iters: usize = std::env::args().nth(2).map(|s| s.parse().unwrap()).unwrap_or(1000);
    let base: PathBuf = std::env::temp_dir().join(format!("hunt_fuzz_{}", seed));
    let mut r = Rng(seed.wrapping_mul(0x9E3779B97F4A7C15) | 1);
    let (mut accepted, mut pairs, mut diffs) = (0, 0, 0);
    for it in 0..iters {
        let n = 2 + r.below(6);
        let mut mods: Vec<&str> = MODS.to_vec();
        let mut chosen: Vec<String> = vec![];
        for _ in 0..n { let i = r.below(mods.len()); chosen.push(mods.remove(i).to_string()); }
        let mut decls_of: BTreeMap<String, Vec<Decl>> = BTreeMap::new();
        for m in &chosen { decls_of.insert(m.clone(), gen_decls(&mut r)); }
        let mut set: Set = BTreeMap::new();
        for m in &chosen { let g = gen_module(&mut r, m, &decls_of, &chosen); set.insert(m.clone(), g); }
        let (da, oa) = (base.join("A"), base.join("oA"));
        write_set(&da, &set);
        if let Err(e) = build(&da, &oa) { if std::env::var("SHOWERR").is_ok() { println!("ERR {}", e.lines().last().unwrap_or("")); } continue; }
        accepted += 1;
        for observed in &chosen {
            let rel = related(&set, observed);
            for _try in 0..8 {
                let mut set_b = set.clone();
                let mut decls_b = decls_of.clone();
                let mut regen = vec![];
                for m in MODS {
                    if rel.contains(&modpath(m)) { continue; }
                    match r.below(4) {
                        0 => { set_b.remove(*m); decls_b.remove(*m); }
                        1 => { decls_b.insert(m.to_string(), gen_decls(&mut r)); regen.push(m.to_string()); }
                        _ => {}
                    }
                }
                let all: Vec<String> = decls_b.keys().cloned().collect();
                for m in regen { let g = gen_module(&mut r, &m, &decls_b, &all); set_b.insert(m, g); }
                if set_b == set { continue; }
                if related(&set_b, observed) != rel { continue; }
                let (db, ob) = (base.join("B"), base.join("oB"));
                write_set(&db, &set_b);
                if build(&db, &ob).is_err() { continue; }
                pairs += 1;
                let f = format!("{}.rs", observed);
                let (x, y) = (std::fs::read(oa.join(&f)).ok(), std::fs::read(ob.join(&f)).ok());
                if x != y || x.is_none() {
                    diffs += 1;
                    let keep = base.join(format!("diff_{}_{}", it, diffs));
                    write_set(&keep.join("A"), &set); write_set(&keep.join("B"), &set_b);
                    println!("DIFF observed={} kept in {}", observed, keep.display());
                }
            }
        }
    }
    println!("seed {seed}: accepted {accepted}/{iters}, pairs {pairs}, diffs {diffs}");
}
