// C19 finding 1: two different input files are silently folded into ONE module, so adding a
// file that the observed module neither imports nor references rewrites the observed
// module's output file.
//
// `ItemPath::from_path` turns a relative file path into a module path with
// `Path::with_extension("")` + `to_string_lossy()`.  Both steps lose information:
//
//   (a) non-UTF-8 file names (perfectly legal on Linux, e.g. Latin-1 `caf\xe9.pyxis` and
//       `caf\xe8.pyxis`) all become `caf\u{FFFD}`;
//   (b) `d/..pyxis` and `d/...pyxis` both become `d::..`.
//
// `SemanticState::add_module` then does `self.modules.insert(path, Module::new(..))`, which
// replaces the module that was registered first, while the types of BOTH files stay in the type
// registry under the shared module path.  Nothing is reported; `pyxis::build` returns `Ok`.
//
// Exits 0 if the observed module's output is byte-identical in both builds (what C19
// promises), non-zero otherwise.
use std::{
    ffi::OsStr,
    fs,
    os::unix::ffi::OsStrExt,
    path::{Path, PathBuf},
};

fn build(name: &str, files: &[(&[u8], &str)]) -> PathBuf {
    let root = std::env::temp_dir().join(format!("pyxis_c19_f1_{}_{}", std::process::id(), name));
    let _ = fs::remove_dir_all(&root);
    let in_dir = root.join("in");
    let out_dir = root.join("out");
    fs::create_dir_all(&in_dir).unwrap();
    fs::create_dir_all(&out_dir).unwrap();
    for (p, c) in files {
        let p = in_dir.join(Path::new(OsStr::from_bytes(p)));
        fs::create_dir_all(p.parent().unwrap()).unwrap();
        fs::write(p, c).unwrap();
    }
    pyxis::build(&in_dir, &out_dir, 4).unwrap_or_else(|e| panic!("set `{name}` must be accepted: {e:#}"));
    out_dir
}

fn main() {
    // The observed module: no `use`, only built-in types. Nothing is reachable from it.
    let observed = "pub type Foo {\n    x: u32,\n}\n";
    // An unrelated module. It does not mention the observed module either.
    let unrelated = "pub type Bar {\n    vftable {\n        pub fn f(a: u32);\n    },\n    y: u32,\n}\n";
    // Another unrelated module, without a vftable.
    let unrelated_plain = "pub type Baz {\n    z: u64,\n}\n";

    let mut failures = 0;

    // ---- (a) non-UTF-8 names -------------------------------------------------------------
    // observed file: caf\xe9.pyxis   -> module `caf\u{FFFD}` -> out/caf\u{FFFD}.rs
    let out_name = "caf\u{FFFD}.rs";
    let base = build("a_base", &[(b"caf\xe9.pyxis", observed)]);
    // `caf\xe8.pyxis` sorts BEFORE the observed file: its module object is replaced by the
    // observed one, but its generated `BarVftable` is registered into the observed module.
    let before = build("a_before", &[(b"caf\xe9.pyxis", observed), (b"caf\xe8.pyxis", unrelated)]);
    // `caf\xea.pyxis` sorts AFTER the observed file: it replaces the observed module object, so
    // the observed module's output file now holds the *other* file's items and loses `Foo`.
    let after = build("a_after", &[(b"caf\xe9.pyxis", observed), (b"caf\xea.pyxis", unrelated_plain)]);

    let o_base = fs::read(base.join(out_name)).unwrap();
    let o_before = fs::read(before.join(out_name)).unwrap();
    let o_after = fs::read(after.join(out_name)).unwrap();
    if o_base != o_before {
        failures += 1;
        println!("(a1) VIOLATION: adding caf\\xe8.pyxis changed the output of caf\\xe9.pyxis:");
        println!("     now contains BarVftable: {}", String::from_utf8_lossy(&o_before).contains("struct BarVftable"));
        println!("     ... but not Bar itself : {}", !String::from_utf8_lossy(&o_before).contains("struct Bar {"));
    }
    if o_base != o_after {
        failures += 1;
        println!("(a2) VIOLATION: adding caf\\xea.pyxis changed the output of caf\\xe9.pyxis:");
        println!("     still contains Foo: {}", String::from_utf8_lossy(&o_after).contains("struct Foo"));
        println!("     contains Baz      : {}", String::from_utf8_lossy(&o_after).contains("struct Baz"));
    }

    // ---- (b) `..pyxis` / `...pyxis` (valid UTF-8 names) -----------------------------------
    // observed file: d/..pyxis -> module `d::..` -> out/d/...rs
    let base = build("b_base", &[(b"d/..pyxis", observed)]);
    let plus = build("b_plus", &[(b"d/..pyxis", observed), (b"d/...pyxis", unrelated)]);
    let o_base = fs::read(base.join("d/...rs")).unwrap();
    let o_plus = fs::read(plus.join("d/...rs")).unwrap();
    if o_base != o_plus {
        failures += 1;
        println!("(b)  VIOLATION: adding d/...pyxis changed the output of d/..pyxis:");
        println!("     now contains BarVftable: {}", String::from_utf8_lossy(&o_plus).contains("struct BarVftable"));
    }

    if failures > 0 {
        println!("{failures} violation(s) of C19");
        std::process::exit(1);
    }
    println!("ok: outputs identical");
}
