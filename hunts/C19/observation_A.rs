// Hypothesis A: `use a::B` names the module a::B (file a/B.pyxis). Module `a` (a.pyxis) is not
// imported by X. Giving `a` a type `B` (or a type `T` whose generated vftable is `a::TVftable`)
// turns X's import into a type import.
use std::{fs, path::PathBuf};

fn build(name: &str, files: &[(&str, &str)]) -> (anyhow::Result<()>, PathBuf) {
    let root = std::env::temp_dir().join(format!("hunt_c19_3_{}_{}", std::process::id(), name));
    let _ = fs::remove_dir_all(&root);
    let in_dir = root.join("in");
    let out_dir = root.join("out");
    fs::create_dir_all(&in_dir).unwrap();
    fs::create_dir_all(&out_dir).unwrap();
    for (p, c) in files {
        let p = in_dir.join(p);
        fs::create_dir_all(p.parent().unwrap()).unwrap();
        fs::write(p, c).unwrap();
    }
    (pyxis::build(&in_dir, &out_dir, 4), out_dir)
}

fn main() {
    let x = "use a::B;\nuse c;\npub type X { p: *const Foo }\n";
    let ab = "pub type Foo { v: u32 }\n";
    let c = "pub type Foo { w: u64 }\n";
    let a1 = "pub type Other { v: u32 }\n";
    let a2 = "pub type Other { v: u32 }\npub type B { v: u32 }\n";
    let (r1, o1) = build("1", &[("x.pyxis", x), ("a/B.pyxis", ab), ("c.pyxis", c), ("a.pyxis", a1)]);
    let (r2, o2) = build("2", &[("x.pyxis", x), ("a/B.pyxis", ab), ("c.pyxis", c), ("a.pyxis", a2)]);
    println!("{r1:?} {r2:?}");
    let f1 = fs::read_to_string(o1.join("x.rs")).unwrap();
    let f2 = fs::read_to_string(o2.join("x.rs")).unwrap();
    println!("same={}", f1 == f2);
    for l in f1.lines().chain(f2.lines()).filter(|l| l.contains("p:")) {
        println!("{l}");
    }
}
