// Randomised differential test for C19: build a random accepted input set, change things
// that are unreachable from an observed module, build again, compare the observed output.
use std::{
    collections::{BTreeMap, BTreeSet},
    fs,
    path::{Path, PathBuf},
};

struct Rng(u64);
impl Rng {
    fn next(&mut self) -> u64 {
        self.0 ^= self.0 >> 12;
        self.0 ^= self.0 << 25;
        self.0 ^= self.0 >> 27;
        self.0.wrapping_mul(0x2545F4914F6CDD1D)
    }
    fn below(&mut self, n: usize) -> usize {
        (self.next() % n as u64) as usize
    }
    fn chance(&mut self, pct: usize) -> bool {
        self.below(100) < pct
    }
    fn pick<'a, T>(&mut self, v: &'a [T]) -> &'a T {
        &v[self.below(v.len())]
    }
}

#[derive(Clone, Debug)]
struct TypeSkel {
    name: String,
    kind: u8, // 0 type, 1 enum, 2 extern
    has_vftable: bool,
    order: usize, // global order for by-value embedding
}

#[derive(Clone, Debug)]
struct ModSkel {
    path: Vec<String>, // module path segments
    uses: Vec<Vec<String>>,
    types: Vec<TypeSkel>,
}

const MOD_POOL: &[&str] = &[
    "ma", "mb", "mc", "md", "sub/me", "sub/mf", "ma/inner", "ma/T0", "mb/T1", "sub/me/deep", "T2",
];
const TYPE_POOL: &[&str] = &["T0", "T1", "T2", "T3", "T4", "T5", "r#type", "inner"];
const BUILTINS: &[&str] = &["u8", "u16", "u32", "u64", "i32", "f32", "bool"];

fn gen_skel(rng: &mut Rng, path: &str, all_paths: &[&str], order: &mut usize, fresh_prefix: &str) -> ModSkel {
    let path: Vec<String> = path.split('/').map(|s| s.to_string()).collect();
    let mut types = vec![];
    let n = rng.below(4);
    let mut used = BTreeSet::new();
    for _ in 0..n {
        let name = if fresh_prefix.is_empty() {
            rng.pick(TYPE_POOL).to_string()
        } else {
            format!("{fresh_prefix}{}", rng.below(5))
        };
        if !used.insert(name.clone()) {
            continue;
        }
        let kind = match rng.below(10) {
            0..=6 => 0,
            7..=8 => 1,
            _ => 2,
        };
        *order += 1;
        types.push(TypeSkel {
            name,
            kind,
            has_vftable: kind == 0 && rng.chance(40),
            order: *order,
        });
    }
    // no type may be called like another's generated vftable; fine with this pool
    let mut uses = vec![];
    for _ in 0..rng.below(4) {
        if all_paths.is_empty() {
            break;
        }
        let target = rng.pick(all_paths);
        let mut p: Vec<String> = target.split('/').map(|s| s.to_string()).collect();
        if rng.chance(35) {
            p.push(rng.pick(TYPE_POOL).to_string());
            if rng.chance(20) {
                let l = p.len() - 1;
                p[l] = format!("{}Vftable", p[l]);
            }
        }
        uses.push(p);
    }
    ModSkel { path, uses, types }
}

/// Names visible in module `m` (loosely): own types, types of imported modules, imported types.
fn visible(m: &ModSkel, all: &BTreeMap<Vec<String>, ModSkel>) -> Vec<(String, TypeSkel)> {
    let mut out = vec![];
    for t in &m.types {
        out.push((t.name.clone(), t.clone()));
    }
    for u in &m.uses {
        if let Some(other) = all.get(u) {
            for t in &other.types {
                out.push((t.name.clone(), t.clone()));
            }
        }
        if u.len() > 1 {
            if let Some(other) = all.get(&u[..u.len() - 1].to_vec()) {
                for t in &other.types {
                    if &t.name == u.last().unwrap() {
                        out.push((t.name.clone(), t.clone()));
                    }
                }
            }
        }
    }
    out
}

fn gen_type_ref(rng: &mut Rng, vis: &[(String, TypeSkel)], max_order: usize, by_value_ok: bool) -> String {
    let r = rng.below(100);
    if vis.is_empty() || r < 25 {
        return rng.pick(BUILTINS).to_string();
    }
    let (name, skel) = rng.pick(vis);
    if r < 60 {
        let m = if rng.chance(50) { "mut" } else { "const" };
        if skel.has_vftable && rng.chance(30) {
            return format!("*{m} {name}Vftable");
        }
        return format!("*{m} {name}");
    }
    if by_value_ok && skel.order < max_order {
        if r < 75 {
            return format!("[{name}; {}]", rng.below(3));
        }
        if skel.has_vftable && r < 80 {
            return format!("{name}Vftable");
        }
        return name.clone();
    }
    format!("*const {name}")
}

fn gen_fn(rng: &mut Rng, vis: &[(String, TypeSkel)], idx: usize, vfunc: bool) -> String {
    let mut s = String::new();
    if !vfunc {
        s += &format!("#[address({})] ", 0x1000 + idx * 16);
    }
    if rng.chance(70) {
        s += "pub ";
    }
    s += &format!("fn f{idx}(");
    let mut args = vec![];
    match rng.below(3) {
        0 => args.push("&self".to_string()),
        1 => args.push("&mut self".to_string()),
        _ => {
            if vfunc {
                args.push("&self".to_string())
            }
        }
    }
    for a in 0..rng.below(3) {
        args.push(format!("a{a}: {}", gen_type_ref(rng, vis, 0, false)));
    }
    s += &args.join(", ");
    s += ")";
    if rng.chance(40) {
        s += &format!(" -> {}", gen_type_ref(rng, vis, 0, false));
    }
    s
}

fn gen_body(rng: &mut Rng, m: &ModSkel, all: &BTreeMap<Vec<String>, ModSkel>) -> String {
    let vis = visible(m, all);
    let mut s = String::new();
    if rng.chance(20) {
        s += "#![doc = \"module doc\"]\n";
    }
    for u in &m.uses {
        s += &format!("use {};\n", u.join("::"));
    }
    for t in &m.types {
        match t.kind {
            2 => {
                s += &format!("#[size({}), align(4)]\nextern type {};\n", 4 * (1 + rng.below(3)), t.name);
            }
            1 => {
                let base = rng.pick(&["u8", "u16", "u32", "i32"]);
                let copy = if rng.chance(50) { "#[copyable]\n" } else { "" };
                s += &format!("{copy}pub enum {}: {base} {{ A = 1, B, C = 7 }}\n", t.name);
            }
            _ => {
                let mut attrs: Vec<&str> = vec![];
                if rng.chance(20) {
                    attrs.push("cloneable");
                }
                if rng.chance(10) {
                    attrs.push("packed");
                }
                if !attrs.is_empty() {
                    s += &format!("#[{}]\n", attrs.join(", "));
                }
                if rng.chance(80) {
                    s += "pub ";
                }
                s += &format!("type {} {{\n", t.name);
                if t.has_vftable {
                    s += "    vftable {\n";
                    for i in 0..rng.below(3) {
                        s += &format!("        {};\n", gen_fn(rng, &vis, i, true));
                    }
                    s += "    },\n";
                }
                let nf = rng.below(4);
                for i in 0..nf {
                    // a base, sometimes
                    let cands: Vec<_> = vis.iter().filter(|(_, k)| k.kind == 0 && k.order < t.order).collect();
                    if i == 0 && !cands.is_empty() && rng.chance(30) {
                        let (n, _) = rng.pick(&cands);
                        s += &format!("    #[base] pub base: {n},\n");
                        continue;
                    }
                    let ty = gen_type_ref(rng, &vis, t.order, true);
                    // keep alignment happy: pad types are risky, so allow rejection
                    s += &format!("    pub x{i}: {ty},\n");
                }
                s += "}\n";
                if rng.chance(30) {
                    s += &format!("impl {} {{\n", t.name);
                    for i in 0..1 + rng.below(2) {
                        s += &format!("    {};\n", gen_fn(rng, &vis, 10 + i, false));
                    }
                    s += "}\n";
                }
            }
        }
    }
    if rng.chance(25) {
        let ty = gen_type_ref(rng, &vis, usize::MAX, true);
        s += &format!("#[address(0x1234)]\npub extern gv: {ty};\n");
    }
    if rng.chance(15) {
        s += "backend rust prologue r#\"use std::fmt;\"#;\n";
    }
    s
}

fn closure(x: &Vec<String>, all: &BTreeMap<Vec<String>, ModSkel>) -> BTreeSet<Vec<String>> {
    let mut seen = BTreeSet::new();
    let mut todo = vec![x.clone()];
    while let Some(p) = todo.pop() {
        if !seen.insert(p.clone()) {
            continue;
        }
        let Some(m) = all.get(&p) else { continue };
        for u in &m.uses {
            todo.push(u.clone());
            if u.len() > 1 {
                todo.push(u[..u.len() - 1].to_vec());
                // `use a::TVftable` names the vftable of a::T: same module, already covered
            }
        }
    }
    seen
}

fn write_set(dir: &Path, files: &BTreeMap<Vec<String>, String>) {
    let _ = fs::remove_dir_all(dir);
    fs::create_dir_all(dir).unwrap();
    for (p, c) in files {
        let mut f = dir.to_path_buf();
        for s in p {
            f.push(s);
        }
        let f = PathBuf::from(format!("{}.pyxis", f.display()));
        fs::create_dir_all(f.parent().unwrap()).unwrap();
        fs::write(f, c).unwrap();
    }
}

fn out_file(out: &Path, p: &Vec<String>) -> PathBuf {
    let mut f = out.to_path_buf();
    for s in p {
        f.push(s);
    }
    PathBuf::from(format!("{}.rs", f.display()))
}

fn main() {
    let seed: u64 = std::env::args().nth(1).and_then(|s| s.parse().ok()).unwrap_or(1);
    let iters: usize = std::env::args().nth(2).and_then(|s| s.parse().ok()).unwrap_or(500);
    std::panic::set_hook(Box::new(|_| {}));
    let root = std::env::temp_dir().join(format!("hunt_c19_fuzz_{}", std::process::id()));
    let mut rng = Rng(seed.wrapping_mul(0x9E3779B97F4A7C15) | 1);
    let (mut accepted1, mut compared, mut diffs) = (0, 0, 0);
    for it in 0..iters {
        // --- set 1
        let nmods = 2 + rng.below(6);
        let mut paths: Vec<&str> = vec![];
        while paths.len() < nmods {
            let p = *rng.pick(MOD_POOL);
            if !paths.contains(&p) {
                paths.push(p);
            }
        }
        let mut order = 0;
        let mut skels: BTreeMap<Vec<String>, ModSkel> = BTreeMap::new();
        for p in &paths {
            let s = gen_skel(&mut rng, p, &paths, &mut order, "");
            skels.insert(s.path.clone(), s);
        }
        let mut files1: BTreeMap<Vec<String>, String> = BTreeMap::new();
        for (p, m) in &skels {
            files1.insert(p.clone(), gen_body(&mut rng, m, &skels));
        }
        let in1 = root.join("in1");
        let out1 = root.join("out1");
        write_set(&in1, &files1);
        let _ = fs::remove_dir_all(&out1);
        fs::create_dir_all(&out1).unwrap();
        let r1 = std::panic::catch_unwind(|| pyxis::build(&in1, &out1, 4));
        if !matches!(r1, Ok(Ok(()))) {
            if std::env::var("REASONS").is_ok() {
                if let Ok(Err(e)) = &r1 { println!("REJ: {}", format!("{e:#}").lines().next().unwrap_or("").chars().take(110).collect::<String>()); } else { println!("REJ: panic"); }
            }
            continue;
        }
        accepted1 += 1;
        if std::env::var("DUMP").is_ok() && accepted1 % 40 == 1 {
            for (p, c) in &files1 { println!("=== {}\n{}", p.join("/"), c); }
        }

        // --- several mutations of set 1
        for _ in 0..4 {
            let keys: Vec<_> = skels.keys().cloned().collect();
            let x = rng.pick(&keys).clone();
            let cl = closure(&x, &skels);
            let mut skels2 = skels.clone();
            let mut files2 = files1.clone();
            let mut changed = false;
            // (a) delete / regenerate unrelated modules
            let mut regen = vec![];
            for k in &keys {
                if cl.contains(k) {
                    continue;
                }
                match rng.below(3) {
                    0 => {
                        skels2.remove(k);
                        files2.remove(k);
                        changed = true;
                    }
                    1 => regen.push(k.clone()),
                    _ => {}
                }
            }
            let all_paths2: Vec<String> = skels2.keys().map(|k| k.join("/")).collect();
            let all_paths2_ref: Vec<&str> = all_paths2.iter().map(|s| s.as_str()).collect();
            for k in regen {
                let mut s = gen_skel(&mut rng, &k.join("/"), &all_paths2_ref, &mut order, "");
                s.path = k.clone();
                skels2.insert(k.clone(), s);
                changed = true;
            }
            // (b) new modules with fresh paths (may use anything, including X)
            for i in 0..rng.below(3) {
                let base = ["zz", "ma/zz", "sub/zz", "zz/T0"][rng.below(4)];
                let p = format!("{base}{i}");
                let parent_ok = true;
                if parent_ok {
                    let mut ap = all_paths2_ref.clone();
                    ap.push(&p);
                    let s = gen_skel(&mut rng, &p, &ap, &mut order, "");
                    skels2.insert(s.path.clone(), s);
                    changed = true;
                }
            }
            for (k, m) in &skels2 {
                if !cl.contains(k) {
                    files2.insert(k.clone(), gen_body(&mut rng, m, &skels2));
                }
            }
            // (c) fresh-named types appended to reachable modules other than X
            for k in &cl {
                let selftest = std::env::var("SELFTEST").is_ok();
                if (k == &x) != selftest || !skels2.contains_key(k) || !rng.chance(50) {
                    continue;
                }
                let mut extra = skels2[k].clone();
                let fresh = gen_skel(&mut rng, &k.join("/"), &[], &mut order, "Zq");
                extra.types.extend(fresh.types.clone());
                // body only for the fresh types, with everything of the module visible
                let mut only = extra.clone();
                only.uses = vec![];
                let mut view = skels2.clone();
                view.insert(k.clone(), extra.clone());
                let mut only_fresh = only.clone();
                only_fresh.types = fresh.types.clone();
                // visible() works off `m.types`/`m.uses`; give it the module's uses for lookups
                only_fresh.uses = skels2[k].uses.clone();
                let mut body = gen_body(&mut rng, &only_fresh, &view);
                // strip the `use` lines and module doc that gen_body repeats
                body = body
                    .lines()
                    .filter(|l| !l.starts_with("use ") && !l.starts_with("#![") && !l.starts_with("backend ") )
                    .collect::<Vec<_>>()
                    .join("\n");
                // extern value name would clash
                let body = body.replace("pub extern gv:", "pub extern zq_gv:");
                let f = files2.get_mut(k).unwrap();
                f.push('\n');
                f.push_str(&body);
                f.push('\n');
                changed = true;
            }
            if !changed {
                continue;
            }
            let in2 = root.join("in2");
            let out2 = root.join("out2");
            write_set(&in2, &files2);
            let _ = fs::remove_dir_all(&out2);
            fs::create_dir_all(&out2).unwrap();
            let r2 = std::panic::catch_unwind(|| pyxis::build(&in2, &out2, 4));
            if !matches!(r2, Ok(Ok(()))) {
                continue;
            }
            compared += 1;
            let a = fs::read(out_file(&out1, &x)).unwrap();
            let b = fs::read(out_file(&out2, &x)).unwrap();
            if a != b {
                diffs += 1;
                let keep = root.join(format!("diff_{seed}_{it}"));
                let _ = fs::remove_dir_all(&keep);
                fs::create_dir_all(&keep).unwrap();
                copy_dir(&in1, &keep.join("in1"));
                copy_dir(&in2, &keep.join("in2"));
                copy_dir(&out1, &keep.join("out1"));
                copy_dir(&out2, &keep.join("out2"));
                println!("DIFF seed={seed} it={it} observed={} kept in {}", x.join("::"), keep.display());
            }
        }
    }
    println!("seed={seed} iters={iters} accepted1={accepted1} compared={compared} diffs={diffs}");
    if diffs == 0 {
        let _ = fs::remove_dir_all(&root);
    }
}

fn copy_dir(from: &Path, to: &Path) {
    fs::create_dir_all(to).unwrap();
    for e in fs::read_dir(from).unwrap() {
        let e = e.unwrap().path();
        let t = to.join(e.file_name().unwrap());
        if e.is_dir() {
            copy_dir(&e, &t);
        } else {
            fs::copy(&e, &t).unwrap();
        }
    }
}
