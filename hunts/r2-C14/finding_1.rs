//! C14 (a): an input module whose file name is not valid UTF-8 is accepted, but its output
//! file is NOT written at the mirrored relative path: every invalid byte of the name is
//! replaced by U+FFFD (`ItemPath::from_path` uses `to_string_lossy`).
//!
//! Exits 0 if the build is rejected, or if it is accepted and the output directory holds
//! exactly `a\xFF.rs`; exits 1 otherwise.
use std::ffi::{OsStr, OsString};
use std::os::unix::ffi::OsStrExt;
use std::path::{Path, PathBuf};

fn files(dir: &Path, base: &Path, out: &mut Vec<PathBuf>) {
    for e in std::fs::read_dir(dir).unwrap().flatten() {
        let p = e.path();
        if p.is_dir() {
            files(&p, base, out);
        } else {
            out.push(p.strip_prefix(base).unwrap().to_path_buf());
        }
    }
}

fn main() {
    let d = std::env::temp_dir().join(format!("c14_finding_1_{}", std::process::id()));
    let _ = std::fs::remove_dir_all(&d);
    let (i, o) = (d.join("in"), d.join("out"));
    std::fs::create_dir_all(&i).unwrap();
    std::fs::create_dir_all(&o).unwrap();

    // "a<0xFF>.pyxis": a legal file name on Linux, not valid UTF-8
    let input_name = OsStr::from_bytes(b"a\xff.pyxis");
    if let Err(e) = std::fs::write(i.join(input_name), "type T { x: u32 }") {
        println!("this file system does not take non-UTF-8 names ({e}); nothing to show");
        return;
    }

    let result = pyxis::build(&i, &o, 4);
    println!("build: {:?}", result.as_ref().map_err(|e| format!("{e:#}")));
    if result.is_err() {
        println!("rejected: fine");
        let _ = std::fs::remove_dir_all(&d);
        return;
    }

    let mut written = vec![];
    files(&o, &o, &mut written);
    println!("written: {written:?}");
    let expected: OsString = OsStr::from_bytes(b"a\xff.rs").to_os_string();
    let ok = written.len() == 1 && written[0].as_os_str() == expected;
    let _ = std::fs::remove_dir_all(&d);
    if !ok {
        println!(
            "VIOLATION: accepted, but the module `a\\xFF.pyxis` was not written to `a\\xFF.rs` (expected {expected:?})"
        );
        std::process::exit(1);
    }
    println!("ok");
}
