//! C14 (d): Rust identifiers are compared after NFC normalisation, pyxis compares the raw
//! spelling. `type é` written with U+00E9 and `type é` written as `e` + U+0301 are two
//! declarations of the same Rust item (`struct é`, `fn _é_size_check`); the same goes for two
//! extern values (`get_é`). The build is accepted and the module's file defines the item
//! twice (rustc: E0428 "the name `é` is defined multiple times").
//!
//! Exits 0 if both builds are rejected; exits 1 if one is accepted with both spellings emitted.
fn run(name: &str, source: &str, needles: [&str; 2]) -> bool {
    let d = std::env::temp_dir().join(format!("c14_finding_3_{name}_{}", std::process::id()));
    let _ = std::fs::remove_dir_all(&d);
    let (i, o) = (d.join("in"), d.join("out"));
    std::fs::create_dir_all(&i).unwrap();
    std::fs::create_dir_all(&o).unwrap();
    std::fs::write(i.join("m.pyxis"), source).unwrap();
    let result = pyxis::build(&i, &o, 4);
    println!("[{name}] build: {:?}", result.as_ref().map_err(|e| format!("{e:#}")));
    let mut violated = false;
    if result.is_ok() {
        let text = std::fs::read_to_string(o.join("m.rs")).unwrap();
        // prettyplease prints `struct <name> {` / `fn <name>(`
        if needles.iter().all(|n| text.contains(n)) {
            println!(
                "[{name}] VIOLATION: accepted, and m.rs contains both {:?} and {:?}: one Rust item, defined twice",
                needles[0], needles[1]
            );
            violated = true;
            // Extra evidence, if a rustc is around (not needed for the verdict)
            std::fs::write(o.join("lib.rs"), "mod m;\n").unwrap();
            if let Ok(out) = std::process::Command::new("rustc")
                .args(["--edition", "2021", "--crate-type", "lib", "--emit=metadata", "-o"])
                .arg(d.join("lib.rmeta"))
                .arg(o.join("lib.rs"))
                .output()
            {
                for line in String::from_utf8_lossy(&out.stderr).lines() {
                    if line.starts_with("error[E0428]") {
                        println!("[{name}]   rustc: {line}");
                    }
                }
            }
        }
    }
    let _ = std::fs::remove_dir_all(&d);
    violated
}

fn main() {
    let nfc = "\u{e9}";
    let nfd = "e\u{301}";
    let a = run(
        "types",
        &format!("type {nfc} {{ x: u32 }}\ntype {nfd} {{ y: u32 }}\n"),
        [&format!("struct {nfc} {{"), &format!("struct {nfd} {{")],
    );
    let b = run(
        "extern_values",
        &format!(
            "#[address(0x10)] pub extern {nfc}: u32;\n#[address(0x20)] pub extern {nfd}: u32;\n"
        ),
        [&format!("fn get_{nfc}("), &format!("fn get_{nfd}(")],
    );
    if a || b {
        std::process::exit(1);
    }
    println!("ok");
}
