//! C14 (c), low severity: a rust prologue is not always "unchanged up to formatting". The
//! formatter turns `#[doc = "a\rb"]` (an escape, valid Rust) into the comment `///a<CR>b`
//! with a bare carriage return, which is not valid Rust ("bare CR not allowed in
//! doc-comment"); the generated text is checked before it is formatted, not after, so the
//! build is accepted and m.rs no longer even lexes.
//!
//! Exits 0 if the build is rejected, or the output parses and still carries the prologue's
//! item with the same doc string; 1 otherwise.
fn main() {
    let d = std::env::temp_dir().join(format!("c14_finding_5_{}", std::process::id()));
    let _ = std::fs::remove_dir_all(&d);
    let (i, o) = (d.join("in"), d.join("out"));
    std::fs::create_dir_all(&i).unwrap();
    std::fs::create_dir_all(&o).unwrap();
    let prologue = r#"#[doc = "a\rb"] pub fn from_prologue() {}"#;
    assert!(syn::parse_file(prologue).is_ok(), "the prologue is valid Rust");
    std::fs::write(
        i.join("m.pyxis"),
        format!("backend rust prologue r##\"{prologue}\"##;\ntype T {{ x: u32 }}\n"),
    )
    .unwrap();

    let result = pyxis::build(&i, &o, 4);
    println!("build: {:?}", result.as_ref().map_err(|e| format!("{e:#}")));
    if result.is_err() {
        println!("rejected: fine");
        let _ = std::fs::remove_dir_all(&d);
        return;
    }
    let text = std::fs::read_to_string(o.join("m.rs")).unwrap();
    let _ = std::fs::remove_dir_all(&d);
    match syn::parse_file(&text) {
        Err(e) => {
            println!("VIOLATION: accepted, but m.rs is not Rust any more ({e}):\n{text:?}");
            std::process::exit(1);
        }
        Ok(file) => {
            let kept = file.items.iter().any(|item| match item {
                syn::Item::Fn(f) if f.sig.ident == "from_prologue" => f.attrs.iter().any(|a| {
                    matches!(&a.meta, syn::Meta::NameValue(nv)
                        if matches!(&nv.value, syn::Expr::Lit(syn::ExprLit { lit: syn::Lit::Str(s), .. }) if s.value() == "a\rb"))
                }),
                _ => false,
            });
            if !kept {
                println!("VIOLATION: accepted, but the prologue item lost its doc string:\n{text}");
                std::process::exit(1);
            }
        }
    }
    println!("ok");
}
