//! C14 (d)/(b): a type with a keyword name (`r#type`) that declares a vftable block gets the
//! generated struct `r#typeVftable`, which in Rust is the identifier `typeVftable`. A user
//! type `typeVftable` in the same module is not recognised as colliding (the reservation is
//! made for the path `m::r#typeVftable`, the user type is `m::typeVftable`), the build is
//! accepted and m.rs defines `typeVftable` twice (and `_typeVftable_size_check` twice).
//!
//! Exits 0 if the build is rejected or no Rust item name is defined twice; 1 otherwise.
use std::collections::HashMap;

fn item_name(item: &syn::Item) -> Option<(String, &'static str)> {
    let unraw = |i: &syn::Ident| {
        let s = i.to_string();
        s.strip_prefix("r#").unwrap_or(&s).to_string()
    };
    match item {
        syn::Item::Struct(s) => Some((unraw(&s.ident), "type")),
        syn::Item::Enum(s) => Some((unraw(&s.ident), "type")),
        syn::Item::Fn(s) => Some((unraw(&s.sig.ident), "value")),
        syn::Item::Const(s) => Some((unraw(&s.ident), "value")),
        _ => None,
    }
}

fn main() {
    let d = std::env::temp_dir().join(format!("c14_finding_2_{}", std::process::id()));
    let _ = std::fs::remove_dir_all(&d);
    let (i, o) = (d.join("in"), d.join("out"));
    std::fs::create_dir_all(&i).unwrap();
    std::fs::create_dir_all(&o).unwrap();
    std::fs::write(
        i.join("m.pyxis"),
        "type r#type { vftable { fn f(&self); } }\ntype typeVftable { x: u32 }\n",
    )
    .unwrap();

    let result = pyxis::build(&i, &o, 4);
    println!("build: {:?}", result.as_ref().map_err(|e| format!("{e:#}")));
    if result.is_err() {
        println!("rejected: fine");
        let _ = std::fs::remove_dir_all(&d);
        return;
    }
    let text = std::fs::read_to_string(o.join("m.rs")).unwrap();
    let file = syn::parse_file(&text).expect("m.rs parses");
    let mut counts: HashMap<(String, &'static str), usize> = HashMap::new();
    for item in &file.items {
        if let Some(key) = item_name(item) {
            *counts.entry(key).or_default() += 1;
        }
    }
    let mut dups: Vec<_> = counts.into_iter().filter(|(_, n)| *n > 1).collect();
    dups.sort();
    let _ = std::fs::remove_dir_all(&d);
    if !dups.is_empty() {
        println!("VIOLATION: accepted, and m.rs defines these names more than once: {dups:?}");
        std::process::exit(1);
    }
    println!("ok");
}
