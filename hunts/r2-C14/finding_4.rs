//! C14 (d), lower confidence (the items are generated helper constants, not declared types):
//! the `_CONFLICTING_<TYPE>_<FIELD PATH>` constants are named by upper-casing and joining
//! with `_`, so distinct declarations map to the same constant:
//!   1. types `Ab` and `AB` with the same ambiguous bases -> `_CONFLICTING_AB_M1_B` twice;
//!   2. inside ONE type, base paths `a_b.c` and `a.b_c`   -> `_CONFLICTING_T_A_B_C` twice.
//! Both builds are accepted; the module's file does not compile (E0428).
//!
//! Exits 0 if every build is rejected or no constant is defined twice; 1 otherwise.
use std::collections::HashMap;

fn run(name: &str, source: &str) -> bool {
    let d = std::env::temp_dir().join(format!("c14_finding_4_{name}_{}", std::process::id()));
    let _ = std::fs::remove_dir_all(&d);
    let (i, o) = (d.join("in"), d.join("out"));
    std::fs::create_dir_all(&i).unwrap();
    std::fs::create_dir_all(&o).unwrap();
    std::fs::write(i.join("m.pyxis"), source).unwrap();
    let result = pyxis::build(&i, &o, 4);
    println!("[{name}] build: {:?}", result.as_ref().map_err(|e| format!("{e:#}")));
    let mut violated = false;
    if result.is_ok() {
        let text = std::fs::read_to_string(o.join("m.rs")).unwrap();
        let file = syn::parse_file(&text).expect("m.rs parses");
        let mut counts: HashMap<String, usize> = HashMap::new();
        for item in &file.items {
            if let syn::Item::Const(c) = item {
                *counts.entry(c.ident.to_string()).or_default() += 1;
            }
        }
        let mut dups: Vec<_> = counts.into_iter().filter(|(_, n)| *n > 1).collect();
        dups.sort();
        if !dups.is_empty() {
            println!("[{name}] VIOLATION: accepted, constants defined more than once: {dups:?}");
            violated = true;
        }
    }
    let _ = std::fs::remove_dir_all(&d);
    violated
}

fn main() {
    let a = run(
        "case",
        "type Base { x: u32 }\n\
         type Mid1 { #[base] b: Base }\n\
         type Mid2 { #[base] b: Base }\n\
         type Ab { #[base] m1: Mid1, #[base] m2: Mid2 }\n\
         type AB { #[base] m1: Mid1, #[base] m2: Mid2 }\n",
    );
    let b = run(
        "underscore",
        "type Base { x: u32 }\n\
         type Mid1 { #[base] c: Base }\n\
         type Mid2 { #[base] b_c: Base }\n\
         type T { #[base] a_b: Mid1, #[base] a: Mid2 }\n",
    );
    if a || b {
        std::process::exit(1);
    }
    println!("ok");
}
