//! C14 (d): two declarations that produce the same Rust item are accepted silently when
//! their names differ only in Unicode normalisation.
//!
//! Rust identifiers are compared after NFC normalisation (RFC 2457), so `café` spelled with
//! U+00E9 and `café` spelled with `e` + U+0301 are ONE name: two structs (or two accessors,
//! or a user type and a generated vftable struct) spelled that way are the same item.
//! pyxis compares the raw spellings, accepts both and writes both into the module's file.
//!
//! Exits 0 when every colliding input is rejected, 1 when one of them is accepted.

use std::path::{Path, PathBuf};

const NFC: &str = "caf\u{e9}"; // é as one code point
const NFD: &str = "cafe\u{301}"; // e + combining acute accent

fn scratch(name: &str) -> PathBuf {
    let dir = std::env::temp_dir().join(format!("pyxis_finding_1_{}_{name}", std::process::id()));
    let _ = std::fs::remove_dir_all(&dir);
    std::fs::create_dir_all(dir.join("in")).unwrap();
    dir
}

/// Builds one module `m` with the given text; returns the text of `m.rs` if the build was accepted.
fn build(name: &str, text: &str) -> (PathBuf, Option<String>) {
    let dir = scratch(name);
    std::fs::write(dir.join("in/m.pyxis"), text).unwrap();
    let out = dir.join("out");
    match pyxis::build(&dir.join("in"), &out, 4) {
        Ok(()) => {
            let written = std::fs::read_to_string(out.join("m.rs")).expect("m.rs of an accepted build");
            (dir, Some(written))
        }
        Err(error) => {
            println!("  rejected: {error:#}");
            (dir, None)
        }
    }
}

/// What rustc has to say about the file (only to illustrate; the verdict does not depend on it).
fn ask_rustc(file: &Path) {
    let out = file.with_extension("rlib");
    if let Ok(output) = std::process::Command::new("rustc")
        .args(["--edition", "2021", "--crate-type", "lib", "-o"])
        .arg(&out)
        .arg(file)
        .output()
    {
        let stderr = String::from_utf8_lossy(&output.stderr);
        for line in stderr.lines().filter(|l| l.starts_with("error[E0428]")) {
            println!("  rustc: {line}");
        }
    }
}

fn lines_with(text: &str, needle: &str) -> usize {
    text.lines().filter(|l| l.contains(needle)).count()
}

fn main() {
    let mut violations = 0;

    // (1) the same type declared twice
    println!("two types called café (NFC and NFD spelling) in one module:");
    let (dir, written) = build(
        "types",
        &format!("type {NFC} {{ x: u32 }}\ntype {NFD} {{ y: u64 }}\n"),
    );
    if let Some(written) = written {
        // `struct café {` is written twice: once per spelling
        let structs = lines_with(&written, &format!("struct {NFC} {{")) + lines_with(&written, &format!("struct {NFD} {{"));
        println!("  ACCEPTED; `struct café` is emitted {structs} times in m.rs");
        ask_rustc(&dir.join("out/m.rs"));
        violations += 1;
    }

    // (2) a user type named like a generated vftable struct
    println!("type café (NFD) with a vftable block, and a user type caféVftable (NFC):");
    let (dir, written) = build(
        "vftable",
        &format!("type {NFD} {{ vftable {{ fn f(&self); }} }}\ntype {NFC}Vftable {{ y: u64 }}\n"),
    );
    if let Some(written) = written {
        let structs = lines_with(&written, &format!("struct {NFC}Vftable {{"))
            + lines_with(&written, &format!("struct {NFD}Vftable {{"));
        println!("  ACCEPTED; `struct caféVftable` is emitted {structs} times in m.rs");
        ask_rustc(&dir.join("out/m.rs"));
        violations += 1;
    }

    // (3) two extern values with one accessor name
    println!("two extern values called café (NFC and NFD spelling):");
    let (dir, written) = build(
        "externs",
        &format!("#[address(0x10)] extern {NFC}: u32;\n#[address(0x20)] extern {NFD}: u32;\n"),
    );
    if let Some(written) = written {
        let accessors = lines_with(&written, &format!("fn get_{NFC}(")) + lines_with(&written, &format!("fn get_{NFD}("));
        println!("  ACCEPTED; `fn get_café` is emitted {accessors} times in m.rs");
        ask_rustc(&dir.join("out/m.rs"));
        violations += 1;
    }

    // control: the same collisions spelled identically are rejected
    println!("control: two types called café, both NFC:");
    let (_, written) = build("control", &format!("type {NFC} {{ x: u32 }}\ntype {NFC} {{ y: u64 }}\n"));
    assert!(written.is_none(), "the control case must be rejected");

    if violations > 0 {
        println!("VIOLATION: {violations} colliding inputs were accepted");
        std::process::exit(1);
    }
    println!("ok: all colliding inputs were rejected");
}
