//! C14 (d): two type declarations that produce the same module-level item are accepted.
//!
//! A type whose hierarchy contains one base type more than once gets, instead of the
//! ambiguous `AsRef`/`AsMut` impls, a marker item at module level for every path to it:
//!     const _CONFLICTING_<TYPE NAME IN UPPER CASE>_<FIELD PATH IN UPPER CASE, JOINED BY _>: () = ();
//! The upper-casing and the joining lose information, so two different types of one module
//! (`Foo` and `FOO`; or `A` with the path `b_c.x` and `A_B` with the path `c.x`) are given the
//! SAME const. Both declarations are accepted and the module's file defines the const twice.
//!
//! Exits 0 when the build is rejected or no item of the written file is defined twice,
//! 1 when an item is defined twice.

use std::collections::HashMap;
use std::path::PathBuf;

fn scratch(name: &str) -> PathBuf {
    let dir = std::env::temp_dir().join(format!("pyxis_finding_2_{}_{name}", std::process::id()));
    let _ = std::fs::remove_dir_all(&dir);
    std::fs::create_dir_all(dir.join("in")).unwrap();
    dir
}

/// The names of the module-level items of `file` that are defined more than once
/// (types and values live in separate namespaces).
fn items_defined_twice(text: &str) -> Vec<String> {
    let file = syn::parse_file(text).expect("the written file is Rust");
    let mut seen: HashMap<(&'static str, String), usize> = HashMap::new();
    for item in &file.items {
        let key = match item {
            syn::Item::Struct(i) => ("type", i.ident.to_string()),
            syn::Item::Enum(i) => ("type", i.ident.to_string()),
            syn::Item::Fn(i) => ("value", i.sig.ident.to_string()),
            syn::Item::Const(i) => ("value", i.ident.to_string()),
            _ => continue,
        };
        *seen.entry(key).or_default() += 1;
    }
    let mut twice: Vec<String> = seen
        .into_iter()
        .filter(|(_, count)| *count > 1)
        .map(|((namespace, name), count)| format!("{namespace} `{name}` x{count}"))
        .collect();
    twice.sort();
    twice
}

fn check(name: &str, text: &str) -> bool {
    let dir = scratch(name);
    std::fs::write(dir.join("in/m.pyxis"), text).unwrap();
    let out = dir.join("out");
    match pyxis::build(&dir.join("in"), &out, 4) {
        Err(error) => {
            println!("  rejected: {error:#}");
            false
        }
        Ok(()) => {
            let written = std::fs::read_to_string(out.join("m.rs")).expect("m.rs of an accepted build");
            let twice = items_defined_twice(&written);
            if twice.is_empty() {
                println!("  accepted, every item of m.rs is defined once");
                false
            } else {
                println!("  ACCEPTED, but m.rs defines more than once: {}", twice.join(", "));
                true
            }
        }
    }
}

fn main() {
    let mut violations = 0;

    println!("types `Foo` and `FOO`, both with the base `Base` reachable over `l.base` and `r.base`:");
    violations += check(
        "case",
        "
        type Base { x: u32 }
        type L { #[base] base: Base }
        type R { #[base] base: Base }
        type Foo { #[base] l: L, #[base] r: R }
        type FOO { #[base] l: L, #[base] r: R }
        ",
    ) as usize;

    println!("types `A` (paths `b_c.base`, `r.base`) and `A_B` (paths `c.base`, `r.base`):");
    violations += check(
        "underscore",
        "
        type Base { x: u32 }
        type L { #[base] base: Base }
        type R { #[base] base: Base }
        type A   { #[base] b_c: L, #[base] r: R }
        type A_B { #[base] c: L,   #[base] r: R }
        ",
    ) as usize;

    println!("control: one such type alone:");
    let control = check(
        "control",
        "
        type Base { x: u32 }
        type L { #[base] base: Base }
        type R { #[base] base: Base }
        type Foo { #[base] l: L, #[base] r: R }
        ",
    );
    assert!(!control, "the control case has no duplicate");

    if violations > 0 {
        println!("VIOLATION: {violations} inputs were accepted although two declarations produce the same item");
        std::process::exit(1);
    }
    println!("ok");
}
