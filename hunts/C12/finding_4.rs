//! C12 finding 4: the `pointer_size` argument of `pyxis::build` / `SemanticState::new` is a numeric
//! position of the public API. With a boundary value (usize::MAX, or anything above usize::MAX / 2)
//! the size of a generated vftable type is computed with an unchecked `.sum()`
//! (src/semantic/type_definition/vftable.rs, `build_type`): "attempt to add with overflow".
//! Everywhere else sizes are added with `checked_add` and an error is returned.
//!
//! Exit 0: every call returned a value. Exit 1: a call panicked.
fn run(tag: &str, src: &str, pointer_size: usize) -> bool {
    let dir = std::env::temp_dir().join(format!("c12_f4_{}_{}", std::process::id(), tag));
    let _ = std::fs::remove_dir_all(&dir);
    std::fs::create_dir_all(dir.join("in")).unwrap();
    std::fs::create_dir_all(dir.join("out")).unwrap();
    std::fs::write(dir.join("in/a.pyxis"), src).unwrap();
    let r = std::panic::catch_unwind(|| pyxis::build(&dir.join("in"), &dir.join("out"), pointer_size));
    let _ = std::fs::remove_dir_all(&dir);
    match r {
        Ok(r) => {
            println!("[{tag}] pointer_size={pointer_size}: returned {}", if r.is_ok() { "Ok".to_string() } else { format!("Err({:#})", r.unwrap_err()) });
            true
        }
        Err(_) => {
            println!("[{tag}] pointer_size={pointer_size}: PANICKED");
            false
        }
    }
}

fn main() {
    let src = "type A { vftable { fn a(&self); fn b(&self); } }";
    let mut ok = true;
    // control: the same boundary value with an ordinary field is answered with an error
    ok &= run("control", "type A { a: *const u8, b: *const u8 }", usize::MAX);
    ok &= run("max", src, usize::MAX);
    ok &= run("half", src, usize::MAX / 2 + 1);
    if !ok {
        println!("VIOLATION: a boundary integer caused an arithmetic overflow panic");
        std::process::exit(1);
    }
    println!("no violation");
}
