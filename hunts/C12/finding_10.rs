//! C12 finding 10 (file-system layout, low priority): an entry called `*.pyxis` that is not a
//! regular file is opened and read like one. A FIFO blocks `read_to_string` forever (a link to
//! `/dev/zero` would instead be read until memory runs out -- not run here).
//!
//! Exit 0: `build` returns within 10 s. Exit 1: it hangs.
use std::time::Duration;

fn main() {
    let dir = std::env::temp_dir().join(format!("c12_f10_{}", std::process::id()));
    let _ = std::fs::remove_dir_all(&dir);
    std::fs::create_dir_all(dir.join("in")).unwrap();
    std::fs::create_dir_all(dir.join("out")).unwrap();
    let ok = std::process::Command::new("mkfifo").arg(dir.join("in/a.pyxis")).status().map(|s| s.success()).unwrap_or(false);
    if !ok {
        println!("mkfifo is not available; nothing tested");
        return;
    }
    let (tx, rx) = std::sync::mpsc::channel();
    let (i, o) = (dir.join("in"), dir.join("out"));
    std::thread::spawn(move || {
        let r = pyxis::build(&i, &o, 8);
        let _ = tx.send(r.map_err(|e| format!("{e:#}")));
    });
    let verdict = rx.recv_timeout(Duration::from_secs(10));
    let _ = std::fs::remove_dir_all(&dir);
    match verdict {
        Ok(r) => println!("returned {r:?}\nno violation"),
        Err(_) => {
            println!("VIOLATION: build() is still blocked on the FIFO after 10 s");
            std::process::exit(1);
        }
    }
}
