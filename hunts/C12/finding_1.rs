//! C12 finding 1: deeply nested types (a few KB of `*mut*mut*mut...` or `[[[[...`) overflow the
//! stack: the process is killed by SIGABRT ("has overflowed its stack") instead of returning.
//!
//! Each case runs in a child process (a stack overflow cannot be caught in-process).
//! Exit code 0: every child returned a result. Exit code 1: at least one child crashed.
use std::process::Command;

fn tmp(tag: &str) -> std::path::PathBuf {
    let dir = std::env::temp_dir().join(format!("c12_f1_{}_{}", std::process::id(), tag));
    let _ = std::fs::remove_dir_all(&dir);
    std::fs::create_dir_all(dir.join("in")).unwrap();
    std::fs::create_dir_all(dir.join("out")).unwrap();
    dir
}

fn source(kind: &str, n: usize) -> String {
    match kind {
        "ptr" => format!("type A {{ a: {} u8 }}", "*mut".repeat(n)),
        "arr" => format!("type A {{ a: {}u8{} }}", "[".repeat(n), ";1]".repeat(n)),
        "arg" => format!("type A {{ vftable {{ fn f(&self, a: {} u8); }} }}", "*const".repeat(n)),
        _ => unreachable!(),
    }
}

fn child(mode: &str, kind: &str, n: usize) {
    let src = source(kind, n);
    match mode {
        // the whole pipeline, on the main thread (8 MiB of stack)
        "build" => {
            let dir = tmp(kind);
            std::fs::write(dir.join("in/a.pyxis"), &src).unwrap();
            let r = pyxis::build(&dir.join("in"), &dir.join("out"), 8);
            let _ = std::fs::remove_dir_all(&dir);
            println!("result: {}", if r.is_ok() { "Ok" } else { "Err" });
        }
        // only `parse_str`, on a thread with the default stack size of spawned threads (2 MiB)
        "parse_thread" => {
            let h = std::thread::spawn(move || pyxis::parser::parse_str(&src).is_ok());
            println!("result: parsed={}", h.join().unwrap());
        }
        _ => unreachable!(),
    }
}

fn main() {
    let args: Vec<String> = std::env::args().collect();
    if args.len() == 4 {
        child(&args[1], &args[2], args[3].parse().unwrap());
        return;
    }
    let exe = std::env::current_exe().unwrap();
    let cases = [
        ("build", "ptr", 600usize),        // 2.4 KB
        ("build", "arr", 600),             // 2.4 KB
        ("build", "arg", 400),             // 2.4 KB
        ("parse_thread", "ptr", 1000),     // 4 KB, parser alone
    ];
    let mut crashed = 0;
    for (mode, kind, n) in cases {
        let out = Command::new(&exe).args([mode, kind, &n.to_string()]).output().unwrap();
        let stderr = String::from_utf8_lossy(&out.stderr);
        let ok = out.status.success();
        println!(
            "{mode} {kind} depth={n} ({} bytes of input): {} {}",
            source(kind, n).len(),
            if ok { String::from_utf8_lossy(&out.stdout).trim().to_string() } else { format!("CRASHED ({:?})", out.status) },
            stderr.lines().filter(|l| l.contains("overflow")).collect::<Vec<_>>().join(" / ")
        );
        if !ok {
            crashed += 1;
        }
    }
    if crashed > 0 {
        println!("VIOLATION: {crashed} input(s) of a few KB crashed the process instead of yielding a result");
        std::process::exit(1);
    }
    println!("no violation");
}
