//! C12 finding 6: a `.pyxis` file that is not valid UTF-8 (the quantifier is over byte strings)
//! yields an error that identifies neither the file nor a position: `add_file` propagates the
//! bare `io::Error` of `read_to_string` ("stream did not contain valid UTF-8").
//!
//! Exit 0: the error names the file. Exit 1: it does not.
fn main() {
    let dir = std::env::temp_dir().join(format!("c12_f6_{}", std::process::id()));
    let _ = std::fs::remove_dir_all(&dir);
    std::fs::create_dir_all(dir.join("in")).unwrap();
    std::fs::create_dir_all(dir.join("out")).unwrap();
    std::fs::write(dir.join("in/good.pyxis"), "type A;\n").unwrap();
    std::fs::write(dir.join("in/broken.pyxis"), b"type A;\ntype B { a: u32 }\n\xff\xfe\n").unwrap();
    let r = pyxis::build(&dir.join("in"), &dir.join("out"), 8);
    let _ = std::fs::remove_dir_all(&dir);
    let msg = format!("{:#}", r.expect_err("the input is malformed"));
    println!("error: {msg}");
    if !msg.contains("broken.pyxis") {
        println!("VIOLATION: the error does not identify the file (let alone line 3, column 1)");
        std::process::exit(1);
    }
    println!("no violation");
}
