//! C12 finding 9: "any sequence of public API calls" -- two public entry points panic instead of
//! returning an error:
//!  (a) `grammar::ItemPath::from_path` asserts that its argument is relative;
//!  (b) the `grammar` AST is public and is what `SemanticState::add_module` takes. A name that the
//!      text parser would never produce ("" , "a b", "1x", "a-b") is accepted by `add_module` and
//!      `build()`, and panics in `write_module` (`format_ident!`: "... is not a valid Ident").
//!
//! Exit 0: every call returned. Exit 1: a call panicked.
use pyxis::grammar::*;

fn main() {
    let mut panics = 0;

    let r = std::panic::catch_unwind(|| ItemPath::from_path(std::path::Path::new("/abs/x.pyxis")));
    println!("ItemPath::from_path(\"/abs/x.pyxis\"): {}", if r.is_ok() { "returned" } else { "PANICKED" });
    panics += r.is_err() as usize;

    for name in ["", "a b", "1x", "a-b"] {
        let r = std::panic::catch_unwind(|| -> anyhow::Result<()> {
            let m = Module::new().with_definitions([ItemDefinition::new(
                (Visibility::Public, name),
                TypeDefinition::new([TypeStatement::field((Visibility::Public, "a"), Type::ident("u32"))]),
            )]);
            let mut s = pyxis::semantic::SemanticState::new(4);
            s.add_module(&m, &ItemPath::from("m"))?;
            let rs = s.build()?;
            let out = std::env::temp_dir().join(format!("c12_f9_{}", std::process::id()));
            let mut res = Ok(());
            for (k, md) in rs.modules() {
                let w = pyxis::backends::rust::write_module(&out, k, &rs, md);
                if res.is_ok() {
                    res = w;
                }
            }
            let _ = std::fs::remove_dir_all(&out);
            res
        });
        match &r {
            Ok(Ok(())) => println!("type named {name:?}: Ok"),
            Ok(Err(e)) => println!("type named {name:?}: Err({:.80})", format!("{e:#}")),
            Err(_) => println!("type named {name:?}: PANICKED"),
        }
        panics += r.is_err() as usize;
    }
    if panics > 0 {
        println!("VIOLATION: {panics} public API call sequence(s) panicked");
        std::process::exit(1);
    }
    println!("no violation");
}
