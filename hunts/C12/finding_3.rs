//! C12 finding 3: an absurd `#[index(N)]` on a virtual function (or `#[size(N)]` on a `vftable`
//! block) makes the build push N padding functions one by one: with N = isize::MAX (a boundary
//! integer that the parser accepts) memory grows until the allocator gives up and the process
//! aborts ("memory allocation of .. bytes failed"), or the machine runs out of memory.
//! An absurd size in every other position (`#[size]`, `#[address]`, array lengths, `unknown<N>`)
//! is answered with an error value.
//!
//! The build runs in a child process whose address space is capped with `ulimit -v` (1.5 GB) and
//! which is killed after 120 s. Exit 0: the child returned a value. Exit 1: it aborted/timed out.
use std::process::{Command, Stdio};
use std::time::{Duration, Instant};

fn child(src: &str) {
    let dir = std::env::temp_dir().join(format!("c12_f3_{}", std::process::id()));
    let _ = std::fs::remove_dir_all(&dir);
    std::fs::create_dir_all(dir.join("in")).unwrap();
    std::fs::create_dir_all(dir.join("out")).unwrap();
    std::fs::write(dir.join("in/a.pyxis"), src).unwrap();
    let r = pyxis::build(&dir.join("in"), &dir.join("out"), 8);
    let _ = std::fs::remove_dir_all(&dir);
    println!("returned {}", if r.is_ok() { "Ok".to_string() } else { format!("Err({:#})", r.unwrap_err()) });
}

fn main() {
    let args: Vec<String> = std::env::args().collect();
    if args.len() == 3 && args[1] == "child" {
        child(&args[2]);
        return;
    }
    let exe = std::env::current_exe().unwrap();
    let cases = [
        ("index", "type A { vftable { #[index(9223372036854775807)] fn f(&self); } }"),
        ("size", "type A { #[size(9223372036854775807)] vftable { } }"),
    ];
    let mut bad = 0;
    for (tag, src) in cases {
        let mut c = Command::new("sh")
            .arg("-c")
            .arg("ulimit -v 1500000; exec \"$0\" child \"$1\"")
            .arg(&exe)
            .arg(src)
            .stdout(Stdio::piped())
            .stderr(Stdio::piped())
            .spawn()
            .unwrap();
        let start = Instant::now();
        let status = loop {
            if let Some(s) = c.try_wait().unwrap() {
                break Some(s);
            }
            if start.elapsed() > Duration::from_secs(120) {
                let _ = c.kill();
                let _ = c.wait();
                break None;
            }
            std::thread::sleep(Duration::from_millis(100));
        };
        let out = c.wait_with_output().unwrap();
        let stdout = String::from_utf8_lossy(&out.stdout);
        let stderr = String::from_utf8_lossy(&out.stderr);
        match status {
            Some(s) if s.success() => println!("[{tag}] {} bytes of input: {}", src.len(), stdout.trim()),
            Some(s) => {
                bad += 1;
                println!("[{tag}] {} bytes of input: child died ({s:?}) after {:?}: {}", src.len(), start.elapsed(), stderr.lines().next().unwrap_or(""));
            }
            None => {
                bad += 1;
                println!("[{tag}] {} bytes of input: no result after 120 s, killed", src.len());
            }
        }
    }
    if bad > 0 {
        println!("VIOLATION: an absurd vftable index/size exhausted memory instead of yielding an error");
        std::process::exit(1);
    }
    println!("no violation");
}
