//! C12 finding 8 (debatable, see REPORT.md): the work and the output grow exponentially with the
//! depth of a hierarchy in which every type has the previous one as a base twice, although the
//! input grows linearly (44 bytes per level) and, with an empty root type, every type is 0 bytes:
//!
//!   type T0;   type T1 { #[base] a: T0, #[base] b: T0 }   type T2 { #[base] a: T1, #[base] b: T1 } ...
//!
//! `dfs_hierarchy` materialises one field path per base sub-object (2^(n+1) - 2 for Tn) and the
//! backend emits a `_CONFLICTING_...` constant for each. 14 levels (0.6 KB): 33 MB of output;
//! 24 levels (1 KB) would need tens of gigabytes.
//!
//! The 24-level input runs in a child process limited to 1.5 GB of address space and 120 s.
//! Exit 0: the child returned a value. Exit 1: it aborted / timed out.
use std::process::{Command, Stdio};
use std::time::{Duration, Instant};

fn source(n: usize) -> String {
    let mut s = String::from("type T0;\n");
    for i in 1..=n {
        s += &format!("type T{i} {{ #[base] a: T{p}, #[base] b: T{p} }}\n", p = i - 1);
    }
    s
}

fn work_dir(tag: &str, n: usize) -> std::path::PathBuf {
    std::env::temp_dir().join(format!("c12_f8_{tag}_{n}"))
}

fn build(tag: &str, n: usize) -> (bool, u64, Duration) {
    let dir = work_dir(tag, n);
    let _ = std::fs::remove_dir_all(&dir);
    std::fs::create_dir_all(dir.join("in")).unwrap();
    std::fs::create_dir_all(dir.join("out")).unwrap();
    std::fs::write(dir.join("in/a.pyxis"), source(n)).unwrap();
    let t = Instant::now();
    let r = pyxis::build(&dir.join("in"), &dir.join("out"), 8);
    let el = t.elapsed();
    let len = std::fs::metadata(dir.join("out/a.rs")).map(|m| m.len()).unwrap_or(0);
    let _ = std::fs::remove_dir_all(&dir);
    (r.is_ok(), len, el)
}

fn main() {
    let args: Vec<String> = std::env::args().collect();
    if args.len() == 4 && args[1] == "child" {
        let (ok, len, el) = build(&args[3], args[2].parse().unwrap());
        println!("returned ok={ok}, {len} bytes of output, {el:?}");
        return;
    }
    for n in [6usize, 8, 10] {
        let (ok, len, el) = build(&std::process::id().to_string(), n);
        println!("{n} levels: {} bytes of input -> ok={ok}, {len} bytes of output, {el:?}", source(n).len());
    }
    let n = 24;
    let tag = format!("child{}", std::process::id());
    let exe = std::env::current_exe().unwrap();
    let mut c = Command::new("sh")
        .arg("-c")
        .arg("ulimit -v 1500000; exec \"$0\" child \"$1\" \"$2\"")
        .arg(&exe)
        .arg(n.to_string())
        .arg(&tag)
        .stdout(Stdio::piped())
        .stderr(Stdio::piped())
        .spawn()
        .unwrap();
    let start = Instant::now();
    let status = loop {
        if let Some(s) = c.try_wait().unwrap() {
            break Some(s);
        }
        if start.elapsed() > Duration::from_secs(120) {
            let _ = c.kill();
            break None;
        }
        std::thread::sleep(Duration::from_millis(100));
    };
    let out = c.wait_with_output().unwrap();
    let _ = std::fs::remove_dir_all(work_dir(&tag, n));
    match status {
        Some(s) if s.success() => {
            println!("{n} levels: {} bytes of input -> {}", source(n).len(), String::from_utf8_lossy(&out.stdout).trim());
            println!("no violation");
        }
        Some(s) => {
            println!("{n} levels: {} bytes of input -> child died ({s:?}) after {:?}: {}", source(n).len(), start.elapsed(), String::from_utf8_lossy(&out.stderr).lines().next().unwrap_or(""));
            println!("VIOLATION: memory is exponential in the size of the input");
            std::process::exit(1);
        }
        None => {
            println!("{n} levels: {} bytes of input -> no result after 120 s", source(n).len());
            println!("VIOLATION: time is exponential in the size of the input");
            std::process::exit(1);
        }
    }
}
