//! C12 finding 5: "Parse errors identify the file, line and column" -- every parse error that is
//! detected at the end of the file (a statement that is cut short: missing `;`, missing body,
//! dangling `#`, ...) is reported at `<file>:1:1`, whatever the line it is really on. syn reports
//! "unexpected end of input" at `Span::call_site()`, whose start is line 1 column 0, and
//! `add_file` prints that as is.
//!
//! Exit 0: the reported line is the line of the error. Exit 1: it is not.
fn reported_position(tag: &str, src: &str) -> (String, Option<(usize, usize)>) {
    let dir = std::env::temp_dir().join(format!("c12_f5_{}_{}", std::process::id(), tag));
    let _ = std::fs::remove_dir_all(&dir);
    std::fs::create_dir_all(dir.join("in")).unwrap();
    std::fs::create_dir_all(dir.join("out")).unwrap();
    let file = dir.join("in/a.pyxis");
    std::fs::write(&file, src).unwrap();
    let r = pyxis::build(&dir.join("in"), &dir.join("out"), 8);
    let _ = std::fs::remove_dir_all(&dir);
    let msg = format!("{:#}", r.expect_err("the input is malformed"));
    // "failed to parse <file>:<line>:<column>: ..."
    let pos = msg.split(&format!("{}:", file.display())).nth(1).and_then(|rest| {
        let mut it = rest.split(':');
        Some((it.next()?.trim().parse().ok()?, it.next()?.trim().parse().ok()?))
    });
    (msg, pos)
}

fn main() {
    // (tag, source, line the error is on)
    let cases = [
        ("missing_semicolon", "type A {\n    a: u32,\n}\n\nuse b::B", 5),
        ("missing_body", "type A;\ntype B;\ntype C", 3),
        ("dangling_hash", "type A;\n\n\n\n\n#", 6),
        ("enum_without_body", "type A;\nenum E: u32", 2),
    ];
    let mut bad = 0;
    for (tag, src, line) in cases {
        let (msg, pos) = reported_position(tag, src);
        let short = msg.rsplit('/').next().unwrap_or(&msg).to_string();
        match pos {
            Some((l, c)) if l == line => println!("[{tag}] ok: reported {l}:{c} ({short})"),
            Some((l, c)) => {
                bad += 1;
                println!("[{tag}] the error is on line {line}, reported as {l}:{c} ({short})");
            }
            None => {
                bad += 1;
                println!("[{tag}] no position in: {msg}");
            }
        }
    }
    if bad > 0 {
        println!("VIOLATION: {bad} parse error(s) do not identify the line and column of the error");
        std::process::exit(1);
    }
    println!("no violation");
}
