//! C12 finding 7: a directory layout with symbolic links that fan out (no cycle anywhere) makes
//! `pyxis::build` walk a number of directories that is exponential in the size of the layout.
//! `find_pyxis_files` only refuses to re-enter a directory that is currently being walked
//! (an ancestor); a directory reachable along 2^n different link paths is walked 2^n times.
//!
//!   d0/{l1,l2} -> d1,  d1/{l1,l2} -> d2,  ...  d(n-1)/{l1,l2} -> dn      (n+1 dirs, 2n links)
//!
//! There is not a single `.pyxis` file in the layout, so nothing at all is asked for.
//! Times double with every level; with n = 32 the build does not come back.
//!
//! Exit 0: the build of the n = 32 layout returns within 30 s. Exit 1: it does not.
use std::time::{Duration, Instant};

fn layout(root: &std::path::Path, n: usize) -> std::path::PathBuf {
    let store = root.join("store");
    for i in 0..=n {
        std::fs::create_dir_all(store.join(format!("d{i}"))).unwrap();
    }
    for i in 0..n {
        for l in ["l1", "l2"] {
            std::os::unix::fs::symlink(store.join(format!("d{}", i + 1)), store.join(format!("d{i}")).join(l)).unwrap();
        }
    }
    store.join("d0")
}

fn main() {
    let root = std::env::temp_dir().join(format!("c12_f7_{}", std::process::id()));
    let _ = std::fs::remove_dir_all(&root);
    std::fs::create_dir_all(root.join("out")).unwrap();

    // growth
    for n in [8usize, 10, 12] {
        let r = root.join(format!("n{n}"));
        let input = layout(&r, n);
        let t = Instant::now();
        let res = pyxis::build(&input, &root.join("out"), 8);
        println!("n={n}: {} dirs, {} links: ok={} in {:?}", n + 1, 2 * n, res.is_ok(), t.elapsed());
    }

    // the real thing
    let input = layout(&root.join("n32"), 32);
    let out = root.join("out");
    let (tx, rx) = std::sync::mpsc::channel();
    std::thread::spawn(move || {
        let t = Instant::now();
        let r = pyxis::build(&input, &out, 8);
        let _ = tx.send((r.is_ok(), t.elapsed()));
    });
    let verdict = rx.recv_timeout(Duration::from_secs(30));
    let _ = std::fs::remove_dir_all(&root);
    match verdict {
        Ok((ok, t)) => println!("n=32: 33 dirs, 64 links: ok={ok} in {t:?}\nno violation"),
        Err(_) => {
            println!("n=32: 33 dirs, 64 links, no .pyxis file: no result after 30 s");
            println!("VIOLATION: the time is exponential in the size of the (acyclic) layout");
            std::process::exit(1);
        }
    }
}
