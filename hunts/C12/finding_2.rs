//! C12 finding 2: an identifier whose upper-case form is not an identifier for `proc-macro2`
//! panics the Rust backend. `ƛ` (U+019B) and `ɤ` (U+0264) are accepted by the pyxis parser; std's
//! `to_uppercase` maps them to U+A7DC / U+A7CB (Unicode 16), which the vendored `unicode-ident`
//! does not know, so `format_ident!("_CONFLICTING_{}_{}", NAME.to_uppercase(), ..)` panics.
//! The upper-casing only happens when a base type occurs twice in a hierarchy.
//!
//! Exit 0: all builds returned a value. Exit 1: a build panicked.
fn run(tag: &str, src: &str) -> bool {
    let dir = std::env::temp_dir().join(format!("c12_f2_{}_{}", std::process::id(), tag));
    let _ = std::fs::remove_dir_all(&dir);
    std::fs::create_dir_all(dir.join("in")).unwrap();
    std::fs::create_dir_all(dir.join("out")).unwrap();
    std::fs::write(dir.join("in/a.pyxis"), src).unwrap();
    let r = std::panic::catch_unwind(|| pyxis::build(&dir.join("in"), &dir.join("out"), 8));
    let _ = std::fs::remove_dir_all(&dir);
    match r {
        Ok(r) => {
            println!("[{tag}] returned {}", if r.is_ok() { "Ok".to_string() } else { format!("Err({:#})", r.unwrap_err()) });
            true
        }
        Err(_) => {
            println!("[{tag}] PANICKED");
            false
        }
    }
}

fn main() {
    let mut ok = true;
    // control: the same identifiers are fine when nothing upper-cases them
    ok &= run("control", "type ƛ { ɤ: u64 }");
    // field name
    ok &= run("field", "type A;\ntype B { #[base] ƛ: A, #[base] b: A }");
    // type name
    ok &= run("type", "type A;\ntype ƛ { #[base] a: A, #[base] b: A }");
    // the other character
    ok &= run("field2", "type A;\ntype B { #[base] ɤ: A, #[base] b: A }");
    if !ok {
        println!("VIOLATION: an unusual identifier caused a panic");
        std::process::exit(1);
    }
    println!("no violation");
}
