// Scratch differential fuzzer for property C10.
// usage: rev_fuzz <seed> <iterations>
use std::collections::{BTreeMap, BTreeSet, HashMap};

use pyxis::grammar::ItemPath;
use pyxis::semantic::types::{Argument, ItemDefinitionInner, ItemState};

struct Rng(u64);
impl Rng {
    fn next(&mut self) -> u64 {
        self.0 = self.0.wrapping_add(0x9E3779B97F4A7C15);
        let mut z = self.0;
        z = (z ^ (z >> 30)).wrapping_mul(0xBF58476D1CE4E5B9);
        z = (z ^ (z >> 27)).wrapping_mul(0x94D049BB133111EB);
        z ^ (z >> 31)
    }
    fn below(&mut self, n: usize) -> usize {
        (self.next() % n as u64) as usize
    }
    fn chance(&mut self, percent: usize) -> bool {
        self.below(100) < percent
    }
    fn shuffle<T>(&mut self, v: &mut Vec<T>) {
        for i in (1..v.len()).rev() {
            let j = self.below(i + 1);
            v.swap(i, j);
        }
    }
}

#[derive(Clone, Debug)]
enum W {
    Const,
    Mut,
    Arr(usize),
}
#[derive(Clone, Debug)]
struct TE {
    wrappers: Vec<W>, // outermost first
    name: String,
    raw_spelling: bool,
}
impl TE {
    fn text(&self) -> String {
        let mut s = String::new();
        let mut close = vec![];
        for w in &self.wrappers {
            match w {
                W::Const => s.push_str("*const "),
                W::Mut => s.push_str("*mut "),
                W::Arr(n) => {
                    s.push('[');
                    close.push(format!("; {n}]"));
                }
            }
        }
        if self.raw_spelling && !self.name.starts_with("r#") {
            s.push_str("r#");
        }
        s.push_str(&self.name);
        for c in close.iter().rev() {
            s.push_str(c);
        }
        s
    }
    fn by_value(&self) -> bool {
        !self.wrappers.iter().any(|w| matches!(w, W::Const | W::Mut))
    }
    fn zero_sized_array(&self) -> bool {
        // an array whose total count is zero before reaching a pointer
        let mut zero = false;
        for w in &self.wrappers {
            match w {
                W::Arr(0) => zero = true,
                W::Arr(_) => {}
                _ => break,
            }
        }
        zero && matches!(self.wrappers.first(), Some(W::Arr(_)))
    }
    /// expected Display of the semantic type given the bound path
    fn display(&self, bound: &str) -> String {
        let mut s = String::new();
        let mut close = vec![];
        for w in &self.wrappers {
            match w {
                W::Const => s.push_str("*const "),
                W::Mut => s.push_str("*mut "),
                W::Arr(n) => {
                    s.push('[');
                    close.push(format!("; {n}]"));
                }
            }
        }
        s.push_str(bound);
        for c in close.iter().rev() {
            s.push_str(c);
        }
        s
    }
}
#[derive(Clone, Debug)]
struct Func {
    name: String,
    params: Vec<(String, TE)>,
    ret: Option<TE>,
}
#[derive(Clone, Debug)]
struct Field {
    name: String,
    ty: TE,
    base: bool,
}
#[derive(Clone, Debug)]
enum Kind {
    Struct {
        vft: Option<Vec<Func>>,
        fields: Vec<Field>,
        impls: Vec<Func>,
    },
    Enum {
        base: TE,
    },
}
#[derive(Clone, Debug)]
struct TS {
    name: String,
    module: usize,
    kind: Kind,
}
#[derive(Clone, Debug)]
enum Import {
    Type(usize, String),
    Module(usize),
}
#[derive(Clone, Debug)]
struct Ext {
    module: usize,
    name: String,
    ty: TE,
}

const PREDEF: [&str; 3] = ["u32", "i32", "f32"];
const RAW_NAMES: [&str; 3] = ["r#type", "r#fn", "r#match"];

/// name of the vftable type generated for the type called `owner`
fn vft_name(owner: &str) -> String {
    format!("{}Vftable", owner.strip_prefix("r#").unwrap_or(owner))
}

struct Program {
    modules: Vec<String>,
    imports: Vec<Vec<Import>>,
    types: Vec<TS>,
    externs: Vec<Ext>,
}

impl Program {
    fn known_paths(&self) -> BTreeSet<String> {
        let mut k = BTreeSet::new();
        for t in &self.types {
            k.insert(format!("{}::{}", self.modules[t.module], t.name));
            if let Kind::Struct { vft: Some(_), .. } = &t.kind {
                k.insert(format!("{}::{}", self.modules[t.module], vft_name(&t.name)));
            }
        }
        k
    }
    fn bind(&self, known: &BTreeSet<String>, module: usize, name: &str) -> Option<String> {
        for imp in self.imports[module].iter().rev() {
            if let Import::Type(m, n) = imp {
                let p = format!("{}::{}", self.modules[*m], n);
                if n == name && known.contains(&p) {
                    return Some(p);
                }
            }
        }
        if PREDEF.contains(&name) {
            return Some(name.to_string());
        }
        let own = format!("{}::{}", self.modules[module], name);
        if known.contains(&own) {
            return Some(own);
        }
        for imp in &self.imports[module] {
            match imp {
                Import::Module(m) => {
                    let p = format!("{}::{}", self.modules[*m], name);
                    if known.contains(&p) {
                        return Some(p);
                    }
                }
                Import::Type(m, n) => {
                    // an import that is no known type is taken for a module
                    let tp = format!("{}::{}", self.modules[*m], n);
                    if !known.contains(&tp) {
                        let p = format!("{tp}::{name}");
                        if known.contains(&p) {
                            return Some(p);
                        }
                    }
                }
            }
        }
        None
    }
    fn text(&self, module: usize, rng: &mut Rng) -> String {
        let mut s = String::new();
        for imp in &self.imports[module] {
            match imp {
                Import::Type(m, n) => s.push_str(&format!("use {}::{};\n", self.modules[*m], n)),
                Import::Module(m) => s.push_str(&format!("use {};\n", self.modules[*m])),
            }
        }
        let mut items: Vec<String> = vec![];
        for t in self.types.iter().filter(|t| t.module == module) {
            match &t.kind {
                Kind::Enum { base } => {
                    items.push(format!("enum {}: {} {{ A = 1, B }}\n", t.name, base.text()));
                }
                Kind::Struct { vft, fields, impls } => {
                    let mut b = format!("type {} {{\n", t.name);
                    if let Some(fs) = vft {
                        b.push_str("    vftable {\n");
                        for f in fs {
                            b.push_str(&format!("        fn {}(&self", f.name));
                            for (n, t) in &f.params {
                                b.push_str(&format!(", {}: {}", n, t.text()));
                            }
                            b.push(')');
                            if let Some(r) = &f.ret {
                                b.push_str(&format!(" -> {}", r.text()));
                            }
                            b.push_str(";\n");
                        }
                        b.push_str("    },\n");
                    }
                    for f in fields {
                        if f.base {
                            b.push_str("    #[base]\n");
                        }
                        b.push_str(&format!("    {}: {},\n", f.name, f.ty.text()));
                    }
                    b.push_str("}\n");
                    items.push(b);
                    // impl blocks, possibly split in two
                    if !impls.is_empty() {
                        let split = if impls.len() > 1 && rng.chance(30) { 1 } else { impls.len() };
                        for chunk in [&impls[..split], &impls[split..]] {
                            if chunk.is_empty() {
                                continue;
                            }
                            let mut b = format!("impl {} {{\n", t.name);
                            for (i, f) in chunk.iter().enumerate() {
                                b.push_str(&format!("    #[address(0x{:X})]\n    pub fn {}(", 0x1000 + i * 16, f.name));
                                let mut first = true;
                                for (n, t) in &f.params {
                                    if !first {
                                        b.push_str(", ");
                                    }
                                    first = false;
                                    b.push_str(&format!("{}: {}", n, t.text()));
                                }
                                b.push(')');
                                if let Some(r) = &f.ret {
                                    b.push_str(&format!(" -> {}", r.text()));
                                }
                                b.push_str(";\n");
                            }
                            b.push_str("}\n");
                            items.push(b);
                        }
                    }
                }
            }
        }
        for e in self.externs.iter().filter(|e| e.module == module) {
            items.push(format!("#[address(0x4000)]\npub extern {}: {};\n", e.name, e.ty.text()));
        }
        rng.shuffle(&mut items);
        for i in items {
            s.push_str(&i);
        }
        s
    }
}

fn gen_te(rng: &mut Rng, names: &[String], force_by_value: bool) -> TE {
    let name = names[rng.below(names.len())].clone();
    let mut wrappers = vec![];
    let depth = match rng.below(10) {
        0..=4 => 0,
        5..=7 => 1,
        8 => 2,
        _ => 3,
    };
    for _ in 0..depth {
        let w = match rng.below(if force_by_value { 1 } else { 3 }) {
            0 => W::Arr(match rng.below(8) {
                0 => 0,
                1 => 1,
                2 => 7,
                _ => 2,
            }),
            1 => W::Const,
            _ => W::Mut,
        };
        wrappers.push(w);
    }
    TE { wrappers, name, raw_spelling: rng.chance(8) }
}

fn generate(rng: &mut Rng) -> Program {
    let nmod = 1 + rng.below(4);
    let mut modules: Vec<String> = vec![];
    for i in 0..nmod {
        if i > 0 && rng.chance(40) {
            let parent = modules[rng.below(i)].clone();
            modules.push(format!("{parent}::m{i}"));
        } else {
            modules.push(format!("m{i}"));
        }
    }
    let ntypes = 1 + rng.below(12);
    let mut type_names: Vec<String> = vec![];
    let mut type_mods = vec![];
    let mut is_struct = vec![];
    let mut has_vft = vec![];
    let shadow = rng.chance(40);
    let raw_mode = rng.chance(25);
    let npool = if shadow { 1 + ntypes / 2 } else { ntypes };
    for i in 0..ntypes {
        let s = rng.chance(80);
        let v = s && rng.chance(35);
        // pick (module, name) so that neither the path nor the vftable path it implies is taken
        let mut tries = 0;
        loop {
            tries += 1;
            let mut name = if shadow { format!("T{}", rng.below(npool)) } else { format!("T{i}") };
            if shadow && rng.chance(10) {
                name.push_str("Vftable");
            }
            if raw_mode && rng.chance(30) {
                name = RAW_NAMES[rng.below(3)].to_string();
            }
            if tries > 50 {
                name = format!("U{i}");
            }
            let m = rng.below(nmod);
            let taken = |n: &str| {
                (0..type_names.len()).any(|j: usize| {
                    type_mods[j] == m
                        && (type_names[j] == *n || (has_vft[j] && vft_name(&type_names[j]) == *n))
                })
            };
            if taken(&name) || (v && taken(&vft_name(&name))) {
                continue;
            }
            type_names.push(name);
            type_mods.push(m);
            break;
        }
        is_struct.push(s);
        has_vft.push(v);
    }
    // candidate names for references
    let undefined_rate = [0usize, 0, 0, 3, 10][rng.below(5)];
    let mut pool: Vec<String> = vec![];
    for _ in 0..3 {
        for n in &type_names {
            pool.push(n.clone());
        }
    }
    for (i, n) in type_names.iter().enumerate() {
        if has_vft[i] {
            pool.push(vft_name(n));
            pool.push(vft_name(n));
        } else if rng.chance(undefined_rate) {
            pool.push(vft_name(n)); // undefined
        }
    }
    for p in PREDEF {
        pool.push(p.to_string());
        pool.push(p.to_string());
    }
    let plen = pool.len();
    for k in 0..(plen * undefined_rate / 100 + usize::from(undefined_rate > 0)) {
        pool.push(format!("Nope{k}"));
    }
    let struct_pool: Vec<String> = pool
        .iter()
        .filter(|n| {
            if let Some(i) = type_names.iter().position(|t| &t == n) {
                is_struct[i]
            } else {
                !PREDEF.contains(&n.as_str())
            }
        })
        .cloned()
        .collect();
    let pointer_bias = rng.below(100);
    let mut fcount = 0;
    let mut types = vec![];
    for i in 0..ntypes {
        let kind = if is_struct[i] {
            let nfields = rng.below(5);
            let mut fields = vec![];
            let nbases = if !struct_pool.is_empty() && rng.chance(35) { 1 + rng.below(2) } else { 0 };
            for k in 0..nbases {
                let name = struct_pool[rng.below(struct_pool.len())].clone();
                fields.push(Field {
                    name: format!("b{k}"),
                    ty: TE { wrappers: vec![], name, raw_spelling: false },
                    base: true,
                });
            }
            for k in 0..nfields {
                let mut ty = gen_te(rng, &pool, false);
                if ty.by_value() && rng.chance(pointer_bias) && !PREDEF.contains(&ty.name.as_str()) {
                    ty.wrappers.insert(0, W::Mut);
                }
                fields.push(Field { name: format!("f{k}"), ty, base: false });
            }
            let mut mk_funcs = |rng: &mut Rng, prefix: &str, max: usize| {
                let mut v = vec![];
                for _ in 0..rng.below(max + 1) {
                    fcount += 1;
                    let mut params = vec![];
                    for p in 0..rng.below(3) {
                        params.push((format!("p{p}"), gen_te(rng, &pool, false)));
                    }
                    let ret = rng.chance(50).then(|| gen_te(rng, &pool, false));
                    v.push(Func { name: format!("{prefix}{fcount}"), params, ret });
                }
                v
            };
            let vft = has_vft[i].then(|| mk_funcs(rng, "v", 3));
            let impls = if rng.chance(40) { mk_funcs(rng, "g", 3) } else { vec![] };
            Kind::Struct { vft, fields, impls }
        } else {
            let base = if rng.chance(75) {
                TE { wrappers: vec![], name: PREDEF[rng.below(2)].to_string(), raw_spelling: false }
            } else {
                gen_te(rng, &pool, true)
            };
            Kind::Enum { base }
        };
        types.push(TS { name: type_names[i].clone(), module: type_mods[i], kind });
    }
    // externs
    let mut externs = vec![];
    for k in 0..rng.below(4) {
        externs.push(Ext { module: rng.below(nmod), name: format!("x{k}"), ty: gen_te(rng, &pool, false) });
    }
    // imports: for each module, for each foreign defined name mentioned, usually import it
    let forget_rate = [0usize, 0, 0, 5, 15][rng.below(5)];
    let mut imports: Vec<Vec<Import>> = vec![vec![]; nmod];
    let mentions = |m: usize| -> BTreeSet<String> {
        let mut out = BTreeSet::new();
        for t in types.iter().filter(|t| t.module == m) {
            match &t.kind {
                Kind::Enum { base } => {
                    out.insert(base.name.clone());
                }
                Kind::Struct { vft, fields, impls } => {
                    for f in fields {
                        out.insert(f.ty.name.clone());
                    }
                    for f in vft.iter().flatten().chain(impls.iter()) {
                        for (_, t) in &f.params {
                            out.insert(t.name.clone());
                        }
                        if let Some(r) = &f.ret {
                            out.insert(r.name.clone());
                        }
                    }
                }
            }
        }
        for e in externs.iter().filter(|e| e.module == m) {
            out.insert(e.ty.name.clone());
        }
        out
    };
    for m in 0..nmod {
        let style = rng.below(3); // 0 type imports, 1 module imports, 2 mixed
        let mut imps = vec![];
        for name in mentions(m) {
            let candidates: Vec<usize> = (0..type_names.len())
                .filter(|&j| type_mods[j] != m && (type_names[j] == name || (has_vft[j] && vft_name(&type_names[j]) == name)))
                .collect();
            if candidates.is_empty() {
                continue;
            }
            let i = candidates[rng.below(candidates.len())];
            let in_own = (0..type_names.len())
                .any(|j| type_mods[j] == m && (type_names[j] == name || (has_vft[j] && vft_name(&type_names[j]) == name)));
            if in_own && rng.chance(70) {
                continue;
            }
            if rng.chance(forget_rate) {
                continue;
            }
            let as_module = match style {
                0 => false,
                1 => true,
                _ => rng.chance(50),
            };
            if as_module {
                if !imps.iter().any(|x| matches!(x, Import::Module(mm) if *mm == type_mods[i])) {
                    imps.push(Import::Module(type_mods[i]));
                }
            } else {
                imps.push(Import::Type(type_mods[i], name.clone()));
            }
        }
        rng.shuffle(&mut imps);
        imports[m] = imps;
    }
    let mut p = Program { modules, imports, types, externs };
    sanitise(&mut p);
    p
}

/// A type with a vftable block whose first base (effectively) has a vftable must repeat the
/// base's functions: not what is under test. Drop the `#[base]` marks of such types.
fn sanitise(p: &mut Program) {
    let known = p.known_paths();
    let index: HashMap<String, usize> = p
        .types
        .iter()
        .enumerate()
        .map(|(i, t)| (format!("{}::{}", p.modules[t.module], t.name), i))
        .collect();
    fn effective(p: &Program, known: &BTreeSet<String>, index: &HashMap<String, usize>, i: usize, seen: &mut Vec<usize>) -> bool {
        if seen.contains(&i) {
            return false;
        }
        seen.push(i);
        let t = &p.types[i];
        let Kind::Struct { vft, fields, .. } = &t.kind else { return false };
        if vft.is_some() {
            return true;
        }
        if let Some(fb) = fields.iter().find(|f| f.base) {
            if let Some(path) = p.bind(known, t.module, &fb.ty.name) {
                if let Some(&j) = index.get(&path) {
                    return effective(p, known, index, j, seen);
                }
            }
        }
        false
    }
    let mut drop = vec![];
    for (i, t) in p.types.iter().enumerate() {
        let Kind::Struct { vft, fields, .. } = &t.kind else { continue };
        // bases must be structs (or generated vftable types)
        let mut bad = false;
        for f in fields.iter().filter(|f| f.base) {
            if let Some(path) = p.bind(&known, t.module, &f.ty.name) {
                if let Some(&j) = index.get(&path) {
                    if matches!(p.types[j].kind, Kind::Enum { .. }) {
                        bad = true;
                    }
                } else if PREDEF.contains(&path.as_str()) {
                    bad = true;
                }
            }
        }
        if vft.is_some() {
            if let Some(fb) = fields.iter().find(|f| f.base) {
                if let Some(path) = p.bind(&known, t.module, &fb.ty.name) {
                    if let Some(&j) = index.get(&path) {
                        if effective(p, &known, &index, j, &mut vec![]) {
                            bad = true;
                        }
                    }
                }
            }
        }
        if bad {
            drop.push(i);
        }
    }
    for i in drop {
        if let Kind::Struct { fields, .. } = &mut p.types[i].kind {
            for f in fields {
                f.base = false;
            }
        }
    }
}

struct Oracle {
    unresolved: BTreeSet<String>,       // declared type paths that cannot resolve
    tainted_by_missing_vftable: bool,   // known exclusion applies
    extern_unbound: bool,
}

fn oracle(p: &Program) -> Oracle {
    let known = p.known_paths();
    let path_of = |t: &TS| format!("{}::{}", p.modules[t.module], t.name);
    // names that bind per type
    let mut resolved: BTreeSet<String> = BTreeSet::new();
    for n in PREDEF {
        resolved.insert(n.to_string());
    }
    // which vftable types get generated: owner's field names and vfunc names all bind
    let mut generated = BTreeSet::new();
    let mut not_generated = BTreeSet::new();
    for t in &p.types {
        if let Kind::Struct { vft: Some(vf), fields, .. } = &t.kind {
            let mut ok = true;
            for f in fields {
                ok &= p.bind(&known, t.module, &f.ty.name).is_some();
            }
            for f in vf {
                for (_, ty) in &f.params {
                    ok &= p.bind(&known, t.module, &ty.name).is_some();
                }
                if let Some(r) = &f.ret {
                    ok &= p.bind(&known, t.module, &r.name).is_some();
                }
            }
            let vp = format!("{}::{}", p.modules[t.module], vft_name(&t.name));
            if ok {
                generated.insert(vp.clone());
                resolved.insert(vp);
            } else {
                not_generated.insert(vp);
            }
        }
    }
    let mut tainted = false;
    loop {
        let mut changed = false;
        for t in &p.types {
            let path = path_of(t);
            if resolved.contains(&path) {
                continue;
            }
            let mut ok = true;
            match &t.kind {
                Kind::Enum { base } => match p.bind(&known, t.module, &base.name) {
                    None => ok = false,
                    Some(b) => ok &= resolved.contains(&b),
                },
                Kind::Struct { vft, fields, impls } => {
                    for f in fields {
                        match p.bind(&known, t.module, &f.ty.name) {
                            None => ok = false,
                            Some(b) => {
                                if f.ty.by_value() {
                                    ok &= resolved.contains(&b);
                                }
                            }
                        }
                    }
                    for f in vft.iter().flatten().chain(impls.iter()) {
                        for (_, ty) in &f.params {
                            ok &= p.bind(&known, t.module, &ty.name).is_some();
                        }
                        if let Some(r) = &f.ret {
                            ok &= p.bind(&known, t.module, &r.name).is_some();
                        }
                    }
                }
            }
            if ok {
                resolved.insert(path);
                changed = true;
            }
        }
        if !changed {
            break;
        }
    }
    let mut unresolved = BTreeSet::new();
    for t in &p.types {
        let path = path_of(t);
        if !resolved.contains(&path) {
            unresolved.insert(path);
        }
    }
    // does any by-value mention hit a vftable type that is never generated?
    for t in &p.types {
        let refs: Vec<&TE> = match &t.kind {
            Kind::Enum { base } => vec![base],
            Kind::Struct { fields, .. } => fields.iter().map(|f| &f.ty).collect(),
        };
        for r in refs {
            if r.by_value() {
                if let Some(b) = p.bind(&known, t.module, &r.name) {
                    if not_generated.contains(&b) {
                        tainted = true;
                    }
                }
            }
        }
    }
    let mut extern_unbound = false;
    for e in &p.externs {
        if p.bind(&known, e.module, &e.ty.name).is_none() {
            extern_unbound = true;
        }
    }
    Oracle { unresolved, tainted_by_missing_vftable: tainted, extern_unbound }
}

fn parse_failed_list(msg: &str) -> Option<BTreeSet<String>> {
    let start = msg.find("failed on types: [")? + "failed on types: [".len();
    let end = msg[start..].find(']')? + start;
    let inner = &msg[start..end];
    Some(
        inner
            .split(',')
            .map(|s| s.trim().trim_matches('"').to_string())
            .filter(|s| !s.is_empty())
            .collect(),
    )
}

fn run(p: &Program, rng: &mut Rng, out_root: &std::path::Path) -> Result<(), String> {
    let o = oracle(p);
    let known = p.known_paths();
    let texts: Vec<String> = (0..p.modules.len()).map(|m| p.text(m, rng)).collect();
    let mut order: Vec<usize> = (0..p.modules.len()).collect();
    rng.shuffle(&mut order);
    let mut state = pyxis::semantic::SemanticState::new(4);
    for &m in &order {
        let ast = pyxis::parser::parse_str(&texts[m]).map_err(|e| format!("parse error in module {m}: {e}"))?;
        state
            .add_module(&ast, &ItemPath::from(p.modules[m].as_str()))
            .map_err(|e| format!("add_module failed: {e:#}"))?;
    }
    let result = state.build();
    let expect_ok = o.unresolved.is_empty() && !o.extern_unbound;
    match result {
        Err(e) => {
            let msg = format!("{e:#}");
            if expect_ok {
                return Err(format!("valid program rejected: {msg}"));
            }
            if !o.unresolved.is_empty() {
                let Some(list) = parse_failed_list(&msg) else {
                    return Err(format!("unexpected kind of error: {msg}"));
                };
                if list != o.unresolved && !o.tainted_by_missing_vftable {
                    return Err(format!("failed list {list:?} != expected {:?}", o.unresolved));
                }
            } else if !msg.contains("failed to resolve type for") {
                return Err(format!("unexpected kind of error for extern: {msg}"));
            }
            Ok(())
        }
        Ok(resolved) => {
            if !expect_ok {
                return Err(format!(
                    "invalid program accepted (unresolvable {:?}, extern_unbound {})",
                    o.unresolved, o.extern_unbound
                ));
            }
            let reg = resolved.type_registry();
            let bind_disp = |m: usize, te: &TE| te.display(&p.bind(&known, m, &te.name).unwrap());
            let check_fn = |m: usize, decl: &Func, got: &pyxis::semantic::types::Function, has_self: bool| -> Result<(), String> {
                let mut args = vec![];
                for a in &got.arguments {
                    match a {
                        Argument::ConstSelf => args.push("&self".to_string()),
                        Argument::MutSelf => args.push("&mut self".to_string()),
                        Argument::Field(n, t) => args.push(format!("{n}: {t}")),
                    }
                }
                let mut exp = vec![];
                if has_self {
                    exp.push("&self".to_string());
                }
                for (n, t) in &decl.params {
                    exp.push(format!("{n}: {}", bind_disp(m, t)));
                }
                if args != exp {
                    return Err(format!("function {}: arguments {args:?} != {exp:?}", decl.name));
                }
                let r = got.return_type.as_ref().map(|t| t.to_string());
                let er = decl.ret.as_ref().map(|t| bind_disp(m, t));
                if r != er {
                    return Err(format!("function {}: return {r:?} != {er:?}", decl.name));
                }
                Ok(())
            };
            for t in &p.types {
                let path = format!("{}::{}", p.modules[t.module], t.name);
                let item = reg.get(&ItemPath::from(path.as_str())).ok_or(format!("{path} missing"))?;
                let ItemState::Resolved(r) = &item.state else {
                    return Err(format!("{path} not resolved in accepted build"));
                };
                if !resolved.modules()[&ItemPath::from(p.modules[t.module].as_str())]
                    .definition_paths()
                    .contains(&item.path)
                {
                    return Err(format!("{path} not in its module's definitions"));
                }
                match (&t.kind, &r.inner) {
                    (Kind::Enum { base }, ItemDefinitionInner::Enum(e)) => {
                        let exp = bind_disp(t.module, base);
                        if e.type_.to_string() != exp {
                            return Err(format!("{path}: enum base {} != {exp}", e.type_));
                        }
                        if e.fields.len() != 2 {
                            return Err(format!("{path}: enum cases {:?}", e.fields));
                        }
                    }
                    (Kind::Struct { vft, fields, impls }, ItemDefinitionInner::Type(td)) => {
                        let got: Vec<(String, String, bool)> = td
                            .regions
                            .iter()
                            .filter(|r| r.name.as_deref() != Some("vftable"))
                            .map(|r| (r.name.clone().unwrap_or_default(), r.type_ref.to_string(), r.is_base))
                            .collect();
                        let exp: Vec<(String, String, bool)> = fields
                            .iter()
                            .map(|f| (f.name.clone(), bind_disp(t.module, &f.ty), f.base))
                            .collect();
                        // arrays may have a size of zero (count or element), and are dropped then: known
                        let mut gi = 0;
                        let mut ok = true;
                        for e in &exp {
                            if got.get(gi) == Some(e) {
                                gi += 1;
                            } else if !e.1.starts_with('[') {
                                ok = false;
                            }
                        }
                        if !ok || gi != got.len() {
                            return Err(format!("{path}: fields {got:?} != {exp:?}"));
                        }
                        for f in impls {
                            let g = td
                                .associated_functions
                                .iter()
                                .find(|g| g.name == f.name)
                                .ok_or(format!("{path}: impl function {} missing", f.name))?;
                            check_fn(t.module, f, g, false)?;
                        }
                        if let Some(vf) = vft {
                            let v = td.vftable.as_ref().ok_or(format!("{path}: no vftable"))?;
                            if v.functions.len() != vf.len() {
                                return Err(format!("{path}: vftable has {} functions, declared {}", v.functions.len(), vf.len()));
                            }
                            for (f, g) in vf.iter().zip(&v.functions) {
                                if f.name != g.name {
                                    return Err(format!("{path}: vfunc {} != {}", g.name, f.name));
                                }
                                check_fn(t.module, f, g, true)?;
                            }
                            let vp = format!("{}::{}", p.modules[t.module], vft_name(&t.name));
                            let vitem = reg.get(&ItemPath::from(vp.as_str())).ok_or(format!("{vp} missing"))?;
                            let ItemState::Resolved(vr) = &vitem.state else {
                                return Err(format!("{vp} unresolved"));
                            };
                            let vtd = vr.inner.as_type().ok_or(format!("{vp} not a type"))?;
                            if vtd.regions.len() != vf.len() {
                                return Err(format!("{vp}: {} slots, declared {}", vtd.regions.len(), vf.len()));
                            }
                            if v.type_.to_string() != format!("*const {vp}") {
                                return Err(format!("{path}: vftable pointer type {}", v.type_));
                            }
                        }
                    }
                    _ => return Err(format!("{path}: wrong kind")),
                }
            }
            // write everything, check extern accessors in the text
            let _ = std::fs::remove_dir_all(out_root);
            std::fs::create_dir_all(out_root).unwrap();
            for (key, module) in resolved.modules() {
                pyxis::backends::rust::write_module(out_root, key, &resolved, module)
                    .map_err(|e| format!("write_module failed for {key}: {e:#}"))?;
            }
            for e in &p.externs {
                let mut path = out_root.to_path_buf();
                for seg in p.modules[e.module].split("::") {
                    path.push(seg);
                }
                path.as_mut_os_string().push(".rs");
                let text: String = std::fs::read_to_string(&path)
                    .map_err(|x| format!("{}: {x}", path.display()))?
                    .split_whitespace()
                    .collect();
                let bound = p.bind(&known, e.module, &e.ty.name).unwrap();
                let rust_path = if bound.contains("::") { format!("crate::{bound}") } else { bound };
                let ty: String = e.ty.display(&rust_path).split_whitespace().collect();
                let needle = format!("fnget_{}()->&'staticmut{}{{", e.name, ty);
                if !text.contains(&needle) {
                    return Err(format!("extern accessor `{needle}` not in {}", path.display()));
                }
            }
            // every declared struct/enum is in the text of its module
            for t in &p.types {
                let mut path = out_root.to_path_buf();
                for seg in p.modules[t.module].split("::") {
                    path.push(seg);
                }
                path.as_mut_os_string().push(".rs");
                let text = std::fs::read_to_string(&path).map_err(|x| format!("{}: {x}", path.display()))?;
                let kw = if matches!(t.kind, Kind::Enum { .. }) { "enum" } else { "struct" };
                if !text.contains(&format!("{kw} {} {{", t.name)) {
                    return Err(format!("`{kw} {}` not in {}", t.name, path.display()));
                }
            }
            Ok(())
        }
    }
}

fn main() {
    let args: Vec<String> = std::env::args().collect();
    let seed: u64 = args.get(1).map(|s| s.parse().unwrap()).unwrap_or(1);
    let iterations: usize = args.get(2).map(|s| s.parse().unwrap()).unwrap_or(1000);
    let out_root = std::env::temp_dir().join(format!("rev3c10_fuzz_{}", std::process::id()));
    let mut stats: BTreeMap<&str, usize> = BTreeMap::new();
    let mut failures = 0;
    for it in 0..iterations {
        let case_seed = seed.wrapping_mul(1_000_003).wrapping_add(it as u64);
        let mut rng = Rng(case_seed);
        let p = generate(&mut rng);
        let o = oracle(&p);
        *stats
            .entry(if !o.unresolved.is_empty() {
                "unresolvable"
            } else if o.extern_unbound {
                "extern_unbound"
            } else {
                "valid"
            })
            .or_default() += 1;
        // several runs per program: different hash orders, text orders, module orders
        for rep in 0..3 {
            let mut rng2 = Rng(case_seed ^ (rep as u64 + 1).wrapping_mul(0xABCDEF));
            let r = std::panic::catch_unwind(std::panic::AssertUnwindSafe(|| run(&p, &mut rng2, &out_root)));
            let r = match r {
                Ok(r) => r,
                Err(_) => Err("PANIC".to_string()),
            };
            if let Err(e) = r {
                failures += 1;
                println!("=== FAILURE case_seed={case_seed} rep={rep}: {e}");
                let mut rng3 = Rng(case_seed ^ (rep as u64 + 1).wrapping_mul(0xABCDEF));
                for m in 0..p.modules.len() {
                    println!("--- module {}\n{}", p.modules[m], p.text(m, &mut rng3));
                }
                break;
            }
        }
        if failures >= 5 {
            break;
        }
    }
    let _ = std::fs::remove_dir_all(&out_root);
    println!("done: {stats:?}, failures: {failures}");
    if failures > 0 {
        std::process::exit(1);
    }
}
