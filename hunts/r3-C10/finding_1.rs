// Finding 1 (C10, "a build never succeeds with a type left out" / clause (b)):
// since 079114d (directory walk instead of the `**/*.pyxis` glob) an input file that is
// called exactly `.pyxis` is skipped silently: `Path::extension()` is `None` for a name
// that is only a leading dot plus "pyxis". Its types are left out of the build, and an
// undefined name inside it no longer ends the build with an error.
//
// Exits 0 when the build is rejected (the undefined name `Undefined` is noticed) and
// non-zero when the build succeeds although a declared type was dropped.
use std::path::Path;

fn build(files: &[(&str, &str)]) -> (anyhow::Result<()>, Vec<String>) {
    let root = std::env::temp_dir().join(format!(
        "rev3c10_finding1_{}_{}",
        std::process::id(),
        files.len()
    ));
    let _ = std::fs::remove_dir_all(&root);
    let (in_dir, out_dir) = (root.join("in"), root.join("out"));
    std::fs::create_dir_all(&out_dir).unwrap();
    for (name, text) in files {
        let path = in_dir.join(name);
        std::fs::create_dir_all(path.parent().unwrap()).unwrap();
        std::fs::write(path, text).unwrap();
    }
    let result = pyxis::build(&in_dir, &out_dir, 4);
    let mut written = vec![];
    fn list(dir: &Path, base: &Path, out: &mut Vec<String>) {
        for e in std::fs::read_dir(dir).unwrap() {
            let p = e.unwrap().path();
            if p.is_dir() {
                list(&p, base, out);
            } else {
                out.push(p.strip_prefix(base).unwrap().display().to_string());
            }
        }
    }
    list(&out_dir, &out_dir, &mut written);
    written.sort();
    let _ = std::fs::remove_dir_all(&root);
    (result, written)
}

fn main() {
    let mut violated = false;

    // (1) an undefined field type in `.pyxis` (top level) and in `sub/.pyxis`
    for hidden in [".pyxis", "sub/.pyxis"] {
        let (result, written) = build(&[
            ("ok.pyxis", "type Fine { x: u32 }\n"),
            (hidden, "type Hidden { x: Undefined }\n"),
        ]);
        match result {
            Err(e) => println!("{hidden}: rejected as it should be: {e:#}"),
            Ok(()) => {
                println!(
                    "{hidden}: VIOLATION: build succeeded although `Hidden` has a field of the undefined type `Undefined`; files written: {written:?}"
                );
                violated = true;
            }
        }
    }

    // (2) a valid type in `.pyxis`: an accepted build has to contain it somewhere
    let (result, written) = build(&[
        ("ok.pyxis", "type Fine { x: u32 }\n"),
        (".pyxis", "type Hidden { x: u32 }\n"),
    ]);
    match result {
        Err(e) => println!("valid `.pyxis`: rejected ({e:#}); no type was dropped silently"),
        Ok(()) => {
            if written.len() < 2 {
                println!(
                    "valid `.pyxis`: VIOLATION: build succeeded but only {written:?} was written; the type `Hidden` is in no output file"
                );
                violated = true;
            } else {
                println!("valid `.pyxis`: written {written:?}");
            }
        }
    }

    if violated {
        std::process::exit(1);
    }
}
