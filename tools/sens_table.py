#!/usr/bin/env python3
"""Renders /verif/sensitivity.json as the markdown table used in DESIGN.md §10.5."""
import json, sys
rows = json.load(open(sys.argv[1] if len(sys.argv) > 1 else "/verif/sensitivity.json"))
idx = {m["name"]: m for m in json.load(open("/verif/mutants/index.json"))}
print("| change | kind | 62 tests | expected | caught by | first signature |")
print("|---|---|---|---|---|---|")
for r in rows:
    name = r["name"]
    subject = idx.get(name, {}).get("subject", "")
    label = name + (f" ({subject[5:60]})" if subject else "")
    if "error" in r:
        print(f"| {label} | {r['kind']} | - | {','.join(r['expect'])} | ERROR: {r['error'][:60]} | |")
        continue
    sig = ""
    for p in r.get("caught_by", []):
        s = r["checks"][p]["signatures"]
        if s:
            sig = s[0][:90].replace("|", "/")
            break
    caught = ", ".join(f"{p} ({r['checks'][p]['seconds']:.0f}s)" for p in r.get("caught_by", [])) or "**missed**"
    print(f"| {label} | {r['kind']} | {'pass' if r.get('tests_ok') else 'FAIL'} | {','.join(r['expect'])} | {caught} | `{sig}` |")
