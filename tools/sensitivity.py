#!/usr/bin/env python3
"""Sensitivity proof: applies each property-breaking change to a scratch copy of /repo, checks
that it compiles and passes the 62 pinned tests (guard off), builds the simulator against the
copy and runs the quick checks; a change is *caught* when a check expected to see it exits 1.

  tools/sensitivity.py                    all of mutants/index.json and seeded/*/meta.json
  tools/sensitivity.py NAME [NAME...]     only those
  options: --shard K/N (every N-th target starting at K; run N instances side by side) --out FILE
           --all-props (run every claimed property, not only the expected ones)
           --with-regressions (let the regression replays run too; default: search only)
           --cases N

Everything lives under /dev/shm/pyxis-mut and is removed afterwards. /repo itself is never touched.
"""
import json, os, shutil, subprocess, sys, time, glob

REPO, VERIF, ROOT = "/repo", "/verif", f"/dev/shm/pyxis-mut-{os.getpid()}"
PROPS = ["C09", "C10", "C12", "C14", "C19"]
ENV = dict(os.environ, CARGO_NET_OFFLINE="true")

def run(cmd, timeout=None, env=None, cwd=None):
    t = time.time()
    try:
        r = subprocess.run(cmd, capture_output=True, text=True, timeout=timeout, env=env or ENV, cwd=cwd)
        return r.returncode, r.stdout + r.stderr, time.time() - t
    except subprocess.TimeoutExpired as e:
        return None, (e.stdout or "") + (e.stderr or "") if isinstance(e.stdout, str) else "", time.time() - t

def load_targets():
    out = []
    for m in json.load(open(f"{VERIF}/mutants/index.json")):
        out.append(dict(m, patch=f"{VERIF}/mutants/{m['patch']}", kind="mutant"))
    for meta in sorted(glob.glob(f"{VERIF}/seeded/*/meta.json")):
        m = json.load(open(meta))
        if m.get("retired"):
            continue
        d = os.path.dirname(meta)
        out.append({"name": "seeded-" + os.path.basename(d), "patch": f"{d}/patch.diff", "reverse": False,
                    "expect": m.get("expect", [m.get("property")]), "kind": "seeded",
                    "base": m.get("base", "HEAD") if m.get("base") and "Obsoleted" in m.get("status", "") else "HEAD",
                    "need_sig": m.get("expect_signature_contains")})
    return out

def one(target, props_mode, with_regressions, cases):
    name = target["name"]
    work = f"{ROOT}/{name}"
    shutil.rmtree(work, ignore_errors=True)
    os.makedirs(work)
    res = {"name": name, "kind": target["kind"], "expect": target["expect"], "checks": {}}
    subprocess.run(["git", "-C", REPO, "worktree", "prune"], capture_output=True)
    rc, out, _ = run(["git", "-C", REPO, "worktree", "add", "--detach", f"{work}/repo", target.get("base", "HEAD")])
    res["base"] = target.get("base", "HEAD")
    if rc != 0:
        res["error"] = "worktree: " + out[-300:]
        return res
    try:
        cmd = ["git", "-C", f"{work}/repo", "apply"] + (["-R"] if target.get("reverse") else []) + [target["patch"]]
        rc, out, _ = run(cmd)
        if rc != 0:
            res["error"] = "patch does not apply: " + out[-300:]
            return res
        # 1. compiles and passes the pinned tests with the guard off
        env = dict(ENV, CARGO_TARGET_DIR=f"{ROOT}/target-tests")
        rc, out, secs = run(["cargo", "test", "--workspace", "--no-fail-fast", "--offline"], timeout=600, env=env, cwd=f"{work}/repo")
        passed = [l for l in out.splitlines() if l.startswith("test result:")]
        res["tests"] = passed[0] if passed else out[-300:]
        res["tests_ok"] = rc == 0 and any(" 62 passed; 0 failed" in l for l in passed)
        # 2. simulator against the copy
        shutil.copytree(os.environ.get("PYXIS_SENS_SIM", f"{VERIF}/sim"), f"{work}/sim", ignore=shutil.ignore_patterns("target", "build.log"))
        toml = open(f"{work}/sim/Cargo.toml").read().replace('path = "/repo"', f'path = "{work}/repo"')
        open(f"{work}/sim/Cargo.toml", "w").write(toml)
        env = dict(ENV, CARGO_TARGET_DIR=f"{ROOT}/target-sim")
        rc, out, secs = run(["cargo", "build", "--release", "--offline"], timeout=900, env=env, cwd=f"{work}/sim")
        if rc != 0:
            res["error"] = "simulator does not build against the change: " + out[-600:]
            return res
        binary = f"{ROOT}/target-sim/release/pyxis-sim"
        vdir = f"{work}/verif"
        os.makedirs(vdir)
        shutil.copy(f"{VERIF}/known_findings.json", vdir)
        if with_regressions:
            shutil.copytree(f"{VERIF}/regressions", f"{vdir}/regressions")
        props = PROPS if props_mode == "all" else [p for p in PROPS if p in target["expect"]]
        for p in props:
            env = dict(ENV, PYXIS_SIM_VERIF_DIR=vdir)
            cmd = [binary, "check", p, "quick", "--no-evidence"] + (["--cases", str(cases)] if cases else [])
            rc, out, secs = run(cmd, timeout=1500, env=env)
            sigs = [l.strip()[len("signature: "):] for l in out.splitlines() if l.strip().startswith("signature: ")]
            summary = [l for l in out.splitlines() if l.startswith("cases=")]
            res["checks"][p] = {"exit": rc, "seconds": round(secs, 1), "signatures": sigs[:8],
                                "summary": summary[0] if summary else out[-200:]}
        need = target.get("need_sig")
        res["caught_by"] = [p for p, c in res["checks"].items() if c["exit"] == 1
                            and (not need or any(need in s for s in c["signatures"]))]
        res["caught"] = any(p in res["caught_by"] for p in target["expect"]) if target["expect"] else bool(res["caught_by"])
    finally:
        subprocess.run(["git", "-C", REPO, "worktree", "remove", "--force", f"{work}/repo"], capture_output=True)
        shutil.rmtree(work, ignore_errors=True)
    return res

def main():
    args = sys.argv[1:]
    props_mode = "all" if "--all-props" in args else "expected"
    with_regressions = "--with-regressions" in args
    cases = None
    if "--cases" in args:
        cases = int(args[args.index("--cases") + 1])
    out_file = args[args.index("--out") + 1] if "--out" in args else None
    shard = args[args.index("--shard") + 1] if "--shard" in args else None
    skip = {out_file, shard}
    names = [a for a in args if not a.startswith("--") and not a.isdigit() and a not in skip]
    targets = [t for t in load_targets() if not names or t["name"] in names]
    if shard:
        k, n = (int(x) for x in shard.split("/"))
        targets = targets[k::n]
    os.makedirs(ROOT, exist_ok=True)
    results = []
    try:
        for t in targets:
            r = one(t, props_mode, with_regressions, cases)
            results.append(r)
            status = "ERROR " + r["error"] if "error" in r else ("caught by " + ",".join(r["caught_by"]) if r.get("caught") else "MISSED")
            tests = "tests ok" if r.get("tests_ok") else "TESTS FAIL"
            secs = {p: c["seconds"] for p, c in r.get("checks", {}).items()}
            print(f"{r['name']:55s} {tests:10s} expect={','.join(r['expect']):12s} {status}  {secs}", flush=True)
    finally:
        shutil.rmtree(f"{ROOT}/target-tests", ignore_errors=True)
        shutil.rmtree(f"{ROOT}/target-sim", ignore_errors=True)
        shutil.rmtree(ROOT, ignore_errors=True)
        subprocess.run(["git", "-C", REPO, "worktree", "prune"], capture_output=True)
    if out_file:
        json.dump(results, open(out_file, "w"), indent=1)
    elif not names:
        json.dump(results, open(f"{VERIF}/sensitivity.json", "w"), indent=1)
    missed = [r["name"] for r in results if not r.get("caught") and "error" not in r and r.get("tests_ok")]
    print(f"{len(results)} changes, {len(missed)} missed: {missed}")

if __name__ == "__main__":
    main()
