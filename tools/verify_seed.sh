#!/bin/sh
# tools/verify_seed.sh <agent worktree> <id> <property>
# Confirms a sub-agent's property-breaking change independently, in a fresh scratch worktree of
# /repo's HEAD: the demo passes without the change, the change applies, compiles and passes the
# 62 pinned tests, and the demo fails with it. On success stores it under /verif/seeded/<id>/.
set -u
src=$1; id=$2; prop=$3
w=/tmp/verify-$id
export CARGO_NET_OFFLINE=true CARGO_TARGET_DIR=$w/target
git -C /repo worktree remove --force $w >/dev/null 2>&1; rm -rf $w
git -C /repo worktree add -q --detach $w HEAD || exit 2
cleanup() { git -C /repo worktree remove --force $w >/dev/null 2>&1; rm -rf $w; }
cp $src/SEED/seed_demo.rs $w/examples/seed_demo.rs
[ -d $src/SEED/input ] && cp -r $src/SEED/input $w/SEED_input
cd $w
echo "== demo WITHOUT the change"
ok_without=1
for i in 1 2 3; do timeout 300 cargo run -q --offline --example seed_demo >/tmp/verify-$id.out 2>&1; rc=$?; echo "run $i exit $rc"; [ $rc -eq 0 ] || ok_without=0; done
echo "== apply + tests"
git apply $src/SEED/patch.diff || { echo "patch does not apply"; cleanup; exit 1; }
tests=$(cargo test --workspace --no-fail-fast --offline 2>&1 | grep "^test result" | head -1); echo "$tests"
echo "== demo WITH the change"
ok_with=1
for i in 1 2 3; do timeout 300 cargo run -q --offline --example seed_demo >/tmp/verify-$id.out 2>&1; rc=$?; echo "run $i exit $rc"; [ $rc -ne 0 ] || ok_with=0; done
tail -5 /tmp/verify-$id.out
case "$tests" in *"62 passed; 0 failed"*) tests_ok=1;; *) tests_ok=0;; esac
if [ $ok_without = 1 ] && [ $ok_with = 1 ] && [ $tests_ok = 1 ]; then
  d=/verif/seeded/$id; mkdir -p $d
  cp $src/SEED/patch.diff $d/patch.diff; cp $src/SEED/seed_demo.rs $d/; cp $src/SEED/README.md $d/AGENT_README.md
  [ -d $src/SEED/input ] && cp -r $src/SEED/input $d/input
  echo "CONFIRMED -> $d"
  rc=0
else
  echo "NOT CONFIRMED (without=$ok_without with=$ok_with tests=$tests_ok)"; rc=1
fi
cleanup; rm -f /tmp/verify-$id.out
exit $rc
