#!/usr/bin/env python3
"""Regenerates /verif/mutants/*.patch from textual substitutions against /repo's HEAD.

Each mutant is a change that compiles and (by intention) passes the 62 pinned tests while
breaking one of the claimed properties. Reverse patches of the `fix:` commits are added too.
Nothing here touches /repo's working tree: a scratch worktree under /dev/shm is used and removed.
"""
import json, os, subprocess, sys, shutil

REPO = "/repo"
OUT = "/verif/mutants"
SCRATCH = "/dev/shm/pyxis-mut/gen"

def sh(*a, **k):
    return subprocess.run(a, check=True, capture_output=True, text=True, **k).stdout

MUTANTS = [
  # name, expected properties, [(file, old, new)]
  ("c09-drop-definition-sort", ["C09"], [("src/backends/rust.rs",
     "    definitions.sort_by_key(|d| &d.path);\n", "")]),
  ("c09-asref-impls-in-hashmap-order", ["C09"], [("src/backends/rust.rs",
     """        types_to_field_paths
            .iter()
            .map(|(type_, field_path)| {
                let implementations = &types_to_field_paths_vec[type_];""",
     """        types_to_field_paths_vec
            .iter()
            .flat_map(|(type_, paths)| paths.iter().map(move |p| (*type_, *p)))
            .map(|(type_, field_path)| {
                let implementations = &types_to_field_paths_vec[type_];""")]),
  ("c09-process-wide-name-interner", ["C09"], [("src/backends/rust.rs",
     """    let size_check_ident = quote::format_ident!("_{}_size_check", unraw(name.as_str()));
    let size_check_impl = (size > 0).then(|| {
        let size = hex_literal(size);
        quote! {
            fn #size_check_ident() {
                unsafe {
                    ::std::mem::transmute::<[u8; #size], #name_ident>([0u8; #size]);
                }
                unreachable!()
            }
        }
    });

    let singleton_impl = singleton.map(|address| {
        quote! {""",
     """    // Size check functions of equally named types in different modules get distinct names
    static NAME_IDS: std::sync::Mutex<Vec<String>> = std::sync::Mutex::new(Vec::new());
    let name_id = {
        let mut ids = NAME_IDS.lock().unwrap();
        match ids.iter().position(|n| n == name.as_str()) {
            Some(i) => i,
            None => {
                ids.push(name.as_str().to_string());
                ids.len() - 1
            }
        }
    };
    let size_check_ident =
        quote::format_ident!("_{}_size_check_{}", unraw(name.as_str()), name_id);
    let size_check_impl = (size > 0).then(|| {
        let size = hex_literal(size);
        quote! {
            fn #size_check_ident() {
                unsafe {
                    ::std::mem::transmute::<[u8; #size], #name_ident>([0u8; #size]);
                }
                unreachable!()
            }
        }
    });

    let singleton_impl = singleton.map(|address| {
        quote! {""")]),
  ("c09-pass-limit", ["C09", "C10"], [("src/semantic/semantic_state.rs",
     """        loop {
            let to_resolve = self.type_registry.unresolved();""",
     """        let mut passes = 0;
        loop {
            passes += 1;
            anyhow::ensure!(passes <= 6, "type resolution is taking too many passes");
            let to_resolve = self.type_registry.unresolved();""")]),
  ("c10-zero-length-array-needs-no-element-size", ["C10"], [("src/semantic/types.rs",
     "            Type::Array(tr, count) => tr.size(type_registry).map(|s| s.saturating_mul(*count)),",
     "            Type::Array(_, 0) => Some(0),\n            Type::Array(tr, count) => tr.size(type_registry).map(|s| s.saturating_mul(*count)),")]),
  ("c10-undefined-enum-base-defaults-to-u32", ["C10"], [("src/semantic/enum_definition.rs",
     """    let Some(ty) = semantic
        .type_registry
        .resolve_grammar_type(&module.scope(), &definition.type_)
    else {""",
     """    let Some(ty) = semantic
        .type_registry
        .resolve_grammar_type(&module.scope(), &definition.type_)
        .or_else(|| semantic.type_registry.resolve_string(&[], "u32"))
    else {""")]),
  ("c10-bail-lists-first-failed-type-only", ["C10"], [("src/semantic/semantic_state.rs",
     "                    Vec::from_iter(to_resolve.iter().map(|s| s.to_string())),",
     "                    Vec::from_iter(to_resolve.iter().take(1).map(|s| s.to_string())),")]),
  ("c10-array-of-type-declared-further-down-rejected", ["C10"], [("src/semantic/semantic_state.rs",
     """        for definition in &module.definitions {
            let new_path = path.join(definition.name.as_str().into());
            // A type with a vftable block""",
     """        // Fields are laid out in one pass: what a type embeds has to be declared above it.
        for (index, definition) in module.definitions.iter().enumerate() {
            if let grammar::ItemDefinitionInner::Type(ty) = &definition.inner {
                for statement in &ty.statements {
                    if let grammar::TypeField::Field(_, _, grammar::Type::Array(element, _)) = &statement.field {
                        let grammar::Type::Ident(used) = &**element else { continue };
                        if module.definitions[index + 1..]
                            .iter()
                            .any(|later| later.name.as_str() == used.as_str())
                        {
                            anyhow::bail!(
                                "`{}` embeds `{}`, which is declared further down in module `{}`",
                                definition.name,
                                used,
                                path
                            );
                        }
                    }
                }
            }
        }
        for definition in &module.definitions {
            let new_path = path.join(definition.name.as_str().into());
            // A type with a vftable block""")]),
  ("c10-pointer-needs-resolved-pointee", ["C10"], [("src/semantic/types.rs",
     "            Type::ConstPointer(_) => Some(type_registry.pointer_size()),\n            Type::MutPointer(_) => Some(type_registry.pointer_size()),\n            // Saturates",
     "            Type::ConstPointer(t) | Type::MutPointer(t) => match t.as_ref() {\n                Type::Raw(_) => t.size(type_registry).map(|_| type_registry.pointer_size()),\n                _ => Some(type_registry.pointer_size()),\n            },\n            // Saturates")]),
  ("c10-unresolvable-extern-value-skipped", ["C10", "C12"], [("src/semantic/module.rs",
     """                ev.type_ = type_registry
                    .resolve_grammar_type(&scope, type_ref)
                    .ok_or_else(|| anyhow::anyhow!("failed to resolve type for {}", ev.name))?;""",
     """                if let Some(resolved) = type_registry.resolve_grammar_type(&scope, type_ref) {
                    ev.type_ = resolved;
                }""")]),
  ("c12-progress-check-only-for-single-item", ["C12", "C10"], [("src/semantic/semantic_state.rs",
     "            if to_resolve == self.type_registry.unresolved()\n                && registered",
     "            if to_resolve.len() < 2\n                && to_resolve == self.type_registry.unresolved()\n                && registered")]),
  ("c12-parse-error-column-zero-based", ["C12"], [("src/semantic/semantic_state.rs",
     "                    line,\n                    column + 1\n",
     "                    line,\n                    column\n")]),
  ("c14-root-module-skip-removed", ["C14"], [("src/backends/rust.rs",
     "    if key.is_empty() {\n        return Ok(());\n    }\n", "")]),
  ("c14-prologue-epilogue-swapped", ["C14"], [("src/backends/rust.rs",
     '    writeln!(raw_output, "{prologues}")?;', '    writeln!(raw_output, "{epilogues}")?;'),
     ("src/backends/rust.rs",
     '    writeln!(raw_output, "{epilogues}")?;\n\n    let mut error', '    writeln!(raw_output, "{prologues}")?;\n\n    let mut error')]),
  ("c14-prologues-joined-in-reverse", ["C14"], [("src/backends/rust.rs",
     """        .flat_map(|bs| bs.iter().flat_map(|b| &b.prologue))
        .map(|s| s.as_str())
        .collect::<Vec<_>>()""",
     """        .flat_map(|bs| bs.iter().rev().flat_map(|b| &b.prologue))
        .map(|s| s.as_str())
        .collect::<Vec<_>>()""")]),
  ("c14-extern-types-emitted", ["C14"], [("src/backends/rust.rs",
     "        ItemCategory::Extern => Ok(quote! {}),",
     "        ItemCategory::Extern => match inner {\n            IDI::Type(td) => build_type(type_registry, path, *size, *alignment, visibility, td),\n            IDI::Enum(ed) => build_enum(path, *size, visibility, ed),\n        },")]),
  ("c14-any-backend-when-no-rust-backend", ["C14"], [("src/backends/rust.rs",
     '    let backends = module.backends.get("rust");',
     '    let backends = module\n        .backends\n        .get("rust")\n        .or_else(|| module.backends.values().next());')]),
  ("c14-nested-directories-flattened", ["C14"], [("src/backends/rust.rs",
     "    for segment in key.iter() {\n        path.push(segment.as_str());\n    }",
     "    for segment in key.iter().skip(key.len().saturating_sub(2)) {\n        path.push(segment.as_str());\n    }")]),
  ("c14-vftable-item-registered-in-grandparent-when-nested", ["C14"], [("src/semantic/type_definition/vftable.rs",
     "    let resolvee_vtable_path = parent.join(",
     "    let parent = if parent.len() >= 3 { parent.parent().unwrap_or(parent) } else { parent };\n    let resolvee_vtable_path = parent.join(")]),
  ("c14-generated-file-not-rewritten", ["C14"], [("src/backends/rust.rs",
     '    std::fs::write(&path, output).context("failed to write file")?;',
     '    // Leave files alone that a previous run has generated already\n    let already_generated = std::fs::read_to_string(&path)\n        .map(|old| old.starts_with("#![allow(") && old.lines().count() == output.lines().count())\n        .unwrap_or(false);\n    if !already_generated {\n        std::fs::write(&path, output).context("failed to write file")?;\n    }')]),
  ("c19-lookup-by-short-name-over-all-modules", ["C19"], [("src/semantic/type_registry.rs",
     """                    .map(|ip| ip.join(name.into()))
                    .find(|ip| self.is_known(ip))
            })""",
     """                    .map(|ip| ip.join(name.into()))
                    .find(|ip| self.is_known(ip))
                    .map(|found| {
                        // prefer the "canonical" (smallest) definition of that name
                        self.types
                            .keys()
                            .filter(|k| k.len() > 1 && k.last() == found.last() && found.len() > 1)
                            .min()
                            .cloned()
                            .unwrap_or(found)
                    })
            })""")]),
  ("c19-header-depends-on-project-size", ["C19"], [("src/backends/rust.rs",
     '    writeln!(raw_output, "#![cfg_attr(any(), rustfmt::skip)]")?;',
     '    writeln!(raw_output, "#![cfg_attr(any(), rustfmt::skip)]")?;\n    if semantic_state.modules().len() > 5 {\n        writeln!(raw_output, "#![allow(clippy::module_inception)]")?;\n    }')]),
]

def main():
    os.makedirs(OUT, exist_ok=True)
    shutil.rmtree(SCRATCH, ignore_errors=True)
    os.makedirs(os.path.dirname(SCRATCH), exist_ok=True)
    sh("git", "-C", REPO, "worktree", "prune")
    sh("git", "-C", REPO, "worktree", "add", "--detach", SCRATCH, "HEAD")
    index = []
    try:
        for name, expect, subs in MUTANTS:
            ok = True
            for f, old, new in subs:
                p = os.path.join(SCRATCH, f)
                s = open(p).read()
                if s.count(old) != 1:
                    print(f"!! {name}: pattern matches {s.count(old)} times in {f}", file=sys.stderr)
                    ok = False
                    break
                open(p, "w").write(s.replace(old, new))
            if ok:
                diff = sh("git", "-C", SCRATCH, "diff", "--", "src")
                open(os.path.join(OUT, name + ".patch"), "w").write(diff)
                index.append({"name": name, "patch": name + ".patch", "reverse": False, "expect": expect})
            sh("git", "-C", SCRATCH, "checkout", "--", ".")
        # Reverse patches of the repairs.
        log = sh("git", "-C", REPO, "log", "--format=%h %s", "--grep", "^fix:").strip().splitlines()
        expect_for = {
            "defer a derived type": ["C09"], "function signatures": ["C09", "C10"],
            "defined more than once": ["C09", "C14"], "append .rs": ["C09", "C14"],
            "literal path when globbing": ["C14"], "two extern values": ["C14"],
            "every impl block": ["C10"], "independently of resolution order": ["C09"],
            "has made progress": ["C09"],
        }
        # Reverting these alone no longer breaks anything: a later repair covers the same input.
        masked = {"86ff219": "extern align(0) is now also rejected when embedded, by the lcm repair 79fa87e",
                  "d2db2a1": "the glob pattern it escaped was replaced by a directory walk in 079114d",
                  "89ad505": "add_module itself rejects a declared path that is already registered since d9e0ed9",
                  "a0de194": "the written form of every type is measured right before syn parses it since 3d4d3b7, which also bounds generic-looking names",
                  "72d95f2": "cannot be taken back alone: a0de194 uses the constant it introduced (the tree does not compile without it)",
                  "879caed": "names bound to a vftable type that is still to be generated resolve right away since e16907c, so no pass is left in which generating it is the only progress (its own regression replay holds without it)"}
        # Which property found the defect a repair is for: from the known-findings file.
        found_by = {}
        for f in json.load(open("/verif/known_findings.json"))["findings"]:
            if f.get("status") == "fixed" and f.get("commit"):
                found_by.setdefault(f["commit"][:7], [])
                if f["property"] not in found_by[f["commit"][:7]]:
                    found_by[f["commit"][:7]].append(f["property"])
        skipped = []
        for line in log:
            h, subject = line.split(" ", 1)
            if h in masked:
                continue
            expect = found_by.get(h[:7]) or ["C12"]
            for k, v in expect_for.items():
                if k in subject:
                    expect = sorted(set(expect) | set(v)) if h[:7] in found_by else v
            name = "undo-" + h
            diff = sh("git", "-C", REPO, "show", "--format=", h, "--", "src")
            path = os.path.join(OUT, name + ".patch")
            open(path, "w").write(diff)
            # A repair whose surroundings were rewritten by later repairs cannot be taken back
            # alone any more.
            r = subprocess.run(["git", "-C", SCRATCH, "apply", "-R", "--check", path], capture_output=True)
            if r.returncode != 0:
                os.remove(path)
                skipped.append(h)
                continue
            index.append({"name": name, "patch": name + ".patch", "reverse": True, "expect": expect, "subject": subject})
        if skipped:
            print("reverse patches that no longer apply to HEAD (left out):", " ".join(skipped))
    finally:
        sh("git", "-C", REPO, "worktree", "remove", "--force", SCRATCH)
        shutil.rmtree("/dev/shm/pyxis-mut/gen", ignore_errors=True)
    json.dump(index, open(os.path.join(OUT, "index.json"), "w"), indent=1)
    print(f"{len(index)} mutants written to {OUT}")

if __name__ == "__main__":
    main()
