//! Known findings: genuine defects of pyxis that are recorded rather than repaired, and the
//! record of the ones that were repaired. The file is committed and never written at run time.

use serde::{Deserialize, Serialize};

use crate::case::Case;

#[derive(Clone, Debug, Serialize, Deserialize)]
pub struct Finding {
    /// "known" (suppresses a VIOLATION with this signature, prints KNOWN-FINDING instead) or
    /// "fixed" (documentation only; suppresses nothing).
    pub status: String,
    pub property: String,
    pub signature: String,
    #[serde(default)]
    pub commit: String,
    pub what: String,
}

#[derive(Clone, Debug, Default, Serialize, Deserialize)]
pub struct Findings {
    pub findings: Vec<Finding>,
}

pub fn load(path: &str) -> Findings {
    match std::fs::read_to_string(path) {
        Ok(t) => serde_json::from_str(&t).unwrap_or_else(|e| {
            eprintln!("harness error: {path}: {e}");
            std::process::exit(2)
        }),
        Err(_) => Findings::default(),
    }
}

fn mask_numbers(s: &str) -> String {
    let mut out = String::new();
    let mut in_num = false;
    for c in s.chars() {
        if c.is_ascii_digit() {
            if !in_num {
                out.push('#');
            }
            in_num = true;
        } else {
            in_num = false;
            out.push(c);
        }
    }
    out
}

fn mask_quoted(s: &str) -> String {
    let mut out = String::new();
    let mut in_quote = false;
    for c in s.chars() {
        if c == '"' {
            in_quote = !in_quote;
            out.push('"');
        } else if !in_quote {
            out.push(c);
        }
    }
    out
}

fn mask_names(s: &str) -> String {
    let mut out = String::new();
    let mut in_tick = false;
    for c in s.chars() {
        if c == '`' {
            in_tick = !in_tick;
            out.push('`');
        } else if !in_tick {
            out.push(c);
        }
    }
    out
}

/// What identifies a violation beyond its property: the violation class plus the features of
/// the (minimised) case that make it fail. Two different defects get different signatures, so
/// listing one never hides the other.
pub fn signature(case: &Case, class: &str, detail: &str) -> String {
    let mut feats: Vec<String> = vec![];
    let text: String = case
        .worlds
        .iter()
        .flat_map(|w| w.module_files().into_iter().map(|(_, b)| b.lossy()))
        .collect::<Vec<_>>()
        .join("\n");
    let paths: Vec<String> = case
        .worlds
        .iter()
        .flat_map(|w| w.module_files().into_iter().map(|(p, _)| p.to_string()))
        .collect();
    if class.starts_with("killed") {
        feats.push("did-not-finish".into());
    } else if class.starts_with("panic") || class == "step-budget" {
        // location file + message with numbers masked (line numbers move under unrelated edits)
        let d = detail.split(" at ").collect::<Vec<_>>();
        let msg = mask_quoted(&mask_numbers(d.first().copied().unwrap_or("")));
        let file = d
            .last()
            .map(|l| l.split(':').next().unwrap_or("").to_string())
            .unwrap_or_default();
        let msg = msg.split("build #: ").last().unwrap_or(&msg).to_string();
        feats.push(format!("msg={}", crate::run::truncate(&msg, 80)));
        if d.len() > 1 {
            feats.push(format!("file={file}"));
        }
    }
    if class.starts_with("outcome-differs") {
        // Which error the failing side reports, with names and numbers masked.
        if let Some(pos) = detail.find("Err(") {
            let e = &detail[pos + 4..];
            let e = e.split(" / build").next().unwrap_or(e);
            feats.push(format!("err={}", crate::run::truncate(&mask_names(&mask_numbers(e)), 70)));
        }
    }
    let mentions_vftable_name = text
        .split(|c: char| !c.is_alphanumeric() && c != '_')
        .any(|w| w.ends_with("Vftable") && w.len() > "Vftable".len());
    if mentions_vftable_name {
        // Is the name declared by the user, or only mentioned?
        let declared = text.contains("Vftable {") || text.contains("Vftable;");
        feats.push(if declared {
            "user-declares-generated-vftable-name".into()
        } else {
            "mentions-generated-vftable-name".into()
        });
    }
    if paths.iter().any(|p| {
        std::path::Path::new(p)
            .file_stem()
            .map(|s| s.to_string_lossy().contains('.'))
            .unwrap_or(false)
    }) {
        feats.push("module-file-name-with-extra-dot".into());
    }
    if case.worlds.iter().any(|w| {
        w.in_dir
            .chars()
            .any(|c| matches!(c, '[' | ']' | '*' | '?' | '{' | '}'))
    }) {
        feats.push("glob-metacharacter-in-input-dir".into());
    }
    feats.sort();
    format!("{}/{}/{}", case.property, class, feats.join(","))
}
