//! What an emitted `.rs` file contains, read back with syn (never by text matching).

use std::collections::BTreeMap;

use quote::ToTokens;

#[derive(Clone, Debug, Default, PartialEq, Eq)]
pub struct Method {
    pub name: String,
    pub has_receiver: bool,
    /// Normalised types of the non-receiver parameters.
    pub params: Vec<String>,
    pub ret: Option<String>,
    pub is_pub: bool,
}

#[derive(Clone, Debug, PartialEq, Eq)]
pub enum Top {
    Struct(String),
    Enum(String),
    Fn(String),
    Const(String),
    Impl(String),
    TraitImpl(String),
    Other(String),
}

#[derive(Clone, Debug, Default)]
pub struct Inventory {
    /// Top-level items in file order.
    pub order: Vec<Top>,
    pub structs: BTreeMap<String, usize>,
    pub struct_fields: BTreeMap<String, Vec<(String, String)>>,
    pub enums: BTreeMap<String, usize>,
    /// Normalised `#[repr(..)]` argument and variant names of every enum.
    pub enum_reprs: BTreeMap<String, String>,
    pub enum_variants: BTreeMap<String, Vec<String>>,
    pub fns: BTreeMap<String, usize>,
    /// Normalised return type of every top-level function.
    pub fn_rets: BTreeMap<String, Option<String>>,
    /// Inherent methods per type.
    pub methods: BTreeMap<String, Vec<Method>>,
    /// const name -> token text of the whole item
    pub consts: BTreeMap<String, String>,
}

/// A type reduced to its shape and the last segment of every path, with `c_void` as `void`.
pub fn normalise_type(ty: &syn::Type) -> String {
    match ty {
        syn::Type::Ptr(p) => format!(
            "*{} {}",
            if p.mutability.is_some() { "mut" } else { "const" },
            normalise_type(&p.elem)
        ),
        syn::Type::Array(a) => format!(
            "[{}; {}]",
            normalise_type(&a.elem),
            a.len.to_token_stream().to_string().replace(' ', "")
        ),
        syn::Type::Path(p) => {
            let last = p
                .path
                .segments
                .last()
                .map(|s| s.ident.to_string())
                .unwrap_or_default();
            if last == "c_void" {
                "void".into()
            } else {
                last
            }
        }
        syn::Type::Reference(r) => format!(
            "&{}{}",
            if r.mutability.is_some() { "mut " } else { "" },
            normalise_type(&r.elem)
        ),
        syn::Type::BareFn(f) => {
            let args: Vec<String> = f.inputs.iter().map(|a| normalise_type(&a.ty)).collect();
            let ret = match &f.output {
                syn::ReturnType::Type(_, t) => format!(" -> {}", normalise_type(t)),
                syn::ReturnType::Default => String::new(),
            };
            format!("fn({}){}", args.join(", "), ret)
        }
        other => other.to_token_stream().to_string(),
    }
}

/// The same normal form for a pyxis grammar type.
pub fn normalise_grammar_type(ty: &pyxis::grammar::Type) -> String {
    use pyxis::grammar::Type as T;
    match ty {
        T::ConstPointer(t) => format!("*const {}", normalise_grammar_type(t)),
        T::MutPointer(t) => format!("*mut {}", normalise_grammar_type(t)),
        T::Array(t, n) => format!("[{}; {}]", normalise_grammar_type(t), n),
        T::Ident(i) => i.as_str().to_string(),
        T::Unknown(n) => format!("[u8; {n}]"),
    }
}

pub fn inventory(text: &str) -> Result<Inventory, String> {
    let file = syn::parse_file(text).map_err(|e| e.to_string())?;
    let mut inv = Inventory::default();
    for item in &file.items {
        match item {
            syn::Item::Struct(s) => {
                let n = s.ident.to_string();
                *inv.structs.entry(n.clone()).or_insert(0) += 1;
                let fields = s
                    .fields
                    .iter()
                    .map(|f| {
                        (
                            f.ident.as_ref().map(|i| i.to_string()).unwrap_or_default(),
                            normalise_type(&f.ty),
                        )
                    })
                    .collect();
                inv.struct_fields.insert(n.clone(), fields);
                inv.order.push(Top::Struct(n));
            }
            syn::Item::Enum(e) => {
                let n = e.ident.to_string();
                *inv.enums.entry(n.clone()).or_insert(0) += 1;
                for a in &e.attrs {
                    if a.path().is_ident("repr") {
                        if let Ok(t) = a.parse_args::<syn::Type>() {
                            inv.enum_reprs.insert(n.clone(), normalise_type(&t));
                        }
                    }
                }
                inv.enum_variants.insert(
                    n.clone(),
                    e.variants.iter().map(|v| v.ident.to_string()).collect(),
                );
                inv.order.push(Top::Enum(n));
            }
            syn::Item::Fn(f) => {
                let n = f.sig.ident.to_string();
                *inv.fns.entry(n.clone()).or_insert(0) += 1;
                inv.fn_rets.insert(
                    n.clone(),
                    match &f.sig.output {
                        syn::ReturnType::Type(_, t) => Some(normalise_type(t)),
                        syn::ReturnType::Default => None,
                    },
                );
                inv.order.push(Top::Fn(n));
            }
            syn::Item::Const(c) => {
                let n = c.ident.to_string();
                inv.consts
                    .insert(n.clone(), c.to_token_stream().to_string());
                inv.order.push(Top::Const(n));
            }
            syn::Item::Impl(i) => {
                let self_ty = normalise_type(&i.self_ty);
                if i.trait_.is_some() {
                    inv.order.push(Top::TraitImpl(self_ty));
                    continue;
                }
                let methods = inv.methods.entry(self_ty.clone()).or_default();
                for it in &i.items {
                    if let syn::ImplItem::Fn(f) = it {
                        let mut m = Method {
                            name: f.sig.ident.to_string(),
                            is_pub: matches!(f.vis, syn::Visibility::Public(_)),
                            ..Default::default()
                        };
                        for a in &f.sig.inputs {
                            match a {
                                syn::FnArg::Receiver(_) => m.has_receiver = true,
                                syn::FnArg::Typed(t) => m.params.push(normalise_type(&t.ty)),
                            }
                        }
                        if let syn::ReturnType::Type(_, t) = &f.sig.output {
                            m.ret = Some(normalise_type(t));
                        }
                        methods.push(m);
                    }
                }
                inv.order.push(Top::Impl(self_ty));
            }
            other => inv
                .order
                .push(Top::Other(other.to_token_stream().to_string())),
        }
    }
    Ok(inv)
}
