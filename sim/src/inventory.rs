//! What an emitted `.rs` file contains, read back with syn (never by text matching).

use std::collections::BTreeMap;

use quote::ToTokens;

#[derive(Clone, Debug, Default, PartialEq, Eq)]
pub struct Method {
    pub name: String,
    pub has_receiver: bool,
    /// Normalised types of the non-receiver parameters.
    pub params: Vec<String>,
    pub ret: Option<String>,
    pub is_pub: bool,
}

#[derive(Clone, Debug, PartialEq, Eq)]
pub enum Top {
    Struct(String),
    Enum(String),
    Fn(String),
    Const(String),
    Impl(String),
    TraitImpl(String),
    Other(String),
}

#[derive(Clone, Debug, Default)]
pub struct Inventory {
    /// Top-level items in file order.
    pub order: Vec<Top>,
    pub structs: BTreeMap<String, usize>,
    pub struct_fields: BTreeMap<String, Vec<(String, String)>>,
    pub enums: BTreeMap<String, usize>,
    /// Normalised `#[repr(..)]` argument and variant names of every enum.
    pub enum_reprs: BTreeMap<String, String>,
    pub enum_variants: BTreeMap<String, Vec<String>>,
    pub fns: BTreeMap<String, usize>,
    /// Normalised return type of every top-level function.
    pub fn_rets: BTreeMap<String, Option<String>>,
    /// Inherent methods per type.
    pub methods: BTreeMap<String, Vec<Method>>,
    /// const name -> token text of the whole item
    pub consts: BTreeMap<String, String>,
}

/// `r#Foo` and `Foo` are the same Rust identifier (unless `Foo` is a keyword).
pub fn plain_ident(name: &str) -> String {
    match name.strip_prefix("r#") {
        Some(plain) if syn::parse_str::<syn::Ident>(plain).is_ok() => plain.to_string(),
        _ => name.to_string(),
    }
}

/// The name of the vftable struct that belongs to the type called `owner`: `FooVftable`, and
/// `typeVftable` for `r#type` (the longer name is no keyword and is never written raw).
pub fn vftable_name(owner: &str) -> String {
    format!("{}Vftable", owner.strip_prefix("r#").unwrap_or(owner))
}

/// A type reduced to its shape and the last segment of every path, with `c_void` as `void`.
pub fn normalise_type(ty: &syn::Type) -> String {
    match ty {
        syn::Type::Ptr(p) => format!(
            "*{} {}",
            if p.mutability.is_some() { "mut" } else { "const" },
            normalise_type(&p.elem)
        ),
        syn::Type::Array(a) => format!(
            "[{}; {}]",
            normalise_type(&a.elem),
            a.len.to_token_stream().to_string().replace(' ', "")
        ),
        syn::Type::Path(p) => {
            let last = p
                .path
                .segments
                .last()
                .map(|s| plain_ident(&s.ident.to_string()))
                .unwrap_or_default();
            if last == "c_void" {
                "void".into()
            } else {
                last
            }
        }
        syn::Type::Reference(r) => format!(
            "&{}{}",
            if r.mutability.is_some() { "mut " } else { "" },
            normalise_type(&r.elem)
        ),
        syn::Type::BareFn(f) => {
            let args: Vec<String> = f.inputs.iter().map(|a| normalise_type(&a.ty)).collect();
            let ret = match &f.output {
                syn::ReturnType::Type(_, t) => format!(" -> {}", normalise_type(t)),
                syn::ReturnType::Default => String::new(),
            };
            format!("fn({}){}", args.join(", "), ret)
        }
        other => other.to_token_stream().to_string(),
    }
}

/// The same normal form for a pyxis grammar type.
pub fn normalise_grammar_type(ty: &pyxis::grammar::Type) -> String {
    use pyxis::grammar::Type as T;
    match ty {
        T::ConstPointer(t) => format!("*const {}", normalise_grammar_type(t)),
        T::MutPointer(t) => format!("*mut {}", normalise_grammar_type(t)),
        T::Array(t, n) => format!("[{}; {}]", normalise_grammar_type(t), n),
        T::Ident(i) => plain_ident(i.as_str()),
        T::Unknown(n) => format!("[u8; {n}]"),
    }
}

pub fn inventory(text: &str) -> Result<Inventory, String> {
    let file = syn::parse_file(text).map_err(|e| e.to_string())?;
    let mut inv = Inventory::default();
    for item in &file.items {
        match item {
            syn::Item::Struct(s) => {
                let n = plain_ident(&s.ident.to_string());
                *inv.structs.entry(n.clone()).or_insert(0) += 1;
                let fields = s
                    .fields
                    .iter()
                    .map(|f| {
                        (
                            f.ident.as_ref().map(|i| plain_ident(&i.to_string())).unwrap_or_default(),
                            normalise_type(&f.ty),
                        )
                    })
                    .collect();
                inv.struct_fields.insert(n.clone(), fields);
                inv.order.push(Top::Struct(n));
            }
            syn::Item::Enum(e) => {
                let n = plain_ident(&e.ident.to_string());
                *inv.enums.entry(n.clone()).or_insert(0) += 1;
                for a in &e.attrs {
                    if a.path().is_ident("repr") {
                        if let Ok(t) = a.parse_args::<syn::Type>() {
                            inv.enum_reprs.insert(n.clone(), normalise_type(&t));
                        }
                    }
                }
                inv.enum_variants.insert(
                    n.clone(),
                    e.variants.iter().map(|v| plain_ident(&v.ident.to_string())).collect(),
                );
                inv.order.push(Top::Enum(n));
            }
            syn::Item::Fn(f) => {
                let n = plain_ident(&f.sig.ident.to_string());
                *inv.fns.entry(n.clone()).or_insert(0) += 1;
                inv.fn_rets.insert(
                    n.clone(),
                    match &f.sig.output {
                        syn::ReturnType::Type(_, t) => Some(normalise_type(t)),
                        syn::ReturnType::Default => None,
                    },
                );
                inv.order.push(Top::Fn(n));
            }
            syn::Item::Const(c) => {
                let n = c.ident.to_string();
                inv.consts
                    .insert(n.clone(), c.to_token_stream().to_string());
                inv.order.push(Top::Const(n));
            }
            syn::Item::Impl(i) => {
                let self_ty = normalise_type(&i.self_ty);
                if i.trait_.is_some() {
                    inv.order.push(Top::TraitImpl(self_ty));
                    continue;
                }
                let methods = inv.methods.entry(self_ty.clone()).or_default();
                for it in &i.items {
                    if let syn::ImplItem::Fn(f) = it {
                        let mut m = Method {
                            name: plain_ident(&f.sig.ident.to_string()),
                            is_pub: matches!(f.vis, syn::Visibility::Public(_)),
                            ..Default::default()
                        };
                        for a in &f.sig.inputs {
                            match a {
                                syn::FnArg::Receiver(_) => m.has_receiver = true,
                                syn::FnArg::Typed(t) => m.params.push(normalise_type(&t.ty)),
                            }
                        }
                        if let syn::ReturnType::Type(_, t) = &f.sig.output {
                            m.ret = Some(normalise_type(t));
                        }
                        methods.push(m);
                    }
                }
                inv.order.push(Top::Impl(self_ty));
            }
            other => inv
                .order
                .push(Top::Other(other.to_token_stream().to_string())),
        }
    }
    Ok(inv)
}

/// One `prologue`/`epilogue` entry of a `backend` block, read from the module's text by a
/// reader of its own (token level, independent of pyxis's parser): backend name, whether it
/// is a prologue, and the text (trimmed, as the backend pastes it).
#[derive(Clone, Debug, PartialEq, Eq)]
pub struct BackendEntry {
    pub backend: String,
    pub is_prologue: bool,
    pub text: String,
}

/// All backend entries of a module text in source order; `None` when the text does not lex or
/// a `backend` block has a shape this reader does not know.
pub fn backend_entries(text: &str) -> Option<Vec<BackendEntry>> {
    use proc_macro2::{Delimiter, TokenStream, TokenTree};
    let tokens: Vec<TokenTree> = std::panic::catch_unwind(|| text.parse::<TokenStream>())
        .ok()?
        .ok()?
        .into_iter()
        .collect();
    fn entry(backend: &str, toks: &[TokenTree], at: usize) -> Option<(BackendEntry, usize)> {
        let TokenTree::Ident(kind) = toks.get(at)? else {
            return None;
        };
        let is_prologue = match kind.to_string().as_str() {
            "prologue" => true,
            "epilogue" => false,
            _ => return None,
        };
        let TokenTree::Literal(lit) = toks.get(at + 1)? else {
            return None;
        };
        let s: syn::LitStr = syn::parse_str(&lit.to_string()).ok()?;
        match toks.get(at + 2)? {
            TokenTree::Punct(p) if p.as_char() == ';' => {}
            _ => return None,
        }
        Some((
            BackendEntry {
                backend: backend.to_string(),
                is_prologue,
                text: s.value().trim().to_string(),
            },
            at + 3,
        ))
    }
    let mut out = vec![];
    let mut i = 0;
    while i < tokens.len() {
        let is_backend = matches!(&tokens[i], TokenTree::Ident(id) if id.to_string() == "backend");
        let name = match tokens.get(i + 1) {
            Some(TokenTree::Ident(n)) if is_backend => n.to_string(),
            _ => {
                i += 1;
                continue;
            }
        };
        match tokens.get(i + 2) {
            Some(TokenTree::Group(g)) if g.delimiter() == Delimiter::Brace => {
                let inner: Vec<TokenTree> = g.stream().into_iter().collect();
                let mut k = 0;
                while k < inner.len() {
                    let (e, next) = entry(&name, &inner, k)?;
                    out.push(e);
                    k = next;
                }
                i += 3;
            }
            Some(TokenTree::Ident(_)) => {
                let (e, next) = entry(&name, &tokens, i + 2)?;
                out.push(e);
                i = next;
            }
            _ => {
                i += 1;
            }
        }
    }
    Some(out)
}

/// What a module text declares at its top level, counted on the token level by the harness
/// itself (independent of pyxis's parser): names of types, enums, extern types, extern values.
#[derive(Clone, Debug, Default, PartialEq, Eq)]
pub struct Census {
    pub types: Vec<String>,
    pub enums: Vec<String>,
    pub extern_types: Vec<String>,
    pub extern_values: Vec<String>,
}

/// `None` when the text does not lex.
pub fn census(text: &str) -> Option<Census> {
    use proc_macro2::{TokenStream, TokenTree};
    let tokens: Vec<TokenTree> = std::panic::catch_unwind(|| text.parse::<TokenStream>())
        .ok()?
        .ok()?
        .into_iter()
        .collect();
    let ident = |t: Option<&TokenTree>| match t {
        Some(TokenTree::Ident(i)) => Some(plain_ident(&i.to_string())),
        _ => None,
    };
    let mut c = Census::default();
    // Top-level tokens only (groups are single trees); a declaration keyword counts when it
    // starts a statement: at the very beginning, after `;`, after a brace group, after an
    // attribute's bracket group, or after `pub`.
    let mut i = 0;
    let mut at_start = true;
    while i < tokens.len() {
        let word = ident(tokens.get(i));
        if at_start {
            match word.as_deref() {
                Some("pub") => {
                    i += 1;
                    continue;
                }
                Some("type") => {
                    if let Some(n) = ident(tokens.get(i + 1)) {
                        c.types.push(n);
                    }
                }
                Some("enum") => {
                    if let Some(n) = ident(tokens.get(i + 1)) {
                        c.enums.push(n);
                    }
                }
                Some("extern") => match ident(tokens.get(i + 1)).as_deref() {
                    Some("type") => {
                        if let Some(n) = ident(tokens.get(i + 2)) {
                            c.extern_types.push(n);
                        }
                    }
                    Some(n) => c.extern_values.push(n.to_string()),
                    None => {}
                },
                _ => {}
            }
        }
        at_start = match &tokens[i] {
            TokenTree::Punct(p) => p.as_char() == ';',
            TokenTree::Group(g) => matches!(
                g.delimiter(),
                proc_macro2::Delimiter::Brace | proc_macro2::Delimiter::Bracket
            ),
            _ => false,
        };
        i += 1;
    }
    Some(c)
}
