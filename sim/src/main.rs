//! pyxis-sim: deterministic simulation with fault injection for philpax/pyxis.
//! See /verif/DESIGN.md.

mod alloc;
mod case;
mod findings;
mod inventory;
mod minimise;
mod model;
mod mutate;
mod plan;
mod project;
mod props;
mod replay;
mod rng;
mod run;
mod sched;
mod selfcheck;
mod supervisor;
mod worker;

use std::time::Duration;

use plan::Tier;

#[global_allocator]
static GLOBAL: alloc::Counting = alloc::Counting;

fn verif_dir() -> String {
    std::env::var("PYXIS_SIM_VERIF_DIR").unwrap_or_else(|_| "/verif".to_string())
}

fn seed_from_env() -> u64 {
    match std::env::var("VERIF_SEED") {
        Ok(s) => s.trim().parse::<u64>().unwrap_or_else(|_| {
            // Accept any string: hash it.
            rng::hash_str(0, &s)
        }),
        Err(_) => 1,
    }
}

fn parse_tier(s: &str) -> Tier {
    match s {
        "quick" => Tier::Quick,
        "thorough" => Tier::Thorough,
        other => {
            eprintln!("harness error: unknown tier {other}");
            std::process::exit(2)
        }
    }
}

fn usage() -> ! {
    eprintln!(
        "usage: pyxis-sim check <property> <quick|thorough> [--cases N] [--workers W] [--no-minimise] [--no-evidence]\n       pyxis-sim replay <file>\n       pyxis-sim gen <property> <tier> <seed> <index>\n       pyxis-sim minimise <in> <out>\n       pyxis-sim selfcheck determinism|audit [property...]"
    );
    std::process::exit(2)
}

fn main() {
    // Writes beyond a simulated "disk full" limit (RLIMIT_FSIZE) fail with EFBIG instead of
    // killing the process.
    unsafe {
        libc::signal(libc::SIGXFSZ, libc::SIG_IGN);
    }
    let argv: Vec<String> = std::env::args().collect();
    if argv.len() < 2 {
        usage();
    }
    match argv[1].as_str() {
        "check" => {
            if argv.len() < 4 {
                usage();
            }
            let property = argv[2].clone();
            if !props::CLAIMED.contains(&property.as_str()) {
                eprintln!("harness error: property {property} is not claimed");
                std::process::exit(2);
            }
            let tier = parse_tier(&argv[3]);
            let mut args = supervisor::CheckArgs {
                cases: props::budget(&property, tier),
                property,
                tier,
                seed: seed_from_env(),
                workers: std::thread::available_parallelism()
                    .map(|n| n.get())
                    .unwrap_or(4),
                verif_dir: verif_dir(),
                minimise: true,
                write_evidence: true,
            };
            let mut i = 4;
            while i < argv.len() {
                match argv[i].as_str() {
                    "--cases" => {
                        args.cases = argv[i + 1].parse().unwrap();
                        i += 1;
                    }
                    "--workers" => {
                        args.workers = argv[i + 1].parse().unwrap();
                        i += 1;
                    }
                    "--no-minimise" => args.minimise = false,
                    "--no-evidence" => args.write_evidence = false,
                    _ => usage(),
                }
                i += 1;
            }
            std::process::exit(supervisor::check(&args));
        }
        "worker" => {
            worker::worker_main(worker::WorkerArgs {
                property: argv[2].clone(),
                tier: parse_tier(&argv[3]),
                seed: argv[4].parse().unwrap(),
                offset: argv[5].parse().unwrap(),
                stride: argv[6].parse().unwrap(),
                total: argv[7].parse().unwrap(),
                raw_dir: argv[8].clone(),
            });
        }
        "gen" => {
            let tier = parse_tier(&argv[3]);
            let base: u64 = argv[4].parse().unwrap();
            let index: u64 = argv[5].parse().unwrap();
            let seed = worker::case_seed(base, &argv[2], index);
            let case = props::generate(&argv[2], seed, tier);
            println!("{}", replay::to_json(&case, &case::Verdict::Held));
        }
        "replay" => {
            std::process::exit(replay_cmd(&argv[2]));
        }
        "replay-inner" => {
            replay_inner(&argv[2]);
        }
        "minimise" => {
            std::process::exit(minimise::minimise_cmd(&argv[2], &argv[3]));
        }
        "selfcheck" => {
            std::process::exit(selfcheck::main(&argv[2..]));
        }
        _ => usage(),
    }
}

/// Runs the case of a replay file in this process and prints what happened.
fn replay_inner(path: &str) {
    worker::limit_address_space(4 << 30);
    run::install_panic_hook();
    let file = match replay::load(path) {
        Ok(f) => f,
        Err(e) => {
            eprintln!("harness error: {e}");
            std::process::exit(2)
        }
    };
    let mut scratch = run::Scratch::new();
    let Some((verdict, report)) = worker::run_case(&mut scratch, &file.case, 0) else {
        eprintln!("harness error: the oracle panicked while replaying {path}");
        std::process::exit(2)
    };
    match &verdict {
        case::Verdict::Violation { class, detail } => {
            println!("RESULT violation {class}");
            println!("DETAIL {}", detail.replace('\n', " "));
            println!(
                "SIGNATURE {}",
                findings::signature(&file.case, class, detail)
            );
        }
        case::Verdict::Vacuous(w) => println!("RESULT vacuous {}", w.replace('\n', " ")),
        case::Verdict::Held => println!("RESULT held"),
    }
    println!("LOGDIGEST {:016x}", report.log_digest);
}

/// Replays a `differs-in-fresh-process` violation: the recorded worker history is re-run up to
/// the case, the case is run alone in a fresh process, and the two event-log digests compared.
fn replay_history(path: &str, file: &replay::ReplayFile, h: &replay::History) -> i32 {
    let digest_of = |offset: u64, stride: u64| -> Option<u64> {
        let (code, out) = supervisor::run_child(
            &[
                "worker",
                &file.property,
                &h.tier,
                &h.seed.to_string(),
                &offset.to_string(),
                &stride.to_string(),
                &(h.index + 1).to_string(),
                "/dev/shm/pyxis-sim-replay-raw",
            ],
            Duration::from_secs(1800),
        );
        if code != Some(0) {
            return None;
        }
        out.lines()
            .filter_map(|l| l.strip_prefix("E "))
            .filter_map(|j| serde_json::from_str::<case::CaseReport>(j).ok())
            .find(|r| r.index == h.index)
            .map(|r| r.log_digest)
    };
    let in_history = digest_of(h.offset, h.stride);
    let alone = digest_of(h.index, 1_000_000_007);
    let _ = std::fs::remove_dir_all("/dev/shm/pyxis-sim-replay-raw");
    match (in_history, alone) {
        (Some(a), Some(b)) if a == b => {
            println!("replay: held (recorded: {})", file.class);
            0
        }
        (Some(_), Some(_)) => {
            println!("VIOLATION property={} replay={}", file.property, path);
            println!("CLASS {}", file.class);
            println!("DETAIL {}", file.detail);
            println!("SIGNATURE {}", findings::signature(&file.case, &file.class, &file.detail));
            1
        }
        _ => {
            eprintln!("harness error: could not re-run the recorded history");
            2
        }
    }
}

/// Replays a file in a fresh child process; exit 1 with a VIOLATION line iff it still violates.
fn replay_cmd(path: &str) -> i32 {
    let file = match replay::load(path) {
        Ok(f) => f,
        Err(e) => {
            eprintln!("harness error: {e}");
            return 2;
        }
    };
    if let Some(h) = &file.history {
        return replay_history(path, &file, h);
    }
    // The cap is per build (see the heartbeat in case::execute); a replay has no heartbeat, so
    // it gets the cap once plus a second per build of the case.
    let builds: u64 = file.case.builds.iter().map(|b| b.repeat.max(1) as u64).sum();
    let (code, out) = supervisor::run_child(
        &["replay-inner", path],
        supervisor::CASE_WALL_CLOCK_CAP + Duration::from_secs(5 + builds),
    );
    let (class, detail, signature) = match code {
        Some(0) => {
            let result = out
                .lines()
                .find_map(|l| l.strip_prefix("RESULT "))
                .unwrap_or("");
            if let Some(class) = result.strip_prefix("violation ") {
                let detail = out
                    .lines()
                    .find_map(|l| l.strip_prefix("DETAIL "))
                    .unwrap_or("")
                    .to_string();
                let sig = out
                    .lines()
                    .find_map(|l| l.strip_prefix("SIGNATURE "))
                    .unwrap_or("")
                    .to_string();
                (class.to_string(), detail, sig)
            } else {
                println!("replay: {result} (recorded: {})", file.class);
                return 0;
            }
        }
        Some(2) => {
            eprintln!("harness error: replay-inner failed: {out}");
            return 2;
        }
        Some(_) => {
            let class = "killed:abort".to_string();
            let detail = "replay process aborted".to_string();
            let sig = findings::signature(&file.case, &class, &detail);
            (class, detail, sig)
        }
        None => {
            let class = "killed:timeout".to_string();
            let detail = "replay process exceeded the wall-clock cap".to_string();
            let sig = findings::signature(&file.case, &class, &detail);
            (class, detail, sig)
        }
    };
    if class != file.class {
        println!(
            "note: recorded violation class was `{}`, replay gives `{}`",
            file.class, class
        );
    }
    println!("VIOLATION property={} replay={}", file.property, path);
    println!("CLASS {class}");
    println!("DETAIL {detail}");
    println!("SIGNATURE {signature}");
    1
}
