//! The only source of randomness in the simulator: SplitMix64 seeding a xoshiro256** stream.
//! Nothing here reads a clock, the environment, or std's RandomState.

pub fn splitmix(x: &mut u64) -> u64 {
    *x = x.wrapping_add(0x9E37_79B9_7F4A_7C15);
    let mut z = *x;
    z = (z ^ (z >> 30)).wrapping_mul(0xBF58_476D_1CE4_E5B9);
    z = (z ^ (z >> 27)).wrapping_mul(0x94D0_49BB_1331_11EB);
    z ^ (z >> 31)
}

/// Mixes two words into one (used for per-run seeds: `mix(base, run_index)`).
pub fn mix(a: u64, b: u64) -> u64 {
    let mut s = a ^ 0x5851_F42D_4C95_7F2D;
    let x = splitmix(&mut s);
    let mut t = x ^ b.wrapping_mul(0xD6E8_FEB8_6659_FD93);
    splitmix(&mut t)
}

/// FNV-1a style 64 bit hash of bytes, finished with splitmix; stable across processes.
pub fn hash_bytes(seed: u64, bytes: &[u8]) -> u64 {
    let mut h: u64 = 0xcbf2_9ce4_8422_2325 ^ seed;
    for b in bytes {
        h ^= *b as u64;
        h = h.wrapping_mul(0x0000_0100_0000_01B3);
    }
    let mut s = h ^ seed.rotate_left(17);
    splitmix(&mut s)
}

pub fn hash_str(seed: u64, s: &str) -> u64 {
    hash_bytes(seed, s.as_bytes())
}

#[derive(Clone, Debug)]
pub struct Rng {
    s: [u64; 4],
}

impl Rng {
    pub fn new(seed: u64) -> Self {
        let mut x = seed;
        let s = [
            splitmix(&mut x),
            splitmix(&mut x),
            splitmix(&mut x),
            splitmix(&mut x),
        ];
        Rng { s }
    }

    pub fn next_u64(&mut self) -> u64 {
        let result = self.s[1].wrapping_mul(5).rotate_left(7).wrapping_mul(9);
        let t = self.s[1] << 17;
        self.s[2] ^= self.s[0];
        self.s[3] ^= self.s[1];
        self.s[1] ^= self.s[2];
        self.s[0] ^= self.s[3];
        self.s[2] ^= t;
        self.s[3] = self.s[3].rotate_left(45);
        result
    }

    /// Uniform in `0..n` (`n > 0`).
    pub fn below(&mut self, n: usize) -> usize {
        debug_assert!(n > 0);
        // Multiply-shift; bias is irrelevant at these sizes.
        (((self.next_u64() >> 11) as u128 * n as u128) >> 53) as usize
    }

    /// Uniform in `lo..=hi`.
    pub fn range(&mut self, lo: usize, hi: usize) -> usize {
        lo + self.below(hi - lo + 1)
    }

    /// True with probability `num/den`.
    pub fn chance(&mut self, num: usize, den: usize) -> bool {
        self.below(den) < num
    }

    pub fn pick<'a, T>(&mut self, items: &'a [T]) -> &'a T {
        &items[self.below(items.len())]
    }

    pub fn shuffle<T>(&mut self, items: &mut [T]) {
        for i in (1..items.len()).rev() {
            let j = self.below(i + 1);
            items.swap(i, j);
        }
    }

    /// A derived, independent stream.
    pub fn fork(&mut self) -> Rng {
        Rng::new(self.next_u64())
    }
}
