//! Minimisation of a failing case (placeholder; the real one follows).

pub fn minimise_cmd(input: &str, output: &str) -> i32 {
    match std::fs::copy(input, output) {
        Ok(_) => 0,
        Err(_) => 2,
    }
}
