//! Minimisation of a failing case: shrink builds, files, top-level items, lines, schedules and
//! environment while the *same violation class* persists. Every candidate is re-executed
//! through the real code; the best case so far is written out after every successful step, so
//! a minimiser that is stopped still leaves a valid (less small) replay file.

use std::time::{Duration, Instant};

use crate::case::{Case, Verdict};
use crate::replay::ReplayFile;
use crate::run::{Blob, Entry, Node};
use crate::sched::OrderSpec;

struct Ctx {
    class: String,
    in_child: bool,
    evals: u32,
    max_evals: u32,
    deadline: Instant,
    scratch: crate::run::Scratch,
    out_path: String,
    template: ReplayFile,
    last_detail: String,
}

impl Ctx {
    fn exhausted(&self) -> bool {
        self.evals >= self.max_evals || Instant::now() > self.deadline
    }

    /// Does `case` still produce a violation of the recorded class?
    fn fails(&mut self, case: &Case) -> bool {
        if self.exhausted() {
            return false;
        }
        self.evals += 1;
        if self.in_child {
            let tmp = format!("/dev/shm/pyxis-sim.{}/candidate.json", std::process::id());
            let mut f = self.template.clone();
            f.case = case.clone();
            if std::fs::write(&tmp, serde_json::to_string(&f).unwrap()).is_err() {
                return false;
            }
            let (code, out) =
                crate::supervisor::run_child(&["replay-inner", &tmp], Duration::from_secs(3));
            let class = match code {
                None => "killed:timeout".to_string(),
                Some(0) => out
                    .lines()
                    .find_map(|l| l.strip_prefix("RESULT violation "))
                    .unwrap_or("")
                    .to_string(),
                Some(2) => String::new(),
                Some(_) => "killed:abort".to_string(),
            };
            // Any way of not finishing counts as the same class: what is an abort after memory
            // runs out at full size is a timeout for a candidate that is stopped earlier.
            class == self.class || (class.starts_with("killed") && self.class.starts_with("killed"))
        } else {
            let Some((verdict, _)) = crate::worker::run_case(&mut self.scratch, case, 0) else {
                return false;
            };
            match verdict {
                Verdict::Violation { class, detail } if class == self.class => {
                    self.last_detail = detail;
                    true
                }
                _ => false,
            }
        }
    }

    fn save(&mut self, case: &Case) {
        let mut f = self.template.clone();
        f.case = case.clone();
        f.minimised = true;
        if !self.last_detail.is_empty() {
            f.detail = self.last_detail.clone();
        }
        f.signature = crate::findings::signature(case, &f.class, &f.detail);
        let _ = std::fs::write(&self.out_path, serde_json::to_string_pretty(&f).unwrap());
    }
}

/// Splits pyxis source into top-level chunks (each ends at a `;` or `}` at nesting depth 0),
/// aware of string and raw string literals and of comments.
pub fn top_level_chunks(text: &str) -> Vec<String> {
    let b = text.as_bytes();
    let mut chunks = vec![];
    let mut start = 0;
    let mut depth = 0i32;
    let mut i = 0;
    while i < b.len() {
        let c = b[i];
        if c == b'/' && i + 1 < b.len() && b[i + 1] == b'/' {
            while i < b.len() && b[i] != b'\n' {
                i += 1;
            }
            continue;
        }
        if c == b'r' && i + 1 < b.len() && (b[i + 1] == b'#' || b[i + 1] == b'"') {
            // raw string r#"…"#
            let mut j = i + 1;
            let mut hashes = 0;
            while j < b.len() && b[j] == b'#' {
                hashes += 1;
                j += 1;
            }
            if j < b.len() && b[j] == b'"' {
                j += 1;
                'outer: while j < b.len() {
                    if b[j] == b'"' {
                        let mut k = 0;
                        while k < hashes && j + 1 + k < b.len() && b[j + 1 + k] == b'#' {
                            k += 1;
                        }
                        if k == hashes {
                            j += 1 + hashes;
                            break 'outer;
                        }
                    }
                    j += 1;
                }
                i = j;
                continue;
            }
        }
        if c == b'"' {
            i += 1;
            while i < b.len() && b[i] != b'"' {
                if b[i] == b'\\' {
                    i += 1;
                }
                i += 1;
            }
            i += 1;
            continue;
        }
        match c {
            b'{' | b'(' | b'[' => depth += 1,
            b'}' | b')' | b']' => {
                depth -= 1;
                if depth <= 0 && c == b'}' {
                    depth = 0;
                    let end = (i + 1).min(b.len());
                    chunks.push(text[start..end].to_string());
                    start = end;
                }
            }
            b';' if depth <= 0 => {
                let end = i + 1;
                chunks.push(text[start..end].to_string());
                start = end;
            }
            _ => {}
        }
        i += 1;
    }
    if start < b.len() && !text[start..].trim().is_empty() {
        chunks.push(text[start..].to_string());
    }
    chunks
}

fn file_text(case: &Case, w: usize, n: usize) -> Option<String> {
    match &case.worlds[w].input[n] {
        Node::File { path, content } if path.ends_with(".pyxis") => {
            String::from_utf8(content.0.clone()).ok()
        }
        _ => None,
    }
}

fn set_file_text(case: &mut Case, w: usize, n: usize, text: String) {
    if let Node::File { content, .. } = &mut case.worlds[w].input[n] {
        *content = Blob(text.into_bytes());
    }
}

/// Greedy one-at-a-time removal over a list of pieces; `render` rebuilds the candidate.
fn reduce_pieces(
    ctx: &mut Ctx,
    best: &mut Case,
    pieces: &mut Vec<String>,
    render: &dyn Fn(&Case, &[String]) -> Case,
) -> bool {
    let mut changed = false;
    // Try halves first, then single pieces.
    let mut size = pieces.len() / 2;
    while size >= 1 && !ctx.exhausted() {
        let mut i = 0;
        while i < pieces.len() && !ctx.exhausted() {
            let end = (i + size).min(pieces.len());
            let mut candidate = pieces.clone();
            candidate.drain(i..end);
            let case = render(best, &candidate);
            if ctx.fails(&case) {
                *pieces = candidate;
                *best = case;
                ctx.save(best);
                changed = true;
            } else {
                i += size;
            }
        }
        size /= 2;
    }
    changed
}

fn minimise(ctx: &mut Ctx, mut best: Case) -> Case {
    // 0. Sanity: the case must fail to begin with.
    if !ctx.fails(&best) {
        return best;
    }
    ctx.save(&best);

    for _round in 0..4 {
        let before = serde_json::to_string(&best).unwrap().len();

        // 1. Builds: drop as many as possible, then no repetition.
        let mut i = 0;
        while i < best.builds.len() && best.builds.len() > 1 && !ctx.exhausted() {
            let mut c = best.clone();
            c.builds.remove(i);
            if ctx.fails(&c) {
                best = c;
                ctx.save(&best);
            } else {
                i += 1;
            }
        }
        for i in 0..best.builds.len() {
            if best.builds[i].repeat > 1 {
                let mut c = best.clone();
                c.builds[i].repeat = 1;
                if ctx.fails(&c) {
                    best = c;
                    ctx.save(&best);
                }
            }
        }

        // 2. Whole input nodes.
        for w in 0..best.worlds.len() {
            let mut n = 0;
            while n < best.worlds[w].input.len() && !ctx.exhausted() {
                let mut c = best.clone();
                c.worlds[w].input.remove(n);
                if ctx.fails(&c) {
                    best = c;
                    ctx.save(&best);
                } else {
                    n += 1;
                }
            }
        }

        // 3. Top-level items inside every file, then lines.
        for w in 0..best.worlds.len() {
            for n in 0..best.worlds[w].input.len() {
                let Some(text) = file_text(&best, w, n) else {
                    continue;
                };
                let mut chunks = top_level_chunks(&text);
                reduce_pieces(ctx, &mut best, &mut chunks, &|base, pieces| {
                    let mut c = base.clone();
                    set_file_text(&mut c, w, n, pieces.concat());
                    c
                });
                let Some(text) = file_text(&best, w, n) else {
                    continue;
                };
                let mut lines: Vec<String> = text.lines().map(|l| format!("{l}\n")).collect();
                reduce_pieces(ctx, &mut best, &mut lines, &|base, pieces| {
                    let mut c = base.clone();
                    set_file_text(&mut c, w, n, pieces.concat());
                    c
                });
            }
        }

        // 4. Environment and pre-existing output state.
        for w in 0..best.worlds.len() {
            let mut c = best.clone();
            c.worlds[w].pre_out.clear();
            c.worlds[w].out_exists = true;
            c.worlds[w].out_is_file = false;
            c.worlds[w].in_arg_suffix.clear();
            if c != best && ctx.fails(&c) {
                best = c;
                ctx.save(&best);
            }
            let mut c = best.clone();
            c.worlds[w].in_dir = "in".into();
            if c != best && ctx.fails(&c) {
                best = c;
                ctx.save(&best);
            }
        }

        // 5. Schedules: canonical wherever the violation persists; simplest entry point.
        for i in 0..best.builds.len() {
            for which in 0..4 {
                let mut c = best.clone();
                match which {
                    0 => c.builds[i].sched.definitions = OrderSpec::Canonical,
                    1 => c.builds[i].sched.module_write = OrderSpec::Canonical,
                    2 => c.builds[i].sched.unresolved = OrderSpec::Canonical,
                    _ => c.builds[i].entry = Entry::LibBuild,
                }
                if c != best && ctx.fails(&c) {
                    best = c;
                    ctx.save(&best);
                }
            }
            // A hashed/dynamic order that must stay: try the plain reverse order instead.
            for which in 0..2 {
                let mut c = best.clone();
                match which {
                    0 => c.builds[i].sched.unresolved = OrderSpec::Reverse,
                    _ => c.builds[i].sched.module_write = OrderSpec::Reverse,
                }
                if c != best && ctx.fails(&c) {
                    best = c;
                    ctx.save(&best);
                }
            }
        }

        let after = serde_json::to_string(&best).unwrap().len();
        if after >= before || ctx.exhausted() {
            break;
        }
    }
    best
}

pub fn minimise_cmd(input: &str, output: &str) -> i32 {
    crate::worker::limit_address_space(4 << 30);
    crate::run::install_panic_hook();
    let file = match crate::replay::load(input) {
        Ok(f) => f,
        Err(e) => {
            eprintln!("harness error: {e}");
            return 2;
        }
    };
    let in_child = file.class.starts_with("killed");
    let mut ctx = Ctx {
        class: file.class.clone(),
        in_child,
        evals: 0,
        max_evals: if in_child { 400 } else { 3000 },
        deadline: Instant::now() + Duration::from_secs(if in_child { 150 } else { 60 }),
        scratch: crate::run::Scratch::new(),
        out_path: output.to_string(),
        template: file.clone(),
        last_detail: String::new(),
    };
    let original_size = serde_json::to_string(&file.case).unwrap().len();
    let best = minimise(&mut ctx, file.case.clone());
    if !std::path::Path::new(output).exists() {
        // The case did not fail when re-run here: keep the original, the caller's replay step
        // decides what that means.
        let _ = std::fs::copy(input, output);
        println!("minimise: case did not reproduce in the minimiser; original kept");
        return 0;
    }
    println!(
        "minimise: {} evaluations, {} -> {} bytes of case",
        ctx.evals,
        original_size,
        serde_json::to_string(&best).unwrap().len()
    );
    0
}
