//! Name coincidences: one identifier of a world is renamed, everywhere, to another identifier
//! the world already uses. Real descriptions are full of such coincidences (a directory called
//! like a type, a function called like a field, two modules with the same type names); the
//! generators' systematic naming never produces them. Most results are rejected (duplicate
//! definitions) and count as vacuous, the accepted ones are the interesting shapes.

use std::collections::BTreeSet;

use crate::rng::Rng;
use crate::run::{Blob, Node, World};

const RESERVED: [&str; 60] = [
    "type", "enum", "impl", "use", "extern", "pub", "fn", "self", "mut", "const", "backend",
    "prologue", "epilogue", "vftable", "unknown", "void", "bool", "u8", "u16", "u32", "u64", "u128",
    "i8", "i16", "i32", "i64", "i128", "f32", "f64", "size", "align", "address", "index",
    "singleton", "base", "packed", "copyable", "cloneable", "defaultable", "default",
    "calling_convention", "doc", "rust", "cpp", "r", "C", "cdecl", "stdcall", "fastcall",
    "thiscall", "vectorcall", "system", "crate", "super", "Self", "str", "usize", "a", "b", "x",
];

fn ident_spans(text: &str) -> Vec<(usize, usize)> {
    let b = text.as_bytes();
    let mut out = vec![];
    let mut i = 0;
    let mut in_string = false;
    while i < b.len() {
        // Leave string literals (backend text, calling conventions) alone.
        if b[i] == b'"' {
            in_string = !in_string;
            i += 1;
            continue;
        }
        if !in_string
            && (b[i].is_ascii_alphabetic() || b[i] == b'_')
            && !(i > 0 && (b[i - 1].is_ascii_alphanumeric() || b[i - 1] == b'_'))
        {
            let mut j = i;
            while j < b.len() && (b[j].is_ascii_alphanumeric() || b[j] == b'_') {
                j += 1;
            }
            out.push((i, j));
            i = j;
        } else {
            i += 1;
        }
    }
    out
}

fn candidates(worlds: &[World], with_paths: bool) -> Vec<String> {
    let mut set: BTreeSet<String> = BTreeSet::new();
    for w in worlds {
        for n in &w.input {
            if let Node::File { path, content } = n {
                if !path.ends_with(".pyxis") {
                    continue;
                }
                if let Ok(text) = std::str::from_utf8(&content.0) {
                    for (a, b) in ident_spans(text) {
                        set.insert(text[a..b].to_string());
                    }
                }
                if with_paths {
                    for seg in path.trim_end_matches(".pyxis").split('/') {
                        if seg.chars().all(|c| c.is_ascii_alphanumeric() || c == '_')
                            && !seg.is_empty()
                        {
                            set.insert(seg.to_string());
                        }
                    }
                }
            }
        }
    }
    set.into_iter()
        .filter(|s| s.len() >= 2 && !RESERVED.contains(&s.as_str()) && s != "_")
        .collect()
}

fn rename_text(text: &str, from: &str, to: &str) -> String {
    let mut out = String::with_capacity(text.len());
    let mut last = 0;
    for (a, b) in ident_spans(text) {
        if &text[a..b] == from {
            out.push_str(&text[last..a]);
            out.push_str(to);
            last = b;
        }
    }
    out.push_str(&text[last..]);
    out
}

fn rename_path(path: &str, from: &str, to: &str) -> String {
    let (stem, ext) = match path.strip_suffix(".pyxis") {
        Some(s) => (s, ".pyxis"),
        None => (path, ""),
    };
    let segs: Vec<String> = stem
        .split('/')
        .map(|s| if s == from { to.to_string() } else { s.to_string() })
        .collect();
    format!("{}{}", segs.join("/"), ext)
}

/// Renames one identifier to another one, consistently in every world. Returns the pair, or
/// `None` when nothing was done. With `with_paths`, module path segments take part as well
/// (both as sources of names and as things that are renamed); a rename that would make two
/// files of a world share a path is not applied.
pub fn coincide(rng: &mut Rng, worlds: &mut [World], with_paths: bool) -> Option<(String, String)> {
    let mut names = candidates(worlds, with_paths);
    if !with_paths {
        // Names that are also module path segments stay out of it: renaming them inside `use`
        // lines would change what imports what.
        let mut segments = BTreeSet::new();
        for w in worlds.iter() {
            for n in &w.input {
                for seg in n.path().trim_end_matches(".pyxis").split('/') {
                    segments.insert(seg.to_string());
                }
            }
        }
        names.retain(|n| !segments.contains(n));
    }
    if names.len() < 2 {
        return None;
    }
    let from = rng.pick(&names).clone();
    let to = rng.pick(&names).clone();
    if from == to {
        return None;
    }
    let mut renamed: Vec<Vec<Node>> = vec![];
    for w in worlds.iter() {
        let mut nodes = vec![];
        let mut paths = BTreeSet::new();
        for n in &w.input {
            let n2 = match n {
                Node::File { path, content } if path.ends_with(".pyxis") => {
                    let new_path = if with_paths {
                        rename_path(path, &from, &to)
                    } else {
                        path.clone()
                    };
                    let new_content = match std::str::from_utf8(&content.0) {
                        Ok(t) => Blob(rename_text(t, &from, &to).into_bytes()),
                        Err(_) => content.clone(),
                    };
                    Node::File {
                        path: new_path,
                        content: new_content,
                    }
                }
                Node::Symlink { path, target } if with_paths => Node::Symlink {
                    path: rename_path(path, &from, &to),
                    target: rename_path(target, &from, &to),
                },
                other => other.clone(),
            };
            if !paths.insert(n2.path().to_string()) {
                return None;
            }
            nodes.push(n2);
        }
        renamed.push(nodes);
    }
    for (w, nodes) in worlds.iter_mut().zip(renamed) {
        w.input = nodes;
    }
    Some((from, to))
}
