//! Drawing schedules and entry points from the PRNG.

use crate::project::{by_value_edges, ItemKind, Project};
use crate::rng::Rng;
use crate::run::{BuildSpec, Entry};
use crate::sched::{OrderSpec, SchedSpec};

#[derive(Clone, Copy, Debug, PartialEq, Eq)]
pub enum Tier {
    Quick,
    Thorough,
}
impl Tier {
    pub fn name(self) -> &'static str {
        match self {
            Tier::Quick => "quick",
            Tier::Thorough => "thorough",
        }
    }
}

pub fn any_order(rng: &mut Rng) -> OrderSpec {
    match rng.below(5) {
        0 => OrderSpec::Canonical,
        1 => OrderSpec::Reverse,
        2 => OrderSpec::Dynamic(rng.next_u64()),
        _ => OrderSpec::Hashed(rng.next_u64()),
    }
}

pub fn any_entry(rng: &mut Rng) -> Entry {
    match rng.below(4) {
        0 | 1 => Entry::LibBuild,
        2 => Entry::DriverFile {
            add: any_order(rng),
        },
        _ => Entry::DriverStr {
            add: any_order(rng),
        },
    }
}

/// Item paths in an order where every by-value dependency comes first.
pub fn topological(p: &Project) -> Vec<String> {
    let edges = by_value_edges(p);
    let n = p.items.len();
    let mut done = vec![false; n];
    let mut out = vec![];
    // Items are generated so that by-value edges point at lower indices, but graph worlds may
    // contain cycles: fall back to index order for whatever is left.
    loop {
        let mut progressed = false;
        for i in 0..n {
            if done[i] {
                continue;
            }
            let ready = edges
                .get(&i)
                .map(|e| e.iter().all(|j| done[*j] || *j == i))
                .unwrap_or(true);
            if ready {
                done[i] = true;
                out.push(i);
                progressed = true;
            }
        }
        if !progressed {
            break;
        }
    }
    for i in 0..n {
        if !done[i] {
            out.push(i);
        }
    }
    out.into_iter().map(|i| p.full_item_path(i)).collect()
}

/// Priority lists derived from the structure of a project: best and worst case for the number
/// of passes, and vftable owners first / last.
pub fn structural_orders(rng: &mut Rng, p: &Project) -> Vec<OrderSpec> {
    let topo = topological(p);
    let mut rev = topo.clone();
    rev.reverse();
    let has_vft = |i: usize| match &p.items[i].kind {
        ItemKind::Type { vftable, .. } => vftable.is_some(),
        _ => false,
    };
    let mut gen_first: Vec<usize> = (0..p.items.len()).collect();
    gen_first.sort_by_key(|&i| (!has_vft(i), i));
    let mut gen_last: Vec<usize> = (0..p.items.len()).collect();
    gen_last.sort_by_key(|&i| (has_vft(i), i));
    let paths = |v: Vec<usize>| v.into_iter().map(|i| p.full_item_path(i)).collect::<Vec<_>>();
    vec![
        OrderSpec::Priority(topo, rng.next_u64()),
        OrderSpec::Priority(rev, rng.next_u64()),
        OrderSpec::Priority(paths(gen_first), rng.next_u64()),
        OrderSpec::Priority(paths(gen_last), rng.next_u64()),
    ]
}

/// `k` builds of world `world` under different schedules: always canonical, reverse canonical
/// and one dynamic order, the rest drawn from hashed and structural orders.
pub fn diverse_builds(
    rng: &mut Rng,
    world: usize,
    k: usize,
    project: Option<&Project>,
    allow_repeat: bool,
) -> Vec<BuildSpec> {
    let mut structural = project.map(|p| structural_orders(rng, p)).unwrap_or_default();
    rng.shuffle(&mut structural);
    let mut out = vec![];
    for i in 0..k {
        let unresolved = match i {
            0 => OrderSpec::Canonical,
            1 => OrderSpec::Reverse,
            2 => OrderSpec::Dynamic(rng.next_u64()),
            _ => {
                if !structural.is_empty() && rng.chance(1, 2) {
                    structural.pop().unwrap()
                } else {
                    OrderSpec::Hashed(rng.next_u64())
                }
            }
        };
        let repeat = if allow_repeat && rng.chance(1, 8) {
            rng.range(2, 3) as u32
        } else {
            1
        };
        out.push(BuildSpec {
            world,
            entry: any_entry(rng),
            sched: SchedSpec {
                unresolved,
                module_write: any_order(rng),
                definitions: any_order(rng),
            },
            repeat,
        });
    }
    out
}
