//! The scheduler the simulator installs behind pyxis's `cfg(pyxis_verif)` seams.
//!
//! Every order is a pure function of an explicit, serialisable `OrderSpec` and of the key set
//! asked about, so a replay file that carries the specs reproduces the run exactly.

use std::cell::RefCell;
use std::collections::BTreeMap;
use std::rc::Rc;

use pyxis::verif::{Scheduler, Site};
use serde::{Deserialize, Serialize};

use crate::rng::{hash_str, mix};

pub const STEP_BUDGET_PANIC: &str = "PYXIS_SIM_STEP_BUDGET_EXCEEDED";

#[derive(Clone, Debug, PartialEq, Eq, Serialize, Deserialize)]
pub enum OrderSpec {
    /// Sorted by key.
    Canonical,
    /// Reverse sorted.
    Reverse,
    /// A static priority over *all* strings: order by `hash(seed, key)`. This is what a real
    /// `HashMap` does while it is not resized.
    Hashed(u64),
    /// An explicit static priority list; keys not in the list follow, ordered as `Hashed(seed)`.
    Priority(Vec<String>, u64),
    /// A fresh pseudo-random permutation for every distinct key *set* (models a resize between
    /// passes); asking twice about the same set gives the same order.
    Dynamic(u64),
}

impl OrderSpec {
    pub fn order(&self, keys: &[String]) -> Vec<usize> {
        let mut idx: Vec<usize> = (0..keys.len()).collect();
        match self {
            OrderSpec::Canonical => {}
            OrderSpec::Reverse => idx.reverse(),
            OrderSpec::Hashed(seed) => {
                idx.sort_by_key(|&i| (hash_str(*seed, &keys[i]), i));
            }
            OrderSpec::Priority(list, seed) => {
                let pos: BTreeMap<&str, usize> = list
                    .iter()
                    .enumerate()
                    .rev()
                    .map(|(i, s)| (s.as_str(), i))
                    .collect();
                idx.sort_by_key(|&i| match pos.get(keys[i].as_str()) {
                    Some(p) => (0u8, *p as u64, i),
                    None => (1u8, hash_str(*seed, &keys[i]), i),
                });
            }
            OrderSpec::Dynamic(seed) => {
                let mut set_digest = *seed;
                for k in keys {
                    set_digest = mix(set_digest, hash_str(0, k));
                }
                idx.sort_by_key(|&i| (hash_str(set_digest, &keys[i]), i));
            }
        }
        idx
    }

    pub fn label(&self) -> &'static str {
        match self {
            OrderSpec::Canonical => "canonical",
            OrderSpec::Reverse => "reverse",
            OrderSpec::Hashed(_) => "hashed",
            OrderSpec::Priority(..) => "priority",
            OrderSpec::Dynamic(_) => "dynamic",
        }
    }
}

#[derive(Clone, Debug, PartialEq, Eq, Serialize, Deserialize)]
pub struct SchedSpec {
    pub unresolved: OrderSpec,
    pub module_write: OrderSpec,
    pub definitions: OrderSpec,
}

impl SchedSpec {
    pub fn canonical() -> Self {
        SchedSpec {
            unresolved: OrderSpec::Canonical,
            module_write: OrderSpec::Canonical,
            definitions: OrderSpec::Canonical,
        }
    }
}

/// What one build did at the seams.
#[derive(Clone, Debug, Default)]
pub struct Trace {
    /// Calls at `Site::Unresolved` (two per pass of the resolution loop).
    pub unresolved_calls: u32,
    /// Items in the worklist at the first call.
    pub initial_unresolved: Option<u32>,
    /// Every distinct item ever seen in the worklist.
    pub seen_unresolved: std::collections::BTreeSet<String>,
    /// Sum of worklist lengths over the calls that start a pass (odd calls): item attempts.
    pub item_attempts: u64,
    /// Digest of every order served, in sequence.
    pub digest: u64,
    /// The orders served at `Site::Unresolved`, capped.
    pub served_unresolved: Vec<Vec<String>>,
    pub served_module_write: Vec<Vec<String>>,
    pub probes: BTreeMap<&'static str, u32>,
    /// Whether an order different from the canonical one was served for a set of >= 2 keys.
    pub non_canonical_served: bool,
    pub budget_exceeded: bool,
}

pub struct SimScheduler {
    spec: SchedSpec,
    trace: Rc<RefCell<Trace>>,
    /// Extra slack for the step budget (0 = default formula).
    budget_override: Option<u32>,
}

impl SimScheduler {
    pub fn new(spec: SchedSpec) -> (Self, Rc<RefCell<Trace>>) {
        let trace = Rc::new(RefCell::new(Trace::default()));
        (
            SimScheduler {
                spec,
                trace: trace.clone(),
                budget_override: None,
            },
            trace,
        )
    }
}

impl Scheduler for SimScheduler {
    fn permutation(&mut self, site: Site, keys: &[String]) -> Vec<usize> {
        let spec = match site {
            Site::Unresolved => &self.spec.unresolved,
            Site::ModuleWrite => &self.spec.module_write,
            Site::Definitions => &self.spec.definitions,
            // These two only decide the text of an error message.
            Site::Resolved => &OrderSpec::Canonical,
            Site::ExternValues => &self.spec.module_write,
        };
        let order = spec.order(keys);
        let exceeded = {
            let mut t = self.trace.borrow_mut();
            let mut d = mix(t.digest, site as u64 + 1);
            for &i in &order {
                d = mix(d, hash_str(0, &keys[i]));
            }
            t.digest = d;
            if keys.len() >= 2 && order.iter().enumerate().any(|(a, b)| a != *b) {
                t.non_canonical_served = true;
            }
            match site {
                Site::Unresolved => {
                    t.unresolved_calls += 1;
                    if t.initial_unresolved.is_none() {
                        t.initial_unresolved = Some(keys.len() as u32);
                    }
                    if t.unresolved_calls % 2 == 1 {
                        t.item_attempts += keys.len() as u64;
                    }
                    if t.served_unresolved.len() < 64 {
                        let served = order.iter().map(|&i| keys[i].clone()).collect();
                        t.served_unresolved.push(served);
                    }
                    for k in keys {
                        if !t.seen_unresolved.contains(k) {
                            t.seen_unresolved.insert(k.clone());
                        }
                    }
                    // Each pass calls twice. To continue, a pass must resolve at least one item
                    // (a resolved item never becomes unresolved again) or bring at least one
                    // generated item into existence (at most one per item): a build that ends
                    // makes at most 2*(2U+1) calls, U = distinct items ever seen in the worklist. The budget
                    // is twice that plus slack, so that a correct loop that asks a little more
                    // often is not mistaken for a hang.
                    // Anything beyond is a hang, found deterministically, not by a wall clock.
                    let budget = self
                        .budget_override
                        .unwrap_or(8 * t.seen_unresolved.len() as u32 + 32);
                    if t.unresolved_calls > budget {
                        t.budget_exceeded = true;
                        true
                    } else {
                        false
                    }
                }
                Site::ModuleWrite => {
                    if t.served_module_write.len() < 8 {
                        let served = order.iter().map(|&i| keys[i].clone()).collect();
                        t.served_module_write.push(served);
                    }
                    false
                }
                Site::Definitions | Site::Resolved | Site::ExternValues => false,
            }
        };
        if exceeded {
            panic!("{}", STEP_BUDGET_PANIC);
        }
        order
    }

    fn probe(&mut self, name: &'static str) {
        *self.trace.borrow_mut().probes.entry(name).or_insert(0) += 1;
    }
}
