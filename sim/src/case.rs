//! A case: one or more worlds, the builds to run on them, and the oracle parameters. A case is
//! fully explicit (files as bytes, schedules as specs), so the JSON form of a case *is* the
//! replay file.

use std::collections::BTreeMap;

use serde::{Deserialize, Serialize};

use crate::run::{BuildSpec, RunResult, Scratch, World};

#[derive(Clone, Debug, Default, PartialEq, Eq, Serialize, Deserialize)]
pub struct Params {
    /// The generator meant every world to be accepted (otherwise: vacuous, never a violation).
    #[serde(default)]
    pub intended_valid: bool,
    /// The generator injected something that must make every build fail.
    #[serde(default)]
    pub expect_err: bool,
    /// C19: output paths (relative to the out dir) that must be identical across worlds.
    #[serde(default)]
    pub observed: Vec<String>,
    /// C14: the collision kind injected, if any.
    #[serde(default)]
    pub collision: Option<String>,
    /// Free-form notes from the generator (which faults were applied, ...).
    #[serde(default)]
    pub notes: Vec<String>,
    /// C12: names of the fault kinds applied, for the evidence counters.
    #[serde(default)]
    pub faults: Vec<String>,
    /// Rebuild histories: `(build, earlier build)` — `build` starts with the output directory
    /// exactly as `earlier build` left it (instead of its world's pre-existing output state).
    #[serde(default)]
    pub chain: Vec<(usize, usize)>,
}

#[derive(Clone, Debug, PartialEq, Eq, Serialize, Deserialize)]
pub struct Case {
    pub property: String,
    pub family: String,
    pub seed: u64,
    pub worlds: Vec<World>,
    pub builds: Vec<BuildSpec>,
    pub params: Params,
}

#[derive(Clone, Debug, PartialEq, Eq)]
pub enum Verdict {
    Held,
    Vacuous(String),
    Violation { class: String, detail: String },
}

impl Verdict {
    pub fn violation(class: impl Into<String>, detail: impl Into<String>) -> Verdict {
        Verdict::Violation {
            class: class.into(),
            detail: detail.into(),
        }
    }
    pub fn status(&self) -> &'static str {
        match self {
            Verdict::Held => "held",
            Verdict::Vacuous(_) => "vacuous",
            Verdict::Violation { .. } => "violation",
        }
    }
}

/// Everything measured while a case ran.
#[derive(Clone, Debug, Default, Serialize, Deserialize)]
pub struct CaseReport {
    pub index: u64,
    pub status: String,
    pub family: String,
    pub class: Option<String>,
    pub detail: Option<String>,
    pub counters: BTreeMap<String, u64>,
    /// Named sets of digests; the supervisor unions them to count distinct things.
    pub sets: BTreeMap<String, Vec<u64>>,
    /// Digest of the case's event log (generation + every order served + every outcome).
    pub log_digest: u64,
}

impl CaseReport {
    pub fn count(&mut self, name: &str, n: u64) {
        *self.counters.entry(name.to_string()).or_insert(0) += n;
    }
    pub fn set(&mut self, name: &str, d: u64) {
        self.sets.entry(name.to_string()).or_default().push(d);
    }
}

/// Runs every build of the case, in order, on the calling thread.
pub fn execute(scratch: &mut Scratch, case: &Case) -> Vec<Vec<RunResult>> {
    let mut results: Vec<Vec<RunResult>> = vec![];
    for (bi, b) in case.builds.iter().enumerate() {
        let from = case
            .params
            .chain
            .iter()
            .find(|(this, earlier)| *this == bi && *earlier < bi)
            .map(|(_, earlier)| *earlier);
        let r = match from.and_then(|j| results[j].last()) {
            Some(prev) => {
                let mut world = case.worlds[b.world].clone();
                world.out_exists = true;
                world.out_is_file = false;
                world.pre_out = prev
                    .after
                    .iter()
                    .filter_map(|(path, snap)| match snap {
                        crate::run::Snap::File(bytes) => Some(crate::run::Node::File {
                            path: path.clone(),
                            content: crate::run::Blob(bytes.clone()),
                        }),
                        crate::run::Snap::Dir => Some(crate::run::Node::Dir { path: path.clone() }),
                        crate::run::Snap::Other => None,
                    })
                    .collect();
                crate::run::run_build(scratch, &world, b)
            }
            None => crate::run::run_build(scratch, &case.worlds[b.world], b),
        };
        results.push(r);
        // Heartbeat for the supervisor's watchdog: the wall-clock cap is per build, so a case
        // with hundreds of builds on a busy machine is not mistaken for a hang.
        if HEARTBEAT.load(std::sync::atomic::Ordering::Relaxed) {
            use std::io::Write;
            let out = std::io::stdout();
            let mut out = out.lock();
            let _ = writeln!(out, "P");
            let _ = out.flush();
        }
    }
    results
}

/// Set by worker processes; other users of `execute` (replay, minimiser) stay silent.
pub static HEARTBEAT: std::sync::atomic::AtomicBool = std::sync::atomic::AtomicBool::new(false);

/// Fills the generic part of a report from the results.
pub fn measure(case: &Case, results: &[Vec<RunResult>], report: &mut CaseReport) {
    use crate::rng::{hash_str, mix};
    let mut log = hash_str(1, &serde_json::to_string(case).unwrap());
    let mut orders_served: BTreeMap<usize, std::collections::BTreeSet<u64>> = BTreeMap::new();
    for (b, reps) in case.builds.iter().zip(results) {
        report.count("builds", reps.len() as u64);
        report.count(&format!("entry:{}", entry_label(&b.entry)), reps.len() as u64);
        report.count(
            &format!("sched_unresolved:{}", b.sched.unresolved.label()),
            reps.len() as u64,
        );
        for r in reps {
            report.count(&format!("outcome:{}", r.outcome.class()), 1);
            report.count("steps:unresolved_calls", r.trace.unresolved_calls as u64);
            report.count("steps:item_attempts", r.trace.item_attempts);
            for (p, n) in &r.trace.probes {
                report.count(&format!("probe:{p}"), *n as u64);
            }
            log = mix(log, r.trace.digest);
            log = mix(log, hash_str(2, &r.outcome.brief()));
            for (path, snap) in &r.after {
                log = mix(log, hash_str(3, path));
                if let crate::run::Snap::File(bytes) = snap {
                    log = mix(log, crate::rng::hash_bytes(4, bytes));
                }
            }
            let wd = case.worlds[b.world].digest();
            report.set("interleaving", mix(wd, r.trace.digest));
            orders_served
                .entry(b.world)
                .or_default()
                .insert(r.trace.digest);
        }
    }
    for (w, world) in case.worlds.iter().enumerate() {
        report.set("world", world.digest());
        let distinct_orders = orders_served.get(&w).map(|s| s.len()).unwrap_or(0);
        let items = world
            .module_files()
            .iter()
            .map(|(_, b)| count_items(&b.lossy()))
            .sum::<usize>();
        if items >= 2 && distinct_orders >= 2 {
            report.set("nontrivial_world", world.digest());
        }
    }
    report.log_digest = log;
}

fn count_items(text: &str) -> usize {
    text.split(|c: char| !c.is_alphanumeric() && c != '_')
        .filter(|w| *w == "type" || *w == "enum")
        .count()
}

pub fn entry_label(e: &crate::run::Entry) -> &'static str {
    match e {
        crate::run::Entry::LibBuild => "lib_build",
        crate::run::Entry::DriverFile { .. } => "driver_file",
        crate::run::Entry::DriverStr { .. } => "driver_str",
        crate::run::Entry::DriverOps { .. } => "driver_ops",
    }
}
