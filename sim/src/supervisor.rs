//! `pyxis-sim check <property> <tier>`: spawns one single-threaded worker process per core,
//! watches them (wall-clock cap per case, death by abort), aggregates what they measured,
//! minimises and reports violations, writes the evidence file.

use std::collections::{BTreeMap, BTreeSet, HashSet};
use std::io::{BufRead, BufReader};
use std::process::{Child, Command, Stdio};
use std::sync::mpsc;
use std::time::{Duration, Instant};

use serde_json::json;

use crate::case::CaseReport;
use crate::findings::Findings;
use crate::plan::Tier;

pub const CASE_WALL_CLOCK_CAP: Duration = Duration::from_secs(20);

pub struct CheckArgs {
    pub property: String,
    pub tier: Tier,
    pub seed: u64,
    pub cases: u64,
    pub workers: usize,
    pub verif_dir: String,
    pub minimise: bool,
    pub write_evidence: bool,
}

enum Event {
    Line(usize, String),
    Eof(usize),
}

struct Worker {
    child: Child,
    current: Option<(u64, Instant)>,
    next_offset: u64,
    done: bool,
}

#[derive(Default)]
pub struct Aggregate {
    pub reports: u64,
    pub status: BTreeMap<String, u64>,
    pub families: BTreeMap<String, u64>,
    pub counters: BTreeMap<String, u64>,
    pub sets: BTreeMap<String, HashSet<u64>>,
    pub log_digest: u64,
    pub case_digests: Vec<(u64, u64)>,
    pub violations: Vec<(u64, String, String, String)>, // index, class, detail, raw path
    pub killed: Vec<(u64, String)>,
    pub stopped_early: bool,
    pub harness_errors: u64,
    pub vacuous_reasons: BTreeMap<String, u64>,
}

impl Aggregate {
    fn add(&mut self, r: CaseReport) {
        self.reports += 1;
        *self.status.entry(r.status.clone()).or_insert(0) += 1;
        *self.families.entry(r.family.clone()).or_insert(0) += 1;
        *self
            .counters
            .entry(format!("family_status:{}:{}", r.family, r.status))
            .or_insert(0) += 1;
        for (k, v) in r.counters {
            *self.counters.entry(k).or_insert(0) += v;
        }
        for (k, v) in r.sets {
            self.sets.entry(k).or_default().extend(v);
        }
        self.log_digest = self.log_digest.wrapping_add(r.log_digest);
        self.case_digests.push((r.index, r.log_digest));
        if r.status == "vacuous" {
            let why = r.detail.clone().unwrap_or_default();
            let key = crate::run::truncate(
                &why.chars()
                    .map(|c| if c.is_ascii_digit() { '#' } else { c })
                    .collect::<String>(),
                90,
            );
            *self.vacuous_reasons.entry(key).or_insert(0) += 1;
        }
    }
}

fn spawn_worker(args: &CheckArgs, slot: usize, offset: u64, tx: &mpsc::Sender<Event>) -> Worker {
    let exe = std::env::current_exe().expect("current_exe");
    let mut child = Command::new(exe)
        .arg("worker")
        .arg(&args.property)
        .arg(args.tier.name())
        .arg(args.seed.to_string())
        .arg(offset.to_string())
        .arg(args.workers.to_string())
        .arg(args.cases.to_string())
        .arg(format!("{}/replays/raw", args.verif_dir))
        .stdin(Stdio::null())
        .stdout(Stdio::piped())
        .stderr(Stdio::null())
        .spawn()
        .expect("spawn worker");
    let stdout = child.stdout.take().unwrap();
    let tx = tx.clone();
    std::thread::spawn(move || {
        let reader = BufReader::new(stdout);
        for line in reader.lines() {
            match line {
                Ok(l) => {
                    if tx.send(Event::Line(slot, l)).is_err() {
                        return;
                    }
                }
                Err(_) => break,
            }
        }
        let _ = tx.send(Event::Eof(slot));
    });
    Worker {
        child,
        current: None,
        next_offset: offset,
        done: false,
    }
}

pub fn sweep_stale_scratch() {
    if let Ok(rd) = std::fs::read_dir("/dev/shm") {
        for e in rd.flatten() {
            let name = e.file_name().to_string_lossy().into_owned();
            if let Some(pid) = name.strip_prefix("pyxis-sim.") {
                let alive = pid
                    .parse::<i32>()
                    .map(|p| unsafe { libc::kill(p, 0) == 0 })
                    .unwrap_or(false);
                if !alive {
                    let _ = std::fs::remove_dir_all(e.path());
                }
            }
        }
    }
}

/// Runs all cases; returns what was measured.
pub fn run_workers(args: &CheckArgs) -> Aggregate {
    let (tx, rx) = mpsc::channel::<Event>();
    let mut agg = Aggregate::default();
    let nworkers = args.workers.min(args.cases.max(1) as usize).max(1);
    // Worker ids are never reused, so a late Eof from a killed worker cannot be mistaken for
    // the death of its replacement.
    let mut next_id = 0usize;
    let mut workers: BTreeMap<usize, Worker> = BTreeMap::new();
    for slot in 0..nworkers {
        workers.insert(next_id, spawn_worker(args, next_id, slot as u64, &tx));
        next_id += 1;
    }
    let stride = args.workers as u64;
    while !workers.is_empty() {
        match rx.recv_timeout(Duration::from_millis(250)) {
            Ok(Event::Line(id, line)) => {
                let Some(w) = workers.get_mut(&id) else { continue };
                if line == "P" {
                    // A build of the current case finished: the clock starts again.
                    if let Some((i, _)) = w.current {
                        w.current = Some((i, Instant::now()));
                    }
                } else if let Some(rest) = line.strip_prefix("S ") {
                    if let Ok(i) = rest.trim().parse::<u64>() {
                        w.current = Some((i, Instant::now()));
                        w.next_offset = i + stride;
                    }
                } else if let Some(rest) = line.strip_prefix("E ") {
                    match serde_json::from_str::<CaseReport>(rest) {
                        Ok(r) => agg.add(r),
                        Err(e) => {
                            eprintln!("harness error: bad report line from worker: {e}");
                            std::process::exit(2);
                        }
                    }
                    w.current = None;
                } else if let Some(rest) = line.strip_prefix("V ") {
                    let mut it = rest.splitn(2, ' ');
                    let idx = it.next().and_then(|s| s.parse::<u64>().ok()).unwrap_or(0);
                    let path = it.next().unwrap_or("").to_string();
                    let (class, detail) = match crate::replay::load(&path) {
                        Ok(f) => (f.class, f.detail),
                        Err(e) => {
                            eprintln!("harness error: {e}");
                            std::process::exit(2);
                        }
                    };
                    agg.violations.push((idx, class, detail, path));
                } else if let Some(rest) = line.strip_prefix("H ") {
                    eprintln!("harness error: worker reports: case {rest}");
                    agg.harness_errors += 1;
                    w.current = None;
                    w.done = true;
                } else if line == "DONE" {
                    w.done = true;
                    w.current = None;
                }
            }
            Ok(Event::Eof(id)) => {
                let Some(mut w) = workers.remove(&id) else { continue };
                let _ = w.child.wait();
                if !w.done {
                    // Died mid-case: abort (allocation failure, stack overflow, ...).
                    if let Some((i, _)) = w.current.take() {
                        agg.killed.push((i, "abort".into()));
                    }
                    if w.next_offset < args.cases {
                        workers.insert(next_id, spawn_worker(args, next_id, w.next_offset, &tx));
                        next_id += 1;
                    }
                }
            }
            Err(mpsc::RecvTimeoutError::Timeout) => {}
            Err(mpsc::RecvTimeoutError::Disconnected) => break,
        }
        // Enough is enough: with hundreds of failing cases the search has made its point, and
        // every killed case costs up to the wall-clock cap.
        if agg.killed.len() >= 24 || agg.violations.len() >= 2000 {
            agg.stopped_early = true;
            for (_, w) in workers.iter_mut() {
                let _ = w.child.kill();
                let _ = w.child.wait();
            }
            workers.clear();
            break;
        }
        // Watchdog. The clock is only read here, and its only effect is to kill a run.
        let overdue: Vec<usize> = workers
            .iter()
            .filter(|(_, w)| matches!(w.current, Some((_, since)) if since.elapsed() > CASE_WALL_CLOCK_CAP))
            .map(|(id, _)| *id)
            .collect();
        for id in overdue {
            let mut w = workers.remove(&id).unwrap();
            let _ = w.child.kill();
            let _ = w.child.wait();
            if let Some((i, _)) = w.current {
                agg.killed.push((i, "timeout".into()));
            }
            if w.next_offset < args.cases {
                workers.insert(next_id, spawn_worker(args, next_id, w.next_offset, &tx));
                next_id += 1;
            }
        }
    }
    agg
}

/// Runs a child `pyxis-sim <args>` with a wall-clock limit; returns (exit code or None if
/// killed, stdout).
pub fn run_child(argv: &[&str], limit: Duration) -> (Option<i32>, String) {
    let exe = std::env::current_exe().expect("current_exe");
    let mut child = Command::new(exe)
        .args(argv)
        .stdin(Stdio::null())
        .stdout(Stdio::piped())
        .stderr(Stdio::null())
        .spawn()
        .expect("spawn child");
    let mut stdout = child.stdout.take().unwrap();
    let reader = std::thread::spawn(move || {
        let mut s = String::new();
        let _ = std::io::Read::read_to_string(&mut stdout, &mut s);
        s
    });
    let start = Instant::now();
    let code = loop {
        match child.try_wait() {
            Ok(Some(st)) => break st.code(),
            Ok(None) => {
                if start.elapsed() > limit {
                    let _ = child.kill();
                    let _ = child.wait();
                    break None;
                }
                std::thread::sleep(Duration::from_millis(5));
            }
            Err(_) => break None,
        }
    };
    let out = reader.join().unwrap_or_default();
    (code, out)
}

fn samples_for(args: &CheckArgs, n: u64) -> Vec<serde_json::Value> {
    // Regenerate the first few cases (generation is a pure function of the seed) and write
    // them out in readable form.
    let mut out = vec![];
    let step = (args.cases / n.max(1)).max(1);
    for k in 0..n.min(args.cases) {
        let index = k * step;
        let seed = crate::worker::case_seed(args.seed, &args.property, index);
        let case = crate::props::generate(&args.property, seed, args.tier);
        let files: Vec<serde_json::Value> = case
            .worlds
            .iter()
            .enumerate()
            .flat_map(|(wi, w)| {
                w.module_files()
                    .into_iter()
                    .map(move |(p, b)| json!({"world": wi, "path": p, "text": crate::run::truncate(&b.lossy(), 1500)}))
                    .collect::<Vec<_>>()
            })
            .collect();
        out.push(json!({
            "index": index,
            "case_seed": seed,
            "family": case.family,
            "pointer_size": case.worlds[0].pointer_size,
            "files": files,
            "builds": case.builds.iter().map(|b| json!({
                "world": b.world,
                "entry": crate::case::entry_label(&b.entry),
                "unresolved_order": b.sched.unresolved.label(),
                "module_write_order": b.sched.module_write.label(),
                "definitions_order": b.sched.definitions.label(),
                "repeat": b.repeat,
            })).collect::<Vec<_>>(),
            "params": case.params,
        }));
    }
    out
}

fn stride_of(args: &CheckArgs) -> u64 {
    args.workers as u64
}

pub struct Reported {
    pub violations: Vec<(String, String)>, // (signature, replay path)
    pub known: Vec<(String, String)>,      // (signature, what)
}

pub fn check(args: &CheckArgs) -> i32 {
    let started = Instant::now();
    sweep_stale_scratch();
    println!(
        "pyxis-sim check property={} tier={} VERIF_SEED={} cases={} workers={}",
        args.property,
        args.tier.name(),
        args.seed,
        args.cases,
        args.workers
    );
    let findings: Findings =
        crate::findings::load(&format!("{}/known_findings.json", args.verif_dir));
    let raw_dir = format!("{}/replays/raw", args.verif_dir);
    let _ = std::fs::remove_dir_all(&raw_dir);
    let _ = std::fs::create_dir_all(&raw_dir);

    let mut reported = Reported {
        violations: vec![],
        known: vec![],
    };
    let mut harness_error = false;

    // 1. Regressions: minimised replays of repaired defects come first.
    let reg_dir = format!("{}/regressions", args.verif_dir);
    let mut regressions_run = 0;
    if let Ok(rd) = std::fs::read_dir(&reg_dir) {
        let mut files: Vec<String> = rd
            .flatten()
            .map(|e| e.path().to_string_lossy().into_owned())
            .filter(|p| {
                p.ends_with(".json")
                    && std::path::Path::new(p)
                        .file_name()
                        .map(|n| n.to_string_lossy().starts_with(&args.property))
                        .unwrap_or(false)
            })
            .collect();
        files.sort();
        for f in files {
            regressions_run += 1;
            let (code, out) = run_child(&["replay", &f], Duration::from_secs(90));
            match code {
                Some(0) => {}
                Some(1) => {
                    let sig = out
                        .lines()
                        .find_map(|l| l.strip_prefix("SIGNATURE "))
                        .unwrap_or("")
                        .to_string();
                    reported.violations.push((sig, f.clone()));
                }
                _ => {
                    eprintln!("harness error: regression replay {f} failed: {out}");
                    harness_error = true;
                }
            }
        }
    }

    // 2. The seeded search.
    let mut agg = run_workers(args);

    // 2b. C09 only: a sample of the cases is run again, each alone in a fresh process. The
    // result must not depend on what the process did before ("repeated runs in fresh
    // processes"): state that survives from one build to the next would show here.
    let mut fresh_compared = 0u64;
    if args.property == "C09" {
        let sample = match args.tier {
            Tier::Quick => 400u64,
            Tier::Thorough => 6000,
        }
        .min(args.cases);
        let step = (args.cases / sample.max(1)).max(1);
        let in_history: BTreeMap<u64, u64> = agg.case_digests.iter().copied().collect();
        let indices: Vec<u64> = (0..sample).map(|k| k * step).filter(|i| in_history.contains_key(i)).collect();
        let mismatches: std::sync::Mutex<Vec<(u64, u64)>> = std::sync::Mutex::new(vec![]);
        let next = std::sync::atomic::AtomicUsize::new(0);
        std::thread::scope(|s| {
            for _ in 0..args.workers.max(1) {
                s.spawn(|| loop {
                    let k = next.fetch_add(1, std::sync::atomic::Ordering::Relaxed);
                    let Some(&index) = indices.get(k) else { break };
                    let (code, out) = run_child(
                        &[
                            "worker",
                            &args.property,
                            args.tier.name(),
                            &args.seed.to_string(),
                            &index.to_string(),
                            "1000000007",
                            &(index + 1).to_string(),
                            &format!("{}/replays/raw-fresh", args.verif_dir),
                        ],
                        CASE_WALL_CLOCK_CAP,
                    );
                    if code != Some(0) {
                        continue; // killed runs are reported by the main search
                    }
                    let digest = out
                        .lines()
                        .find_map(|l| l.strip_prefix("E "))
                        .and_then(|j| serde_json::from_str::<CaseReport>(j).ok())
                        .map(|r| r.log_digest);
                    if let Some(d) = digest {
                        if in_history.get(&index) != Some(&d) {
                            mismatches.lock().unwrap().push((index, d));
                        }
                    }
                });
            }
        });
        fresh_compared = indices.len() as u64;
        let _ = std::fs::remove_dir_all(format!("{}/replays/raw-fresh", args.verif_dir));
        let mut mismatches = mismatches.into_inner().unwrap();
        mismatches.sort();
        for (index, _) in mismatches.into_iter().take(3) {
            let seed = crate::worker::case_seed(args.seed, &args.property, index);
            let case = crate::props::generate(&args.property, seed, args.tier);
            let class = "differs-in-fresh-process".to_string();
            let detail = format!(
                "case {index}: outcome or output differs between the run inside a worker's history and the run alone in a fresh process"
            );
            let mut f = crate::replay::ReplayFile {
                format: 1,
                property: args.property.clone(),
                signature: crate::findings::signature(&case, &class, &detail),
                class: class.clone(),
                detail: detail.clone(),
                minimised: false,
                history: Some(crate::replay::History {
                    tier: args.tier.name().to_string(),
                    seed: args.seed,
                    offset: index % stride_of(args),
                    stride: stride_of(args),
                    index,
                }),
                case,
            };
            f.minimised = false;
            let path = format!("{raw_dir}/{}-{}-{}-fresh.json", args.property, args.seed, index);
            let _ = std::fs::write(&path, serde_json::to_string_pretty(&f).unwrap());
            agg.violations.push((index, class, detail, path));
        }
    }

    if agg.harness_errors > 0 {
        harness_error = true;
    }

    // 3. Killed runs become violations with a regenerated case file.
    for (index, how) in agg.killed.clone() {
        let seed = crate::worker::case_seed(args.seed, &args.property, index);
        let case = crate::props::generate(&args.property, seed, args.tier);
        let verdict = crate::case::Verdict::violation(
            format!("killed:{how}"),
            format!("case {index} did not finish: worker {how}"),
        );
        let path = format!("{raw_dir}/{}-{}-{}.json", args.property, args.seed, index);
        let _ = std::fs::write(&path, crate::replay::to_json(&case, &verdict));
        agg.violations.push((
            index,
            format!("killed:{how}"),
            format!("case {index} did not finish: worker {how}"),
            path,
        ));
    }
    agg.violations.sort();

    // 4. Group, minimise, replay, report.
    let mut groups: BTreeMap<String, Vec<(u64, String)>> = BTreeMap::new();
    for (index, _class, _detail, path) in &agg.violations {
        let sig = crate::replay::load(path)
            .map(|f| f.signature)
            .unwrap_or_default();
        groups.entry(sig).or_default().push((*index, path.clone()));
    }
    let replay_dir = format!("{}/replays", args.verif_dir);
    let mut group_summary = vec![];
    let mut minimised_groups = 0;
    let mut reported_sigs: BTreeSet<String> = BTreeSet::new();
    for (sig, members) in &groups {
        let (index, raw_path) = &members[0];
        let final_path = format!("{replay_dir}/{}-{}-{}.json", args.property, args.seed, index);
        let mut sig_final = sig.clone();
        let history_dependent = sig.contains("differs-in-fresh-process");
        minimised_groups += 1;
        if args.minimise && !history_dependent && minimised_groups <= 8 {
            let (code, out) = run_child(
                &["minimise", raw_path, &final_path],
                Duration::from_secs(180),
            );
            if code != Some(0) {
                // Minimisation is best-effort; fall back to the raw case.
                let _ = std::fs::copy(raw_path, &final_path);
                if code.is_none() {
                    eprintln!("note: minimisation of {raw_path} timed out; raw case kept");
                } else {
                    eprintln!("note: minimisation of {raw_path} failed ({code:?}): {out}");
                }
            }
        } else {
            let _ = std::fs::copy(raw_path, &final_path);
        }
        // The (minimised) file must reproduce in a fresh process.
        let (code, out) = run_child(&["replay", &final_path], Duration::from_secs(90));
        match code {
            Some(1) => {
                if let Some(s) = out.lines().find_map(|l| l.strip_prefix("SIGNATURE ")) {
                    sig_final = s.to_string();
                }
            }
            Some(0) => {
                // Try the raw case before giving up.
                let _ = std::fs::copy(raw_path, &final_path);
                let (code2, _) = run_child(&["replay", &final_path], Duration::from_secs(90));
                if code2 != Some(1) {
                    eprintln!(
                        "harness error: violation {sig} (case {index}) does not reproduce on replay"
                    );
                    harness_error = true;
                    continue;
                }
            }
            _ => {
                eprintln!("harness error: replay of {final_path} failed: {out}");
                harness_error = true;
                continue;
            }
        }
        group_summary.push(json!({"signature": sig_final, "cases": members.len(), "replay": final_path}));
        let known = findings.findings.iter().find(|f| {
            f.status == "known" && f.property == args.property && f.signature == sig_final
        });
        if !reported_sigs.insert(sig_final.clone()) {
            continue; // another raw group minimised to the same violation
        }
        match known {
            Some(f) => reported.known.push((sig_final.clone(), f.what.clone())),
            None => reported.violations.push((sig_final.clone(), final_path.clone())),
        }
    }

    // 5. Evidence.
    let wall = started.elapsed().as_secs_f64();
    let distinct = |name: &str| agg.sets.get(name).map(|s| s.len()).unwrap_or(0);
    let builds = agg.counters.get("builds").copied().unwrap_or(0);
    let probes: BTreeMap<&str, u64> = agg
        .counters
        .iter()
        .filter_map(|(k, v)| k.strip_prefix("probe:").map(|p| (p, *v)))
        .collect();
    let faults: BTreeMap<&str, u64> = agg
        .counters
        .iter()
        .filter_map(|(k, v)| k.strip_prefix("fault:").map(|p| (p, *v)))
        .collect();
    let zero_probes: Vec<&str> = crate::props::expected_probes(&args.property)
        .into_iter()
        .filter(|p| !probes.contains_key(p))
        .collect();
    for p in &zero_probes {
        println!("warning: probe `{p}` was never hit; the workload mix does not reach it");
    }
    let evidence = json!({
        "property_id": args.property,
        "tier": args.tier.name(),
        "seed": args.seed,
        "level": "exploration",
        "wall_s": wall,
        "violations": reported.violations.len(),
        "coverage": {
            "evaluations": agg.reports + agg.killed.len() as u64,
            "distinct_nontrivial": distinct(crate::props::nontrivial_set(&args.property)),
            "rule": crate::props::rule(&args.property),
            "samples": samples_for(args, 3),
            "exhaustive": false,
            "simulated_runs": builds,
            "simulated_runs_per_hour": if wall > 0.0 { (builds as f64 / wall * 3600.0) as u64 } else { 0 },
            "seeds_per_hour": if wall > 0.0 { (agg.reports as f64 / wall * 3600.0) as u64 } else { 0 },
            "simulated_time": {
                "unit": "logical steps (pyxis has no clock; a step is one worklist request or one item attempt)",
                "worklist_requests": agg.counters.get("steps:unresolved_calls").copied().unwrap_or(0),
                "item_attempts": agg.counters.get("steps:item_attempts").copied().unwrap_or(0),
            },
            "distinct_worlds": distinct("world"),
            "distinct_interleavings": distinct("interleaving"),
            "distinct_interleavings_measure": "distinct (world digest, digest of every order served at the three seams in sequence) pairs",
            "case_status": agg.status,
            "families": agg.families,
            "vacuous_reasons": agg.vacuous_reasons,
            "faults_injected": faults,
            "probes_hit": probes,
            "probes_never_hit": zero_probes,
            "counters": agg.counters,
            "killed": agg.killed,
            "stopped_early_because_of_many_failures": agg.stopped_early,
            "regressions_replayed": regressions_run,
            "cases_rerun_alone_in_a_fresh_process": fresh_compared,
            "violation_groups": group_summary,
            "known_findings_matched": reported.known.iter().map(|(s, _)| s).collect::<Vec<_>>(),
            "event_log_digest": format!("{:016x}", agg.log_digest),
            "components": {
                "real": ["pyxis::parser", "pyxis::grammar", "pyxis::semantic (all of it)", "pyxis::backends::rust", "pyxis::build with its directory walk", "syn/quote/prettyplease", "std::fs on a tmpfs scratch tree (real symlinks, real over-long paths, real non-UTF-8 names, real EFBIG through RLIMIT_FSIZE)", "a build thread with a 512 KiB stack (stands in for 2 MiB in an unoptimised build)", "RLIMIT_AS and a counting allocator"],
                "stubbed": ["iteration order of TypeRegistry.types at unresolved() (H1)", "iteration order of modules at write time (H2)", "iteration order of Module.definition_paths before the sort (H3)", "order of the resolved-types list in the non-termination error (H4)", "order in which modules resolve their extern values (H5)"],
                "driver": "driver_* entries replace lib.rs's discover/add/build/write loop by the same calls through the public API so that module addition order can be chosen"
            }
        },
        "assumptions": crate::props::assumptions(&args.property),
    });
    if args.write_evidence {
        let dir = format!("{}/evidence", args.verif_dir);
        let _ = std::fs::create_dir_all(&dir);
        let path = format!("{dir}/{}.json", args.property);
        if let Err(e) = std::fs::write(&path, serde_json::to_string_pretty(&evidence).unwrap()) {
            eprintln!("harness error: cannot write {path}: {e}");
            harness_error = true;
        }
    }

    // 6. Verdict lines.
    println!(
        "cases={} held={} vacuous={} violation_cases={} killed={} builds={} distinct_worlds={} distinct_interleavings={} wall={:.1}s digest={:016x}",
        agg.reports,
        agg.status.get("held").copied().unwrap_or(0),
        agg.status.get("vacuous").copied().unwrap_or(0),
        agg.violations.len(),
        agg.killed.len(),
        builds,
        distinct("world"),
        distinct("interleaving"),
        wall,
        agg.log_digest,
    );
    let mut seen = BTreeSet::new();
    for (sig, what) in &reported.known {
        if seen.insert(sig.clone()) {
            println!("KNOWN-FINDING: property={} {} [{}]", args.property, what, sig);
        }
    }
    for (sig, path) in &reported.violations {
        println!("VIOLATION property={} replay={}", args.property, path);
        println!("  signature: {sig}");
    }
    let _ = std::fs::remove_dir_all(&raw_dir);
    if !reported.violations.is_empty() {
        1
    } else if harness_error {
        2
    } else {
        0
    }
}
