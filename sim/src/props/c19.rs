//! C19 — a module's bindings do not depend on unrelated definitions.
//!
//! A base project, an observed module with its reference closure, and a chain of edits that
//! only touch things outside that closure. Every world of the chain is built under
//! independently drawn schedules; the observed modules' output files must stay byte-identical.

use std::collections::BTreeSet;

use crate::case::{Case, CaseReport, Params, Verdict};
use crate::plan::{any_entry, any_order, Tier};
use crate::project::{
    by_value_edges, gen_valid, Decl, Flags, GenCfg, Item, ItemKind, Module, Project, Ty, Vft,
};
use crate::props::c09::field;
use crate::rng::Rng;
use crate::run::{BuildSpec, RunResult, World};
use crate::sched::{OrderSpec, SchedSpec};

/// Modules reachable from `m` through item references, including `m`.
fn closure(p: &Project, m: usize) -> BTreeSet<usize> {
    let mut seen = BTreeSet::new();
    let mut todo = vec![m];
    while let Some(x) = todo.pop() {
        if !seen.insert(x) {
            continue;
        }
        for i in p.mentioned_items(x) {
            todo.push(p.items[i].module);
        }
    }
    seen
}

/// Modules that (transitively) mention anything in module `x`, including `x`.
fn dependents(p: &Project, x: usize) -> BTreeSet<usize> {
    let mut out = BTreeSet::new();
    out.insert(x);
    loop {
        let mut grew = false;
        for m in 0..p.modules.len() {
            if out.contains(&m) || p.modules[m].deleted {
                continue;
            }
            if p.mentioned_items(m)
                .iter()
                .any(|i| out.contains(&p.items[*i].module))
            {
                out.insert(m);
                grew = true;
            }
        }
        if !grew {
            break;
        }
    }
    out
}

fn simple_type(name: String, module: usize, bytes: usize, with_vftable: bool, ptr: usize) -> Item {
    let vft = with_vftable.then(|| Vft {
        funcs: vec![crate::project::Func {
            vis: true,
            name: format!("unrelated_{}", name.trim_start_matches("r#").to_lowercase()),
            recv: Some(false),
            args: vec![("a".into(), Ty::Prim("u32"))],
            ret: Some(Ty::Prim("u32")),
            address: None,
            index: None,
            cc: None,
            doc: None,
        }],
        size: None,
    });
    // With a vftable pointer in front the byte array starts at `ptr`; sizes are kept multiples
    // of the pointer size so that no padding is needed.
    let bytes = bytes.div_ceil(ptr) * ptr;
    Item {
        module,
        name,
        vis: true,
        doc: None,
        kind: ItemKind::Type {
            fields: vec![field("bytes", Ty::Prim("u8").arr(bytes))],
            vftable: vft.clone(),
            size: None,
            align: Some(ptr),
            packed: false,
            flags: Flags::default(),
            singleton: None,
            impl_funcs: vec![],
            semicolon_form: false,
        },
        csize: bytes + if with_vftable { ptr } else { 0 },
        calign: ptr,
        vslots: vft.map(|v| v.funcs),
    }
}

fn push_item(rng: &mut Rng, p: &mut Project, item: Item) {
    let m = item.module;
    let idx = p.items.len();
    p.items.push(item);
    let pos = rng.below(p.modules[m].order.len() + 1);
    p.modules[m].order.insert(pos, Decl::Item(idx));
}

pub fn generate(seed: u64, tier: Tier) -> Case {
    let mut rng = Rng::new(seed);
    let (max_items, max_modules, max_edits) = match tier {
        Tier::Quick => (12, 5, 3),
        Tier::Thorough => (40, 8, 5),
    };
    let ptr = if rng.chance(1, 2) { 4 } else { 8 };
    let mut cfg = GenCfg::swarm(&mut rng, max_items, max_modules);
    cfg.max_modules = cfg.max_modules.max(2);
    cfg.max_items = cfg.max_items.max(3);
    let mut p = gen_valid(&mut rng, &cfg, ptr);
    let observed_module = rng.below(p.modules.len());
    let closed = closure(&p, observed_module);
    let mut observed: BTreeSet<String> = closed.iter().map(|m| p.modules[*m].out_path()).collect();
    let mut notes = vec![];

    let mut worlds = vec![World::from_files(ptr, p.files())];
    // Nodes that are not modules of the project: directory aliases (symbolic links).
    let mut extra: Vec<crate::run::Node> = vec![];
    let nedits = rng.range(1, max_edits);
    for e in 0..nedits {
        let unrelated: Vec<usize> = (0..p.modules.len())
            .filter(|m| !closed.contains(m) && !p.modules[*m].deleted)
            .collect();
        let names_in_closure: Vec<String> = p
            .items
            .iter()
            .filter(|it| closed.contains(&it.module))
            .map(|it| it.name.clone())
            .collect();
        match rng.below(14) {
            12 | 13 => {
                // A directory alias: a symbolic link to a directory of the tree makes every
                // module below it exist a second time under the alias (nobody imports those).
                // Aliases come, are renamed and go.
                let dirs: BTreeSet<String> = p
                    .modules
                    .iter()
                    .filter(|m| !m.deleted && m.path.len() >= 2)
                    .map(|m| m.path[..rng.range(1, m.path.len() - 1)].join("/"))
                    .collect();
                let have: Vec<usize> = (0..extra.len()).collect();
                if !have.is_empty() && rng.chance(1, 2) {
                    let i = *rng.pick(&have);
                    if rng.chance(1, 2) {
                        extra.remove(i);
                        notes.push("edit:remove_directory_alias".to_string());
                    } else if let crate::run::Node::Symlink { path, .. } = &mut extra[i] {
                        *path = format!("{}{e}_renamed", rng.pick(&["A", "z"]));
                        notes.push("edit:rename_directory_alias".to_string());
                    }
                } else if !dirs.is_empty() {
                    let dirs: Vec<String> = dirs.into_iter().collect();
                    let target = rng.pick(&dirs).clone();
                    // Sorting before or after the real directory, next to it.
                    let name = format!("{}{e}_alias", rng.pick(&["A", "a", "z", "_"]));
                    let (path, target) = match target.rsplit_once('/') {
                        Some((parent, leaf)) if rng.chance(1, 2) => {
                            (format!("{parent}/{name}"), leaf.to_string())
                        }
                        _ => {
                            let ups = String::new();
                            (name, format!("{ups}{target}"))
                        }
                    };
                    extra.push(crate::run::Node::Symlink { path, target });
                    notes.push("edit:add_directory_alias".to_string());
                }
            }
            0 | 1 => {
                // A new module; some of its types share their short name with types the
                // observed closure uses.
                let k = p.modules.len();
                // Somewhere of its own, or nested under the path of a module the observed
                // closure uses (`m0.pyxis` next to `m0/added3.pyxis`).
                let mut path: Vec<String> = if rng.chance(1, 2) {
                    let host = *rng.pick(&closed.iter().copied().collect::<Vec<_>>());
                    p.modules[host].path.clone()
                } else {
                    (0..rng.below(3))
                        .map(|d| format!("n{}{}", d, rng.below(2)))
                        .collect()
                };
                // Called like nothing else, or (below a closure module) like one of that
                // module's items or generated vftable types: `gfx.pyxis` declares `Texture`
                // and there is `gfx/Texture.pyxis`.
                let host_items: Vec<String> = p
                    .modules
                    .iter()
                    .position(|m| !path.is_empty() && m.path == path)
                    .map(|h| {
                        p.items
                            .iter()
                            .filter(|it| it.module == h)
                            .flat_map(|it| {
                                let mut v = vec![it.name.clone()];
                                if matches!(&it.kind, ItemKind::Type { vftable: Some(_), .. }) {
                                    v.push(crate::inventory::vftable_name(&it.name));
                                }
                                v
                            })
                            .collect()
                    })
                    .unwrap_or_default();
                if !host_items.is_empty() && rng.chance(1, 3) {
                    path.push(rng.pick(&host_items).clone());
                    notes.push("edit:module_called_like_item_of_closure_module".to_string());
                } else {
                    path.push(format!("added{k}"));
                }
                // Or, as one file name, the spelled-out path of a nested closure module
                // (`a::b.pyxis` next to `a/b.pyxis`).
                if rng.chance(1, 8) {
                    let nested: Vec<Vec<String>> = closed
                        .iter()
                        .map(|m| p.modules[*m].path.clone())
                        .filter(|q| q.len() >= 2)
                        .collect();
                    if !nested.is_empty() {
                        path = vec![rng.pick(&nested).join("::")];
                        notes.push("edit:module_file_named_like_the_path_of_a_closure_module".to_string());
                    }
                }
                if p.modules.iter().any(|m| m.path == path) {
                    path.push(format!("added{k}"));
                }
                p.modules.push(Module {
                    path,
                    type_imports: rng.chance(1, 2),
                    ..Default::default()
                });
                for j in 0..rng.range(1, 4) {
                    let name = if !names_in_closure.is_empty() && rng.chance(1, 2) {
                        let n = rng.pick(&names_in_closure).clone();
                        if p.items.iter().any(|it| it.module == k && it.name == n) {
                            format!("N{k}_{j}")
                        } else {
                            n
                        }
                    } else {
                        format!("N{k}_{j}")
                    };
                    let it = simple_type(name, k, rng.range(0, 40), rng.chance(1, 2), ptr);
                    push_item(&mut rng, &mut p, it);
                }
                notes.push("edit:add_module_with_shadowing_names".to_string());
            }
            2 if !unrelated.is_empty() => {
                // Remove an unrelated module together with everything that depends on it.
                let x = *rng.pick(&unrelated);
                let deps = dependents(&p, x);
                if deps.iter().all(|m| !closed.contains(m)) {
                    for m in deps {
                        p.modules[m].deleted = true;
                    }
                    notes.push("edit:remove_unrelated_module".to_string());
                }
            }
            3 if !unrelated.is_empty() => {
                // Rename an unrelated module (dependents' use lines follow automatically).
                let x = *rng.pick(&unrelated);
                let last = p.modules[x].path.len() - 1;
                p.modules[x].path[last] = format!("renamed{e}_{x}");
                if rng.chance(1, 2) {
                    p.modules[x].path.insert(0, format!("moved{e}"));
                }
                notes.push("edit:rename_unrelated_module".to_string());
            }
            4 if !unrelated.is_empty() => {
                // Replace an unrelated type nobody embeds by value by one of another size.
                let edges = by_value_edges(&p);
                let embedded: BTreeSet<usize> = edges.values().flatten().copied().collect();
                let cands: Vec<usize> = (0..p.items.len())
                    .filter(|i| {
                        unrelated.contains(&p.items[*i].module)
                            && !embedded.contains(i)
                            && matches!(p.items[*i].kind, ItemKind::Type { .. })
                    })
                    .collect();
                if !cands.is_empty() {
                    let i = *rng.pick(&cands);
                    let m = p.items[i].module;
                    let name = p.items[i].name.clone();
                    let vis = p.items[i].vis;
                    p.items[i] = simple_type(name, m, rng.range(0, 64), false, ptr);
                    p.items[i].vis = vis;
                    p.modules[m].order.retain(|d| *d != Decl::Impl(i));
                    notes.push("edit:change_unrelated_type".to_string());
                }
            }
            5 => {
                // Many new items in a new module: every real hash table would be resized.
                let k = p.modules.len();
                p.modules.push(Module {
                    path: vec![format!("bulk{k}")],
                    ..Default::default()
                });
                for j in 0..rng.range(20, 40) {
                    let it = simple_type(format!("B{k}_{j}"), k, j % 7, j % 3 == 0, ptr);
                    push_item(&mut rng, &mut p, it);
                }
                notes.push("edit:bulk_add".to_string());
            }
            6 => {
                // An unreferenced type inside a module of the closure (not the observed module
                // itself), allowed only when everybody who uses that module imports by name.
                let cands: Vec<usize> = closed
                    .iter()
                    .copied()
                    .filter(|x| *x != observed_module)
                    .filter(|x| {
                        (0..p.modules.len()).all(|m| {
                            m == *x
                                || p.modules[m].type_imports
                                || !p.mentioned_items(m).iter().any(|i| p.items[*i].module == *x)
                        })
                    })
                    .collect();
                if !cands.is_empty() {
                    let x = *rng.pick(&cands);
                    let name = format!("Z{e}_{x}");
                    let it = simple_type(name, x, rng.range(0, 32), rng.chance(1, 2), ptr);
                    push_item(&mut rng, &mut p, it);
                    observed.remove(&p.modules[x].out_path());
                    notes.push("edit:unreferenced_type_in_imported_module".to_string());
                }
            }
            10 => {
                // A file whose path differs from a closure module's only by `-` for `_` (or in
                // letter case): another module, with types of the same short names (built-in
                // fields only: its own path is not a valid Rust path segment).
                let cands: Vec<usize> = closed
                    .iter()
                    .copied()
                    .filter(|m| p.modules[*m].path.last().is_some_and(|s| s.contains('_')))
                    .collect();
                if !cands.is_empty() {
                    let host = *rng.pick(&cands);
                    let k = p.modules.len();
                    let mut path = p.modules[host].path.clone();
                    let last = path.len() - 1;
                    path[last] = path[last].replace('_', "-");
                    p.modules.push(Module {
                        path,
                        ..Default::default()
                    });
                    let names: Vec<String> = p
                        .items
                        .iter()
                        .filter(|it| it.module == host)
                        .map(|it| it.name.clone())
                        .collect();
                    for (j, name) in names.into_iter().take(3).enumerate() {
                        let mut it = simple_type(name, k, 8 * (j + 1), false, ptr);
                        if let ItemKind::Type { align, .. } = &mut it.kind {
                            *align = Some(ptr);
                        }
                        push_item(&mut rng, &mut p, it);
                    }
                    notes.push("edit:add_module_differing_only_in_hyphen".to_string());
                }
            }
            8 | 9 => {
                // A twin: a copy of a module of the observed closure under another path. Every
                // short name, vftable block and function of the original exists twice now, each
                // copy referring to its own module's items.
                let host = *rng.pick(&closed.iter().copied().collect::<Vec<_>>());
                let k = p.modules.len();
                // Sorting before or after the original, at top level or nested.
                let prefix = *rng.pick(&["A", "a", "twin", "z"]);
                let mut path = vec![format!("{prefix}{k}_of_{}", p.modules[host].path.last().unwrap())];
                if rng.chance(1, 2) {
                    path.insert(0, format!("{}{k}", rng.pick(&["A", "z"])));
                }
                crate::project::add_twin_module(&mut p, host, path);
                notes.push("edit:add_twin_of_closure_module".to_string());
            }
            7 => {
                // A new module that *uses* items of the observed closure (also private ones):
                // it depends on them, they do not depend on it.
                let targets: Vec<usize> = (0..p.items.len())
                    .filter(|i| closed.contains(&p.items[*i].module))
                    .collect();
                if !targets.is_empty() {
                    let k = p.modules.len();
                    p.modules.push(Module {
                        path: vec![format!("client{k}")],
                        type_imports: rng.chance(1, 2),
                        ..Default::default()
                    });
                    for j in 0..rng.range(1, 3) {
                        let t = *rng.pick(&targets);
                        let idx = p.items.len();
                        let ty = match rng.below(3) {
                            0 => Ty::Item(t),
                            1 => Ty::Item(t).cptr(),
                            _ => Ty::Item(t).mptr().arr(2),
                        };
                        // Sometimes what it uses is the vftable type generated for a type
                        // of the closure (by value, in an array, behind a pointer).
                        let owners: Vec<usize> = targets
                            .iter()
                            .copied()
                            .filter(|t| matches!(&p.items[*t].kind, ItemKind::Type { vftable: Some(_), .. }))
                            .collect();
                        let ty = if !owners.is_empty() && rng.chance(1, 3) {
                            let o = *rng.pick(&owners);
                            let om = p.items[o].module;
                            let vname = crate::inventory::vftable_name(&p.items[o].name);
                            let line = if rng.chance(1, 2) {
                                format!("use {}::{};", p.modules[om].item_path(), vname)
                            } else {
                                format!("use {};", p.modules[om].item_path())
                            };
                            if !p.modules[k].extra_uses.contains(&line) {
                                p.modules[k].extra_uses.push(line);
                            }
                            match rng.below(3) {
                                0 => Ty::Name(vname),
                                1 => Ty::Name(vname).arr(rng.range(1, 3)),
                                _ => Ty::Name(vname).cptr(),
                            }
                        } else {
                            ty
                        };
                        let mut it = simple_type(format!("C{k}_{j}"), k, 0, false, ptr);
                        if let ItemKind::Type {
                            fields,
                            align,
                            impl_funcs,
                            flags,
                            ..
                        } = &mut it.kind
                        {
                            // What the client says about itself must not rub off on what it uses.
                            flags.copyable = rng.chance(1, 3);
                            flags.cloneable = rng.chance(1, 3);
                            // A single region: the default alignment is that region's.
                            *fields = vec![field("uses", ty.clone())];
                            *align = None;
                            if rng.chance(1, 2) {
                                impl_funcs.push(crate::project::Func {
                                    vis: true,
                                    name: format!("client_fn_{idx}"),
                                    recv: Some(false),
                                    args: vec![("x".into(), Ty::Item(t).cptr())],
                                    ret: Some(Ty::Item(t).mptr()),
                                    address: Some(0x6000 + idx),
                                    index: None,
                                    cc: None,
                                    doc: None,
                                });
                            }
                        }
                        let has_impl = matches!(&it.kind, ItemKind::Type { impl_funcs, .. } if !impl_funcs.is_empty());
                        push_item(&mut rng, &mut p, it);
                        if has_impl {
                            p.modules[k].order.push(Decl::Impl(idx));
                        }
                    }
                    notes.push("edit:add_module_that_uses_observed_items".to_string());
                }
            }
            _ if !unrelated.is_empty() => {
                // New vftable-bearing type in an unrelated module (generated items appear).
                let x = *rng.pick(&unrelated);
                let it = simple_type(format!("V{e}_{x}"), x, rng.range(0, 32), true, ptr);
                push_item(&mut rng, &mut p, it);
                notes.push("edit:add_vftable_type_to_unrelated_module".to_string());
            }
            _ => {}
        }
        let mut w = World::from_files(ptr, p.files());
        w.input.extend(extra.iter().cloned());
        worlds.push(w);
    }

    // One name coincidence, applied to every world of the chain alike (module paths stay as
    // they are: what is related to what must not change).
    if rng.chance(1, 8) {
        if let Some((from, to)) = crate::mutate::coincide(&mut rng, &mut worlds, false) {
            notes.push(format!("coincidence:{from}->{to}"));
        }
    }
    let mut builds = vec![];
    for w in 0..worlds.len() {
        for _ in 0..(if rng.chance(1, 3) { 2 } else { 1 }) {
            builds.push(BuildSpec {
                world: w,
                entry: any_entry(&mut rng),
                sched: SchedSpec {
                    unresolved: match rng.below(4) {
                        0 => OrderSpec::Canonical,
                        1 => OrderSpec::Dynamic(rng.next_u64()),
                        _ => OrderSpec::Hashed(rng.next_u64()),
                    },
                    module_write: any_order(&mut rng),
                    definitions: any_order(&mut rng),
                },
                repeat: 1,
            });
        }
    }
    Case {
        property: "C19".into(),
        family: "edit_chain".into(),
        seed,
        worlds,
        builds,
        params: Params {
            intended_valid: true,
            observed: observed.into_iter().collect(),
            notes,
            ..Default::default()
        },
    }
}

pub fn evaluate(case: &Case, results: &[Vec<RunResult>], report: &mut CaseReport) -> Verdict {
    for n in &case.params.notes {
        report.count(&format!("fault:{n}"), 1);
    }
    let mut reference: Option<(usize, &RunResult)> = None;
    for (bi, reps) in results.iter().enumerate() {
        for r in reps {
            if !r.outcome.succeeded() {
                return Verdict::Vacuous(format!(
                    "a world of the chain is not accepted: {}",
                    r.outcome.brief()
                ));
            }
            match reference {
                None => reference = Some((bi, r)),
                Some((b0, first)) => {
                    for path in &case.params.observed {
                        let a = first.files().get(path.as_str()).copied();
                        let b = r.files().get(path.as_str()).copied();
                        // The observed module must be part of both worlds (a minimised or
                        // hand-made replay may have lost it): otherwise the premise fails.
                        let source = format!("{}.pyxis", path.trim_end_matches(".rs"));
                        let in_world = |w: usize| {
                            case.worlds[w]
                                .module_files()
                                .iter()
                                .any(|(p, _)| *p == source)
                        };
                        if a.is_none()
                            || !in_world(case.builds[b0].world)
                            || !in_world(case.builds[bi].world)
                        {
                            return Verdict::Vacuous(format!(
                                "observed module {source} is not part of every world of the chain"
                            ));
                        }
                        if a != b {
                            return Verdict::violation(
                                "observed-module-output-changed",
                                format!(
                                    "{path} differs between build {b0} (world {}) and build {bi} (world {})",
                                    case.builds[b0].world, case.builds[bi].world
                                ),
                            );
                        }
                    }
                }
            }
        }
    }
    let distinct_worlds: BTreeSet<u64> = case.worlds.iter().map(|w| w.digest()).collect();
    if distinct_worlds.len() >= 2 && !case.params.observed.is_empty() {
        report.set("nontrivial_c19", case.worlds[0].digest());
        report.count("oracle:chains_compared", 1);
    }
    Verdict::Held
}
