//! C14 — every declared item is emitted exactly once, in the file of its module.
//!
//! Observed purely at the file-system boundary of the real `pyxis::build`: snapshot of the
//! output tree before and after, emitted files read back with syn and compared with what the
//! world's modules declare (as parsed by pyxis's parser). Pre-existing output state, stray
//! input files, odd directory and file names and name collisions are the fault space; the
//! resolution and write orders are drawn per build.

use std::collections::{BTreeMap, BTreeSet};

use quote::ToTokens;

use crate::case::{Case, CaseReport, Params, Verdict};
use crate::inventory::{inventory, Top};
use crate::model::parse_world;
use crate::plan::{any_order, Tier};
use crate::project::{gen_valid, Decl, ExternValue, Flags, GenCfg, Item, ItemKind, Module, Ty};
use crate::props::c09::field;
use crate::rng::Rng;
use crate::run::{Blob, BuildSpec, Entry, Node, Outcome, RunResult, Snap, World};
use crate::sched::{OrderSpec, SchedSpec};

pub fn generate(seed: u64, tier: Tier) -> Case {
    let mut rng = Rng::new(seed);
    let (max_items, max_modules) = match tier {
        Tier::Quick => (10, 6),
        Tier::Thorough => (40, 10),
    };
    let ptr = if rng.chance(1, 2) { 4 } else { 8 };
    let mut cfg = GenCfg::swarm(&mut rng, max_items, max_modules);
    cfg.backends = rng.chance(4, 5);
    cfg.extern_values = rng.chance(3, 4);
    let mut p = gen_valid(&mut rng, &cfg, ptr);
    let mut params = Params {
        intended_valid: true,
        ..Default::default()
    };
    let mut family = "plain";

    // Modules with no items at all.
    for _ in 0..rng.below(3) {
        let k = p.modules.len();
        let mut path: Vec<String> = (0..rng.below(4))
            .map(|d| format!("e{}{}", d, rng.below(2)))
            .collect();
        path.push(format!("empty{k}"));
        p.modules.push(Module {
            path,
            doc: rng.chance(1, 3).then(|| " nothing here".to_string()),
            ..Default::default()
        });
    }

    // Name collisions: must be an error, never a silent overwrite.
    if rng.chance(1, 5) {
        family = "collision";
        params.intended_valid = false;
        let types: Vec<usize> = (0..p.items.len())
            .filter(|&i| matches!(p.items[i].kind, ItemKind::Type { .. }))
            .collect();
        let owners: Vec<usize> = types
            .iter()
            .copied()
            .filter(|&i| matches!(&p.items[i].kind, ItemKind::Type { vftable: Some(_), .. }))
            .collect();
        let kind = rng.below(5);
        let new_type = |name: String, m: usize, size: usize| Item {
            module: m,
            name,
            vis: true,
            doc: None,
            kind: ItemKind::Type {
                fields: vec![field("dup", Ty::Prim("u8").arr(size))],
                vftable: None,
                size: None,
                align: None,
                packed: false,
                flags: Flags::default(),
                singleton: None,
                impl_funcs: vec![],
                semicolon_form: false,
            },
            csize: size,
            calign: 1,
            vslots: None,
        };
        let mut injected = None;
        match kind {
            0 | 1 if !types.is_empty() => {
                // Second definition of an existing type name (as a type, or as an enum).
                let t = *rng.pick(&types);
                let m = p.items[t].module;
                let name = p.items[t].name.clone();
                let mut it = new_type(name, m, rng.range(1, 64));
                if kind == 1 {
                    it.kind = ItemKind::Enum {
                        base: Ty::Prim("u32"),
                        variants: vec![("A".into(), None, false)],
                        flags: Flags::default(),
                        singleton: None,
                    };
                } else {
                    // What the second declaration looks like: a body of its own, the very
                    // same declaration again, or a bare `type X;` / `type X {}` (which, placed
                    // at random, comes before or after the real one).
                    match rng.below(5) {
                        0 => {}
                        // The same name in its raw spelling: `type r#Foo` next to `type Foo`.
                        4 => it.name = format!("r#{}", it.name),
                        1 => {
                            it = p.items[t].clone();
                            if let ItemKind::Type { impl_funcs, .. } = &mut it.kind {
                                impl_funcs.clear();
                            }
                        }
                        k => {
                            it.vis = rng.chance(1, 2);
                            if let ItemKind::Type { fields, semicolon_form, .. } = &mut it.kind {
                                fields.clear();
                                *semicolon_form = k == 2;
                            }
                        }
                    }
                }
                injected = Some((it, "duplicate_definition"));
            }
            2 if !owners.is_empty() => {
                let t = *rng.pick(&owners);
                let m = p.items[t].module;
                let name = if rng.chance(1, 4) {
                    format!("r#{}", crate::inventory::vftable_name(&p.items[t].name))
                } else {
                    crate::inventory::vftable_name(&p.items[t].name)
                };
                injected = Some((new_type(name, m, rng.range(1, 64)), "user_type_named_like_vftable"));
            }
            3 if !types.is_empty() => {
                let t = *rng.pick(&types);
                let m = p.items[t].module;
                let name = p.items[t].name.clone();
                let mut it = new_type(name, m, 0);
                it.kind = ItemKind::Extern { size: 4, align: 4 };
                injected = Some((it, "extern_type_and_type_share_name"));
            }
            _ => {
                // Two extern values with one name: two accessors `get_<name>`.
                let m = rng.below(p.modules.len());
                let name = format!("dupval{m}");
                let raw_second = rng.chance(1, 4);
                for a in 0..2 {
                    let name = if a == 1 && raw_second { format!("r#{name}") } else { name.clone() };
                    let k = p.modules[m].extern_values.len();
                    p.modules[m].extern_values.push(ExternValue {
                        vis: true,
                        name: name.clone(),
                        ty: Ty::Prim("u32"),
                        address: Some(0x100 + a * 8),
                    });
                    let pos = rng.below(p.modules[m].order.len() + 1);
                    p.modules[m].order.insert(pos, Decl::ExternValue(k));
                }
                params.collision = Some("duplicate_extern_value".into());
            }
        }
        if let Some((it, what)) = injected {
            let m = it.module;
            let idx = p.items.len();
            p.items.push(it);
            let pos = rng.below(p.modules[m].order.len() + 1);
            p.modules[m].order.insert(pos, Decl::Item(idx));
            params.collision = Some(what.into());
        }
        if params.collision.is_none() {
            family = "plain";
            params.intended_valid = true;
        }
    }

    let mut files = p.files();
    // A module whose file name has an extra dot (its own items only use built-in types).
    if rng.chance(1, 12) {
        let (path, _) = files[rng.below(files.len())].clone();
        let stem = path.trim_end_matches(".pyxis");
        let n = rng.below(100);
        files.push((
            format!("{stem}.v{n}.pyxis"),
            format!("#[align(4)]\npub type Dotted{n} {{ pub a: u32, pub b: [u8; {}] }}\n", 4 * (n % 3)),
        ));
        params.notes.push("env:module_file_name_with_extra_dot".into());
    }
    // A module whose file name is unusual (dots only, a blank, punctuation, non-ASCII, a digit
    // first), at any depth; the ones pyxis accepts must land at their mirrored path like any
    // other (the rejected ones are vacuous here and C12's business).
    for _ in 0..(if rng.chance(1, 10) { rng.range(1, 2) } else { 0 }) {
        let stem = *rng.pick(&[
            "", ".", "..", "...", "a..b", ".a", "a b", " ", "-", "a-b", "\u{e9}t\u{e9}", "m\u{b2}", "3d", "_", "x.y.z", "..a", "a.",
            // not UTF-8 (`%XX` is that byte)
            "a%FF", "%FE", "caf%E9",
        ]);
        let dir = match rng.below(4) {
            0 => String::new(),
            1 => "nested/".to_string(),
            2 => "nested/deep/".to_string(),
            _ => match files[rng.below(files.len())].0.rsplit_once('/') {
                Some((d, _)) => format!("{d}/"),
                None => String::new(),
            },
        };
        let mut path = format!("{dir}{stem}.pyxis");
        // Or a single file name that spells the path of a nested module of the project
        // (`gfx::mesh.pyxis` next to `gfx/mesh.pyxis`): another module altogether.
        if rng.chance(1, 4) {
            let nested: Vec<String> = files
                .iter()
                .map(|(p, _)| p.trim_end_matches(".pyxis").to_string())
                .filter(|p| p.contains('/') && !p.contains("::"))
                .collect();
            if !nested.is_empty() {
                path = format!("{}.pyxis", rng.pick(&nested).replace('/', "::"));
            }
        }
        if !files.iter().any(|(p, _)| *p == path) {
            let n = rng.below(100);
            // Some declare nothing (the file is still a module and still gets its output), some
            // a plain type, some a type with a vftable block (a generated item of their own).
            let text = match rng.below(4) {
                0 | 1 => String::new(),
                2 => format!("#[align(4)]\npub type Odd{n} {{ pub a: u32 }}\n"),
                _ => format!(
                    "pub type OddOwner{n} {{\n    vftable {{\n        pub fn odd_fn_{n}(&self) -> u32;\n    }},\n}}\n"
                ),
            };
            files.push((path, text));
            params.notes.push("env:unusual_module_file_name".into());
        }
    }
    // A module so deep in the tree that its path is longer than PATH_MAX: it can be created and
    // walked step by step, but system calls that take the whole path fail for it
    // (ENAMETOOLONG). A build that meets such a failure reports it; it does not carry on
    // without the module.
    if rng.chance(1, 120) {
        let seg = "d".repeat(*rng.pick(&[200usize, 250]));
        let depth = 4200 / seg.len() + 1;
        let dir: String = (0..depth).map(|k| format!("{seg}{k}/")).collect();
        let n = rng.below(100);
        files.push((
            format!("{dir}deep.pyxis"),
            format!("#[align(4)]\npub type Deep{n} {{ pub a: u32 }}\n"),
        ));
        params.notes.push("env:module_path_longer_than_path_max".into());
    }
    let mut world = World::from_files(ptr, files);

    // Stray things in the input tree.
    for k in 0..rng.below(3) {
        match rng.below(3) {
            0 => world.input.push(Node::File {
                path: format!("notes{k}.txt"),
                content: Blob::text("type NotAModule { a: u32 }"),
            }),
            1 => {
                world.input.push(Node::Dir {
                    path: format!("emptydir{k}/inner"),
                });
                // A hidden module and a file that only looks like one.
                world.input.push(Node::File {
                    path: format!(".hidden{k}.pyxis"),
                    content: Blob::text(format!("pub type Hidden{k} {{ pub a: u8 }}\n")),
                });
                world.input.push(Node::File {
                    path: format!("UPPER{k}.PYXIS"),
                    content: Blob::text("this is not a module {{{"),
                });
            }
            _ => world.input.push(Node::File {
                path: format!("d00/readme{k}.pyxis.bak"),
                content: Blob::text("garbage {{{"),
            }),
        }
        params.notes.push("env:stray_input_nodes".into());
    }

    // Symbolic links inside the input tree: the linked file / directory is a module (or a tree
    // of modules) of its own under the link's path.
    if rng.chance(1, 6) {
        let mods: Vec<String> = world.module_files().iter().map(|(p, _)| p.clone()).collect();
        if !mods.is_empty() {
            let k = rng.below(100);
            let target = rng.pick(&mods).clone();
            if rng.chance(1, 2) {
                world.input.push(Node::Symlink {
                    path: format!("alias{k}.pyxis"),
                    target,
                });
                params.notes.push("env:symlink_to_module_file".into());
            } else if let Some((dir, _)) = target.split_once('/') {
                world.input.push(Node::Symlink {
                    path: format!("linkdir{k}"),
                    target: dir.to_string(),
                });
                params.notes.push("env:symlink_to_directory".into());
            }
        }
    }

    // Input directory names and spellings.
    match rng.below(16) {
        0 => {
            world.in_dir = (*rng.pick(&["g[1]", "types[x64]", "a*b", "what?", "in{1}", "[abc]"]))
                .to_string();
            params.notes.push("env:glob_metacharacter_in_input_dir".into());
        }
        1 => {
            world.in_dir = "nested/deeper/in".into();
        }
        2 | 3 => {
            world.in_arg_suffix = (*rng.pick(&["/", "/.", "//"])).to_string();
            params.notes.push("env:input_path_spelling".into());
        }
        _ => {}
    }

    // Pre-existing output state.
    match rng.below(4) {
        0 => world.out_exists = false,
        1 => {}
        _ => {
            let outs: Vec<String> = world
                .module_files()
                .iter()
                .map(|(p, _)| output_path(p))
                .collect();
            for k in 0..rng.range(1, 4) {
                match rng.below(4) {
                    0 => {
                        // Stale file exactly where this build will write.
                        // ... short, or much longer than anything this build will write.
                        let path = rng.pick(&outs).clone();
                        let lines = if rng.chance(1, 2) { 1 } else { rng.range(200, 3000) };
                        let text: String = (0..lines)
                            .map(|l| format!("pub struct Stale{k}_{l};\n"))
                            .collect();
                        world.pre_out.push(Node::File {
                            path,
                            content: Blob::text(format!("// stale output {k}\n{text}")),
                        });
                        params.notes.push("env:stale_file_at_output_path".into());
                    }
                    1 => {
                        world.pre_out.push(Node::File {
                            path: format!("old/module{k}.rs"),
                            content: Blob::text(format!("pub struct Old{k};\n")),
                        });
                        params.notes.push("env:unrelated_file_in_out_dir".into());
                    }
                    2 => {
                        world.pre_out.push(Node::Dir {
                            path: format!("leftover{k}/dir"),
                        });
                        params.notes.push("env:unrelated_dir_in_out_dir".into());
                    }
                    _ => {
                        // A sibling next to an output file that must stay untouched.
                        let path = rng.pick(&outs).clone();
                        world.pre_out.push(Node::File {
                            path: format!("{path}.orig"),
                            content: Blob::text("keep me"),
                        });
                        params.notes.push("env:sibling_of_output_file".into());
                    }
                }
            }
        }
    }

    // Rebuild history: the project changes (items and modules come and go) and is built again
    // into the output directory the first build left behind.
    let mut worlds = vec![world];
    let mut chain: Vec<(usize, usize)> = vec![];
    if params.collision.is_none() && rng.chance(1, 3) {
        let mut p2 = p.clone();
        for _ in 0..rng.range(1, 3) {
            match rng.below(5) {
                0 => {
                    // Drop items nobody mentions.
                    let mut mentioned = BTreeSet::new();
                    for m in 0..p2.modules.len() {
                        mentioned.extend(p2.mentioned_items(m));
                    }
                    let free: Vec<usize> = (0..p2.items.len())
                        .filter(|i| !mentioned.contains(i))
                        .collect();
                    if !free.is_empty() {
                        let i = *rng.pick(&free);
                        let m = p2.items[i].module;
                        p2.modules[m]
                            .order
                            .retain(|d| *d != Decl::Item(i) && *d != Decl::Impl(i));
                    }
                }
                1 => {
                    // Drop backend blocks and extern values of a module.
                    let m = rng.below(p2.modules.len());
                    p2.modules[m]
                        .order
                        .retain(|d| !matches!(d, Decl::Backend(_) | Decl::ExternValue(_)));
                    p2.modules[m].doc = None;
                }
                2 => {
                    // A module nobody uses disappears.
                    let used: BTreeSet<usize> = (0..p2.modules.len())
                        .flat_map(|m| {
                            p2.mentioned_items(m)
                                .into_iter()
                                .map(|i| p2.items[i].module)
                                .filter(move |t| *t != m)
                                .collect::<Vec<_>>()
                        })
                        .collect();
                    let free: Vec<usize> = (0..p2.modules.len())
                        .filter(|m| !used.contains(m) && !p2.modules[*m].deleted)
                        .collect();
                    if free.len() >= 1 && p2.modules.iter().filter(|m| !m.deleted).count() > 1 {
                        let m = *rng.pick(&free);
                        p2.modules[m].deleted = true;
                    }
                }
                3 => {
                    // Same shape, different numbers: addresses of functions and extern values,
                    // enum values (the output keeps its line count, its content changes).
                    for it in p2.items.iter_mut() {
                        match &mut it.kind {
                            ItemKind::Type { impl_funcs, singleton, .. } => {
                                for f in impl_funcs.iter_mut() {
                                    if let Some(a) = &mut f.address {
                                        *a += 0x10;
                                    }
                                }
                                if let Some(a) = singleton {
                                    *a += 0x100;
                                }
                            }
                            ItemKind::Enum { variants, .. } => {
                                if let Some((_, Some(v), _)) = variants.last_mut() {
                                    *v += 1;
                                }
                            }
                            _ => {}
                        }
                    }
                    for m in p2.modules.iter_mut() {
                        for ev in m.extern_values.iter_mut() {
                            if let Some(a) = &mut ev.address {
                                *a += 8;
                            }
                        }
                    }
                }
                _ => {
                    // Something new.
                    let m = rng.below(p2.modules.len());
                    if !p2.modules[m].deleted {
                        let idx = p2.items.len();
                        p2.items.push(Item {
                            module: m,
                            name: format!("Added{idx}"),
                            vis: true,
                            doc: None,
                            kind: ItemKind::Type {
                                fields: vec![field("a", Ty::Prim("u8").arr(rng.range(1, 600)))],
                                vftable: None,
                                size: None,
                                align: None,
                                packed: false,
                                flags: Flags::default(),
                                singleton: None,
                                impl_funcs: vec![],
                                semicolon_form: false,
                            },
                            csize: 0,
                            calign: 1,
                            vslots: None,
                        });
                        p2.modules[m].order.push(Decl::Item(idx));
                    }
                }
            }
        }
        let mut w2 = worlds[0].clone();
        w2.input.retain(|n| !matches!(n, Node::File { path, .. } if path.ends_with(".pyxis") && !path.contains(".v")));
        for (path, text) in p2.files() {
            w2.input.push(Node::File {
                path,
                content: Blob::text(text),
            });
        }
        worlds.push(w2);
        chain.push((1usize, 0usize));
        params.notes.push("env:rebuild_into_previous_output".into());
    }
    params.chain = chain.clone();
    let nbuilds = if !chain.is_empty() {
        2
    } else if rng.chance(1, 4) {
        2
    } else {
        1
    };
    let chained = !chain.is_empty();
    let builds = (0..nbuilds)
        .map(|k| BuildSpec {
            world: if chained { k } else { 0 },
            entry: Entry::LibBuild,
            sched: SchedSpec {
                unresolved: match rng.below(3) {
                    0 => OrderSpec::Dynamic(rng.next_u64()),
                    _ => OrderSpec::Hashed(rng.next_u64()),
                },
                module_write: any_order(&mut rng),
                definitions: any_order(&mut rng),
            },
            repeat: 1,
        })
        .collect();
    // Reference builds: the same input built into an empty output directory. What a build
    // writes must not depend on what was in the output directory before.
    let mut builds: Vec<BuildSpec> = builds;
    let n = builds.len();
    for bi in 0..n {
        let w = worlds[builds[bi].world].clone();
        let dirty = !w.pre_out.is_empty() || params.chain.iter().any(|(x, _)| *x == bi);
        if dirty && rng.chance(1, 2) {
            let mut r = w;
            r.pre_out.clear();
            r.out_exists = true;
            r.out_is_file = false;
            worlds.push(r);
            let mut b = builds[bi].clone();
            b.world = worlds.len() - 1;
            builds.push(b);
            params.notes.push("env:reference_build_into_empty_dir".into());
        }
    }
    if rng.chance(1, 8) {
        if let Some((from, to)) = crate::mutate::coincide(&mut rng, &mut worlds, true) {
            params.notes.push(format!("env:name_coincidence"));
            params.notes.push(format!("coincidence:{from}->{to}"));
            params.intended_valid = false;
        }
    }
    Case {
        property: "C14".into(),
        family: family.into(),
        seed,
        worlds,
        builds,
        params,
    }
}

/// Where the output of the module file `rel` belongs: the same relative path with `.rs` for
/// `.pyxis`. A file called just `.pyxis` has nothing in front of its extension; it keeps its
/// whole name (`.pyxis.rs`).
fn output_path(rel: &str) -> String {
    let (dir, name) = match rel.rsplit_once('/') {
        Some((d, n)) => (format!("{d}/"), n),
        None => (String::new(), rel),
    };
    if name == ".pyxis" {
        format!("{dir}.pyxis.rs")
    } else {
        format!("{dir}{}.rs", name.trim_end_matches(".pyxis"))
    }
}

fn items_of(text: &str) -> Result<Vec<String>, String> {
    let f = syn::parse_file(text).map_err(|e| e.to_string())?;
    Ok(f.items
        .iter()
        .map(|i| i.to_token_stream().to_string())
        .collect())
}

/// Checks one accepted build against what the world declares.
fn check_build(case: &Case, w: usize, r: &RunResult) -> Result<(), (String, String)> {
    let world = &case.worlds[w];
    let parsed = parse_world(world).map_err(|e| ("vacuous".to_string(), e))?;

    // Expected file set.
    let mut expected: BTreeMap<String, usize> = BTreeMap::new();
    for (mi, (rel, _, _)) in parsed.modules.iter().enumerate() {
        let out = output_path(rel);
        if expected.insert(out.clone(), mi).is_some() {
            return Err(("vacuous".into(), format!("two modules map to {out}")));
        }
    }
    let mut allowed_dirs: BTreeSet<String> = BTreeSet::new();
    for out in expected.keys() {
        let mut p = std::path::Path::new(out).parent();
        while let Some(d) = p {
            if d.as_os_str().is_empty() {
                break;
            }
            allowed_dirs.insert(d.to_string_lossy().into_owned());
            p = d.parent();
        }
    }

    // 1. Every expected file exists; nothing else appeared or changed.
    for out in expected.keys() {
        match r.after.get(out) {
            Some(Snap::File(_)) => {}
            other => {
                return Err((
                    "module-file-missing".into(),
                    format!("expected output file {out}, found {other:?}"),
                ))
            }
        }
    }
    for (path, snap) in &r.after {
        if expected.contains_key(path) {
            continue;
        }
        match r.before.get(path) {
            Some(b) if b == snap => {}
            Some(_) => {
                return Err((
                    "unrelated-path-modified".into(),
                    format!("{path} is not an output of this build but was changed"),
                ))
            }
            None => {
                if matches!(snap, Snap::Dir) && allowed_dirs.contains(path) {
                    continue;
                }
                return Err((
                    "unexpected-path-created".into(),
                    format!("{path} appeared but no module maps to it"),
                ));
            }
        }
    }
    for path in r.before.keys() {
        if !r.after.contains_key(path) {
            return Err((
                "pre-existing-path-removed".into(),
                format!("{path} existed before the build and is gone"),
            ));
        }
    }

    // Names that belong to somebody: every item declared anywhere in the world, extern types
    // and built-ins. Emitting one of those in a file whose module does not declare it is
    // "something belonging to another module"; helper items with names of their own are not.
    let mut owned_names: BTreeSet<String> = crate::model::BUILTINS.iter().map(|s| s.to_string()).collect();
    for (_, _, m) in &parsed.modules {
        for d in &m.definitions {
            owned_names.insert(crate::inventory::plain_ident(d.name.as_str()));
            // `<T>Vftable` belongs to `T` whether or not `T` declares a vftable block: there is
            // one vftable struct for every type that declares one, none for the others.
            if let pyxis::grammar::ItemDefinitionInner::Type(_) = &d.inner {
                owned_names.insert(crate::inventory::vftable_name(d.name.as_str()));
            }
        }
        for (n, _) in &m.extern_types {
            owned_names.insert(n.as_str().to_string());
        }
    }

    // 2. Per-file inventory.
    for (out, mi) in &expected {
        let (_, _, m) = &parsed.modules[*mi];
        let Some(Snap::File(bytes)) = r.after.get(out) else {
            unreachable!()
        };
        let text = String::from_utf8_lossy(bytes);
        let inv = inventory(&text).map_err(|e| {
            (
                "output-unparsable".to_string(),
                format!("{out}: {e}"),
            )
        })?;
        let mut want_structs: BTreeSet<String> = BTreeSet::new();
        let mut want_enums: BTreeSet<String> = BTreeSet::new();
        for d in &m.definitions {
            match &d.inner {
                pyxis::grammar::ItemDefinitionInner::Type(t) => {
                    want_structs.insert(crate::inventory::plain_ident(d.name.as_str()));
                    if t.statements.iter().any(|s| s.field.is_vftable()) {
                        want_structs.insert(crate::inventory::vftable_name(d.name.as_str()));
                    }
                }
                pyxis::grammar::ItemDefinitionInner::Enum(_) => {
                    want_enums.insert(crate::inventory::plain_ident(d.name.as_str()));
                }
            }
        }
        let want_getters: BTreeSet<String> = m
            .extern_values
            .iter()
            .map(|ev| format!("get_{}", crate::inventory::plain_ident(ev.name.as_str())))
            .collect();

        // The parser's idea of what the module declares agrees with a count on the token
        // level: a declaration the parser loses would otherwise be missing from the
        // expectation and from the output alike.
        {
            let (rel, _, _) = &parsed.modules[*mi];
            let source = world
                .module_files()
                .into_iter()
                .find(|(p, _)| p == rel)
                .map(|(_, b)| b.lossy())
                .unwrap_or_default();
            if let Some(census) = crate::inventory::census(&source) {
                let mut declared_types: Vec<String> = vec![];
                let mut declared_enums: Vec<String> = vec![];
                for d in &m.definitions {
                    let n = crate::inventory::plain_ident(d.name.as_str());
                    match &d.inner {
                        pyxis::grammar::ItemDefinitionInner::Type(_) => declared_types.push(n),
                        pyxis::grammar::ItemDefinitionInner::Enum(_) => declared_enums.push(n),
                    }
                }
                let mut declared_values: Vec<String> = m
                    .extern_values
                    .iter()
                    .map(|ev| crate::inventory::plain_ident(ev.name.as_str()))
                    .collect();
                let mut declared_extern: Vec<String> = m
                    .extern_types
                    .iter()
                    .map(|(n, _)| crate::inventory::plain_ident(n.as_str()))
                    .collect();
                let mut c = census.clone();
                for v in [
                    &mut declared_types,
                    &mut declared_enums,
                    &mut declared_values,
                    &mut declared_extern,
                    &mut c.types,
                    &mut c.enums,
                    &mut c.extern_values,
                    &mut c.extern_types,
                ] {
                    v.sort();
                }
                if c.types != declared_types
                    || c.enums != declared_enums
                    || c.extern_values != declared_values
                    || c.extern_types != declared_extern
                {
                    return Err((
                        "declaration-lost-before-resolution".into(),
                        format!(
                            "{out}: the text declares types {:?} enums {:?} extern types {:?} extern values {:?}, the parsed module has types {:?} enums {:?} extern types {:?} extern values {:?}",
                            c.types, c.enums, c.extern_types, c.extern_values,
                            declared_types, declared_enums, declared_extern, declared_values
                        ),
                    ));
                }
                let _ = census;
            }
        }
        // What the rust prologues/epilogues contribute: read from the module's text by the
        // harness's own token-level reader, so that an entry the parser loses is still expected.
        let mut pro_items: Vec<String> = vec![];
        let mut epi_items: Vec<String> = vec![];
        let mut foreign_items: Vec<String> = vec![];
        let (rel, _, _) = &parsed.modules[*mi];
        let source = world
            .module_files()
            .into_iter()
            .find(|(p, _)| p == rel)
            .map(|(_, b)| b.lossy())
            .unwrap_or_default();
        let entries = crate::inventory::backend_entries(&source)
            .ok_or_else(|| ("vacuous".to_string(), format!("{rel}: backend blocks not readable")))?;
        let by_parser: usize = m
            .backends
            .iter()
            .map(|b| b.prologue.is_some() as usize + b.epilogue.is_some() as usize)
            .sum();
        if by_parser > entries.len() {
            // The reader missed something the parser saw: do not judge with half the picture.
            return Err(("vacuous".into(), format!("{rel}: backend reader found fewer entries than the parser")));
        }
        for e in &entries {
            let items = items_of(&e.text).map_err(|e| ("vacuous".to_string(), e))?;
            if e.backend != "rust" {
                foreign_items.extend(items);
            } else if e.is_prologue {
                pro_items.extend(items);
            } else {
                epi_items.extend(items);
            }
        }
        let file_items = items_of(&text).map_err(|e| ("output-unparsable".to_string(), e))?;
        let np = pro_items.len();
        let ne = epi_items.len();
        if file_items.len() < np + ne {
            return Err((
                "prologue-or-epilogue-incomplete".into(),
                format!("{out}: {} items, prologues {np} + epilogues {ne}", file_items.len()),
            ));
        }
        if file_items[..np] != pro_items[..] {
            return Err((
                "prologue-misplaced".into(),
                format!(
                    "{out}: file starts with {:?}, prologues are {:?}",
                    &file_items[..np], pro_items
                ),
            ));
        }
        if file_items[file_items.len() - ne..] != epi_items[..] {
            return Err((
                "epilogue-misplaced".into(),
                format!(
                    "{out}: file ends with {:?}, epilogues are {:?}",
                    &file_items[file_items.len() - ne..],
                    epi_items
                ),
            ));
        }
        for f in &foreign_items {
            if !pro_items.contains(f) && !epi_items.contains(f) && file_items.contains(f) {
                return Err((
                    "foreign-backend-text-included".into(),
                    format!("{out}: contains text of another backend: {f}"),
                ));
            }
        }

        // The generated part: everything between prologues and epilogues.
        let generated = inventory_slice(&inv, np, inv.order.len() - ne);
        let got_structs: BTreeMap<String, usize> = count(&generated, |t| match t {
            Top::Struct(n) => Some(n.clone()),
            _ => None,
        });
        let got_enums: BTreeMap<String, usize> = count(&generated, |t| match t {
            Top::Enum(n) => Some(n.clone()),
            _ => None,
        });
        let got_fns: BTreeMap<String, usize> = count(&generated, |t| match t {
            Top::Fn(n) => Some(n.clone()),
            _ => None,
        });
        for (what, want, got) in [
            ("struct", &want_structs, &got_structs),
            ("enum", &want_enums, &got_enums),
        ] {
            for n in want {
                match got.get(n).copied().unwrap_or(0) {
                    1 => {}
                    0 => {
                        return Err((
                            "item-missing".into(),
                            format!("{out}: declared {what} `{n}` is not emitted"),
                        ))
                    }
                    k => {
                        return Err((
                            "item-emitted-more-than-once".into(),
                            format!("{out}: {what} `{n}` emitted {k} times"),
                        ))
                    }
                }
            }
            for n in got.keys() {
                if !want.contains(n) && owned_names.contains(n) {
                    return Err((
                        "undeclared-item-emitted".into(),
                        format!("{out}: {what} `{n}` is emitted but not declared by this module"),
                    ));
                }
            }
        }
        for n in &want_getters {
            match got_fns.get(n).copied().unwrap_or(0) {
                1 => {}
                0 => {
                    return Err((
                        "accessor-missing".into(),
                        format!("{out}: no accessor `{n}`"),
                    ))
                }
                k => {
                    return Err((
                        "item-emitted-more-than-once".into(),
                        format!("{out}: accessor `{n}` emitted {k} times"),
                    ))
                }
            }
        }
    }
    Ok(())
}

fn inventory_slice(inv: &crate::inventory::Inventory, from: usize, to: usize) -> Vec<Top> {
    inv.order[from.min(inv.order.len())..to.min(inv.order.len())].to_vec()
}

fn count(tops: &[Top], f: impl Fn(&Top) -> Option<String>) -> BTreeMap<String, usize> {
    let mut m = BTreeMap::new();
    for t in tops {
        if let Some(n) = f(t) {
            *m.entry(n).or_insert(0) += 1;
        }
    }
    m
}

pub fn evaluate(case: &Case, results: &[Vec<RunResult>], report: &mut CaseReport) -> Verdict {
    for n in &case.params.notes {
        if let Some(f) = n.strip_prefix("env:") {
            report.count(&format!("fault:{f}"), 1);
        }
    }
    if let Some(c) = &case.params.collision {
        report.count(&format!("fault:collision:{c}"), 1);
    }
    // Collisions are read off the world itself (so that a minimised or hand-written replay is
    // judged by what it contains, not by what the generator meant).
    let mut collisions: Vec<Option<String>> = vec![];
    for world in &case.worlds {
        let c = match parse_world(world) {
            Err(e) => return Verdict::Vacuous(format!("world does not parse: {e}")),
            Ok(parsed) => {
                let model = crate::model::Model::build(&parsed);
                let mut c = model.duplicates.first().map(|d| format!("duplicate item `{d}`"));
                for (_, mpath, m) in &parsed.modules {
                    let mut seen = BTreeSet::new();
                    for ev in &m.extern_values {
                        if !seen.insert(crate::inventory::plain_ident(ev.name.as_str())) {
                            c = Some(format!(
                                "duplicate extern value `{}` in `{mpath}`",
                                ev.name.as_str()
                            ));
                        }
                    }
                }
                c
            }
        };
        collisions.push(c);
    }
    let mut any_effect = false;
    for (bi, reps) in results.iter().enumerate() {
        let collision = &collisions[case.builds[bi].world];
        for r in reps {
            match &r.outcome {
                Outcome::Panic { message, location } => {
                    return Verdict::violation(
                        "panic",
                        format!("build {bi}: {message} at {location}"),
                    )
                }
                Outcome::StepBudget => {
                    return Verdict::violation("step-budget", format!("build {bi}"))
                }
                Outcome::Err(e) => {
                    if collision.is_some() {
                        any_effect = true;
                        continue; // a collision must be an error: held
                    }
                    return Verdict::Vacuous(format!("intended-valid world rejected: {e}"));
                }
                Outcome::Ok => {
                    if !r.elsewhere.is_empty() {
                        return Verdict::violation(
                            "wrote-outside-output-directory",
                            format!("build {bi}: changed outside the output directory: {:?}", r.elsewhere),
                        );
                    }
                    if let Some(c) = collision {
                        return Verdict::violation(
                            "collision-accepted",
                            format!("build {bi} succeeded although the world contains a {c}"),
                        );
                    }
                    match check_build(case, case.builds[bi].world, r) {
                        Ok(()) => {
                            report.count("oracle:inventory_checked", 1);
                            any_effect = true;
                        }
                        Err((class, detail)) if class == "vacuous" => {
                            return Verdict::Vacuous(detail)
                        }
                        Err((class, detail)) => {
                            return Verdict::violation(class, format!("build {bi}: {detail}"))
                        }
                    }
                }
            }
        }
    }
    // Builds of the same input must write the same bytes, whatever the output directory held.
    let key = |w: &World| {
        crate::rng::hash_str(
            w.pointer_size as u64,
            &serde_json::to_string(&(&w.input, &w.in_dir)).unwrap(),
        )
    };
    for (a, ra) in results.iter().enumerate() {
        for (b, rb) in results.iter().enumerate().skip(a + 1) {
            let (wa, wb) = (&case.worlds[case.builds[a].world], &case.worlds[case.builds[b].world]);
            if key(wa) != key(wb) {
                continue;
            }
            let (Some(ra), Some(rb)) = (ra.last(), rb.last()) else {
                continue;
            };
            if !ra.outcome.succeeded() || !rb.outcome.succeeded() {
                continue;
            }
            report.count("oracle:compared_with_build_into_other_output_state", 1);
            for (rel, _) in wa.module_files() {
                let out = output_path(&rel);
                if ra.files().get(out.as_str()) != rb.files().get(out.as_str()) {
                    return Verdict::violation(
                        "output-depends-on-pre-existing-output-state",
                        format!("{out} differs between build {a} and build {b} of the same input"),
                    );
                }
            }
        }
    }
    if any_effect
        && (!case.params.notes.is_empty() || collisions.iter().any(|c| c.is_some()))
        && case.worlds[0].module_files().len() >= 1
    {
        report.set("nontrivial_c14", case.worlds[0].digest());
    }
    Verdict::Held
}
