//! C10 — resolution succeeds exactly when names exist and by-value embedding is acyclic.
//!
//! Worlds are dependency graphs; layout is made irrelevant (packed / alignment-1 types) so that
//! resolution is the only thing that can fail. Each world runs under adversarial resolution
//! orders; the verdict, the failed-type list and the completeness of the output are compared
//! with the reference model of `model.rs`.

use std::collections::BTreeSet;

use crate::case::{Case, Params, Verdict};
use crate::inventory::{inventory, normalise_grammar_type};
use crate::model::{parse_world, DeclKind, Model, ParsedWorld};
use crate::plan::{any_entry, any_order, structural_orders, Tier};
use crate::project::{
    module_paths, Decl, ExternValue, Field, Flags, Func, Item, ItemKind, Module, Project, Ty, Vft,
};
use crate::rng::Rng;
use crate::run::{BuildSpec, Outcome, RunResult, World};
use crate::sched::{OrderSpec, SchedSpec};

/// Swarm knobs of a graph world.
struct GraphCfg {
    items: usize,
    modules: usize,
    p_enum: usize,
    /// Chance (percent) that a by-value edge is drawn at all for a field.
    p_by_value: usize,
    p_pointer: usize,
    /// Long by-value chain through all types.
    chain: bool,
    n_undefined: usize,
    undefined_positions: Vec<&'static str>,
    n_cycles: usize,
    p_funcs: usize,
    p_bases: usize,
    extern_values: bool,
}

pub fn gen_graph_project(rng: &mut Rng, tier: Tier, ptr: usize) -> Project {
    let (max_items, max_modules) = match tier {
        Tier::Quick => (12, 4),
        Tier::Thorough => (64, 8),
    };
    let positions = ["field", "enum_base", "parameter", "return", "extern_value", "pointer_field"];
    let mut cfg = GraphCfg {
        items: rng.range(1, max_items),
        modules: rng.range(1, max_modules),
        p_enum: *rng.pick(&[0usize, 10, 30]),
        p_by_value: *rng.pick(&[20usize, 50, 80]),
        p_pointer: *rng.pick(&[0usize, 30, 60]),
        chain: rng.chance(1, 4),
        n_undefined: *rng.pick(&[0usize, 0, 0, 0, 0, 0, 1, 1, 2, 3]),
        undefined_positions: vec![],
        n_cycles: *rng.pick(&[0usize, 0, 0, 0, 0, 0, 0, 1, 1, 2]),
        p_funcs: *rng.pick(&[0usize, 30, 70]),
        p_bases: *rng.pick(&[0usize, 20, 50]),
        extern_values: rng.chance(1, 2),
    };
    // Worlds that mention generated `<T>Vftable` names are kept free of other problems: every
    // name exists, nothing is cyclic, the expected verdict is success.
    let mention_generated = rng.chance(1, 6);
    if mention_generated {
        cfg.n_undefined = 0;
        cfg.n_cycles = 0;
        cfg.p_funcs = cfg.p_funcs.max(70);
    }
    // Swarm: only a random subset of the positions is enabled per run.
    for p in positions {
        if rng.chance(1, 2) {
            cfg.undefined_positions.push(p);
        }
    }
    if cfg.undefined_positions.is_empty() {
        cfg.undefined_positions.push(*rng.pick(&positions));
    }
    if cfg.chain {
        cfg.p_enum = 0;
    }

    let paths = module_paths(rng, cfg.modules, 2);
    let modules: Vec<Module> = paths
        .into_iter()
        .map(|path| Module {
            path,
            type_imports: rng.chance(1, 2),
            ..Default::default()
        })
        .collect();
    let mut p = Project {
        ptr,
        modules,
        items: vec![],
        style: rng.next_u64(),
    };
    let mut fn_counter = 0usize;

    for idx in 0..cfg.items {
        let m = rng.below(cfg.modules);
        if rng.below(100) < cfg.p_enum {
            // Enum over an integer, or (rarely) over another enum declared earlier.
            let base = *rng.pick(&["u8", "i8", "u16", "u32", "i32", "u64"]);
            let mut base_ty = Ty::Prim(base);
            let mut calign = p.ty_size_align(&base_ty).1;
            if rng.chance(1, 6) {
                // Over another enum, or (rarely written, but accepted) over a type.
                let over_type = rng.chance(1, 3);
                let enums: Vec<usize> = (0..idx)
                    .filter(|&j| {
                        if over_type {
                            matches!(p.items[j].kind, ItemKind::Type { .. })
                        } else {
                            matches!(p.items[j].kind, ItemKind::Enum { .. })
                        }
                    })
                    .collect();
                if !enums.is_empty() {
                    let j = *rng.pick(&enums);
                    calign = p.items[j].calign;
                    base_ty = Ty::Item(j);
                }
            }
            let n = rng.range(1, 4);
            p.items.push(Item {
                module: m,
                name: format!("E{idx}"),
                vis: true,
                doc: None,
                kind: ItemKind::Enum {
                    base: base_ty,
                    variants: (0..n).map(|k| (format!("V{k}"), None, false)).collect(),
                    flags: Flags::default(),
                    singleton: None,
                },
                csize: 0,
                calign,
                vslots: None,
            });
            continue;
        }
        // A type. `packed` types may hold anything; `align(1)` types only alignment-1 things.
        let packed = rng.chance(2, 3);
        let mut fields: Vec<Field> = vec![];
        let earlier_types: Vec<usize> = (0..idx)
            .filter(|&j| matches!(p.items[j].kind, ItemKind::Type { .. }))
            .collect();
        let ok_by_value = |p: &Project, j: usize| packed || p.items[j].calign == 1;
        let mut first_base_vslots: Option<Vec<Func>> = None;
        if rng.below(100) < cfg.p_bases && !earlier_types.is_empty() {
            let j = *rng.pick(&earlier_types);
            if ok_by_value(&p, j) {
                first_base_vslots = p.items[j].vslots.clone();
                fields.push(Field {
                    base: true,
                    ..crate::props::c09::field("base", Ty::Item(j))
                });
            }
        }
        if cfg.chain && idx > 0 {
            if let Some(&j) = earlier_types.last() {
                if ok_by_value(&p, j) || packed {
                    let ty = if rng.chance(1, 3) {
                        Ty::Item(j).arr(rng.range(0, 3))
                    } else {
                        Ty::Item(j)
                    };
                    fields.push(crate::props::c09::field("link", ty));
                }
            }
        }
        for k in 0..rng.range(0, 4) {
            let roll = rng.below(100);
            let ty = if roll < cfg.p_by_value && idx > 0 {
                let j = rng.below(idx);
                if ok_by_value(&p, j) {
                    let t = Ty::Item(j);
                    match rng.below(4) {
                        0 => t.arr(rng.range(0, 3)),
                        1 => t.arr(2).arr(rng.range(0, 2)),
                        _ => t,
                    }
                } else {
                    Ty::Prim("u8")
                }
            } else if roll < cfg.p_by_value + cfg.p_pointer && packed {
                // Pointers may point anywhere: forwards, backwards, at the type itself.
                let j = rng.below(cfg.items);
                let inner = if j < p.items.len() || j >= idx {
                    Ty::Name(format!("__ITEM_{j}"))
                } else {
                    Ty::Prim("void")
                };
                match rng.below(6) {
                    0 => inner.cptr(),
                    1 => inner.mptr(),
                    2 => inner.cptr().mptr(),
                    // arrays of pointers, pointers to arrays of pointers: still only references
                    3 => inner.mptr().arr(rng.range(1, 8)),
                    4 => inner.cptr().arr(2).arr(rng.range(1, 3)),
                    _ => inner.mptr().arr(rng.range(1, 4)).cptr(),
                }
            } else if packed {
                Ty::Prim(*rng.pick(&["u8", "u16", "u32", "u64", "bool", "f32"]))
            } else {
                Ty::Prim(*rng.pick(&["u8", "i8", "bool"]))
            };
            fields.push(crate::props::c09::field(&format!("x{k}"), ty));
        }
        // Functions.
        let mut sig_ty = |rng: &mut Rng| match rng.below(6) {
            0 => Ty::Prim(*rng.pick(&["u32", "i64", "bool", "f64"])),
            1 => Ty::Name(format!("__ITEM_{}", rng.below(cfg.items))),
            2 => Ty::Name(format!("__ITEM_{}", rng.below(cfg.items))).cptr(),
            3 => Ty::Prim("void").mptr(),
            // Arrays in signatures: plain, nested with different lengths, behind and around
            // pointers, of opaque bytes.
            4 => {
                let inner = match rng.below(3) {
                    0 => Ty::Prim(*rng.pick(&["u8", "u16", "f32"])),
                    1 => Ty::Name(format!("__ITEM_{}", rng.below(cfg.items))).cptr(),
                    _ => Ty::Unknown(rng.range(1, 5)),
                };
                let a = rng.range(1, 4);
                let b = rng.range(1, 7);
                match rng.below(4) {
                    0 => inner.arr(a),
                    1 => inner.arr(a).arr(b),
                    2 => inner.arr(a).cptr().arr(b),
                    _ => inner.arr(a).arr(b).mptr(),
                }
            }
            _ => Ty::Prim(*rng.pick(&["u8", "i32"])).arr(rng.range(1, 4)).arr(rng.range(1, 5)).cptr(),
        };
        let mut mk_func = |rng: &mut Rng, virt: bool| {
            fn_counter += 1;
            Func {
                vis: true,
                // Some names start with an underscore: such functions get no wrapper in the
                // output, but they are declared and their signature must resolve like any other.
                name: if rng.chance(1, 5) {
                    format!("_f{fn_counter}")
                } else {
                    format!("f{fn_counter}")
                },
                recv: if virt || rng.chance(1, 2) {
                    Some(rng.chance(1, 2))
                } else {
                    None
                },
                args: (0..rng.below(3))
                    .map(|k| (format!("a{k}"), sig_ty(rng)))
                    .collect(),
                ret: rng.chance(1, 2).then(|| sig_ty(rng)),
                address: (!virt).then_some(0x1000 + fn_counter * 16),
                index: None,
                cc: None,
                doc: None,
            }
        };
        let mut vftable = None;
        let mut vslots = first_base_vslots.clone();
        if first_base_vslots.is_none() && rng.below(100) < cfg.p_funcs && packed {
            let funcs: Vec<Func> = (0..rng.range(1, 3)).map(|_| mk_func(rng, true)).collect();
            vslots = Some(funcs.clone());
            vftable = Some(Vft { funcs, size: None });
        }
        let mut impl_funcs = vec![];
        if rng.below(100) < cfg.p_funcs {
            for _ in 0..rng.range(1, 2) {
                impl_funcs.push(mk_func(rng, false));
            }
        }
        p.items.push(Item {
            module: m,
            name: format!("T{idx}"),
            vis: true,
            doc: None,
            kind: ItemKind::Type {
                fields,
                vftable,
                size: None,
                align: (!packed).then_some(1),
                packed,
                flags: Flags::default(),
                singleton: None,
                impl_funcs,
                semicolon_form: false,
            },
            csize: 0,
            calign: 1,
            vslots,
        });
    }

    // Resolve the `__ITEM_j` placeholders now that every item exists.
    let n = p.items.len();
    fn fix(ty: &mut Ty, n: usize) {
        match ty {
            Ty::Name(s) => {
                if let Some(j) = s.strip_prefix("__ITEM_").and_then(|j| j.parse::<usize>().ok()) {
                    *ty = if j < n { Ty::Item(j) } else { Ty::Prim("void") };
                }
            }
            Ty::ConstPtr(t) | Ty::MutPtr(t) | Ty::Array(t, _) => fix(t, n),
            _ => {}
        }
    }
    // By-value use of a later/any item inside a signature is allowed: only the name must exist.
    for it in &mut p.items {
        if let ItemKind::Type {
            fields,
            vftable,
            impl_funcs,
            ..
        } = &mut it.kind
        {
            for f in fields {
                fix(&mut f.ty, n);
            }
            for f in vftable
                .iter_mut()
                .flat_map(|v| v.funcs.iter_mut())
                .chain(impl_funcs.iter_mut())
            {
                for (_, t) in &mut f.args {
                    fix(t, n);
                    if *t == Ty::Prim("void") {
                        *t = Ty::Prim("u8");
                    }
                }
                if let Some(t) = &mut f.ret {
                    fix(t, n);
                    if *t == Ty::Prim("void") {
                        *t = Ty::Prim("u8");
                    }
                }
            }
        }
        if let Some(vs) = &mut it.vslots {
            for f in vs {
                for (_, t) in &mut f.args {
                    fix(t, n);
                    if *t == Ty::Prim("void") {
                        *t = Ty::Prim("u8");
                    }
                }
                if let Some(t) = &mut f.ret {
                    fix(t, n);
                    if *t == Ty::Prim("void") {
                        *t = Ty::Prim("u8");
                    }
                }
            }
        }
    }

    // By-value cycles: make an earlier type embed a later one (or itself).
    let types: Vec<usize> = (0..n)
        .filter(|&j| matches!(p.items[j].kind, ItemKind::Type { packed: true, .. }))
        .collect();
    for c in 0..cfg.n_cycles {
        if types.is_empty() {
            break;
        }
        let a = *rng.pick(&types);
        let later: Vec<usize> = types.iter().copied().filter(|&j| j >= a).collect();
        let b = *rng.pick(&later);
        let ty = match rng.below(4) {
            0 => Ty::Item(b).arr(0),
            1 => Ty::Item(b).arr(rng.range(1, 2)),
            _ => Ty::Item(b),
        };
        // b >= a, and b reaches a only if there is a by-value path; force one when b != a.
        if let ItemKind::Type { fields, .. } = &mut p.items[a].kind {
            fields.push(crate::props::c09::field(&format!("cyc{c}"), ty));
        }
        if b != a {
            if let ItemKind::Type { fields, .. } = &mut p.items[b].kind {
                fields.push(crate::props::c09::field(&format!("back{c}"), Ty::Item(a)));
            }
        }
    }

    if mention_generated {
        let owners: Vec<usize> = (0..p.items.len())
            .filter(|i| matches!(&p.items[*i].kind, ItemKind::Type { vftable: Some(_), .. }))
            .collect();
        for _ in 0..rng.range(1, 3) {
            if owners.is_empty() {
                break;
            }
            let t = *rng.pick(&owners);
            let tm = p.items[t].module;
            let vname = crate::inventory::vftable_name(&p.items[t].name);
            let vty = Ty::Name(vname.clone());
            let m = rng.below(cfg.modules);
            if m != tm {
                let line = if rng.chance(1, 2) {
                    format!("use {}::{};", p.modules[tm].item_path(), vname)
                } else {
                    format!("use {};", p.modules[tm].item_path())
                };
                p.modules[m].extra_uses.push(line);
            }
            // Sometimes one of the owner's own virtual functions mentions the vftable type.
            if rng.chance(1, 4) {
                fn_counter += 1;
                let f = Func {
                    vis: true,
                    name: format!("f{fn_counter}"),
                    recv: Some(false),
                    args: vec![("own_table".into(), Ty::Name(vname.clone()).cptr())],
                    ret: rng.chance(1, 2).then(|| Ty::Name(vname.clone()).cptr()),
                    address: None,
                    index: None,
                    cc: None,
                    doc: None,
                };
                if let ItemKind::Type { vftable: Some(v), .. } = &mut p.items[t].kind {
                    v.funcs.push(f.clone());
                }
                if let Some(vs) = &mut p.items[t].vslots {
                    vs.push(f);
                }
            }
            let idx = p.items.len();
            // Sometimes the owner itself embeds the type that points at its vftable type: as a
            // plain field or as a base. Still no by-value cycle (the mention is a pointer).
            let embed_in_owner = rng.chance(1, 3);
            if embed_in_owner {
                let as_base = rng.chance(1, 2);
                let front = rng.chance(1, 2);
                if let ItemKind::Type { fields, .. } = &mut p.items[t].kind {
                    let f = Field {
                        base: as_base,
                        ..crate::props::c09::field(&format!("user{idx}"), Ty::Item(idx))
                    };
                    if as_base && front {
                        fields.insert(0, f);
                    } else if as_base {
                        // bases stay in front of plain fields
                        let at = fields.iter().take_while(|f| f.base).count();
                        fields.insert(at, f);
                    } else {
                        fields.push(f);
                    }
                }
            }
            // An enum over the generated type (accepted like an enum over any other type).
            if !embed_in_owner && rng.chance(1, 6) {
                p.items.push(Item {
                    module: m,
                    name: format!("E{idx}"),
                    vis: true,
                    doc: None,
                    kind: ItemKind::Enum {
                        base: vty,
                        variants: vec![("Only".into(), None, false)],
                        flags: Flags::default(),
                        singleton: None,
                    },
                    csize: 0,
                    calign: 1,
                    vslots: None,
                });
                continue;
            }
            let (fields, impl_funcs) = match if embed_in_owner { 0 } else { rng.below(4) } {
                0 => (vec![crate::props::c09::field("table", vty.cptr())], vec![]),
                1 => (
                    vec![Field {
                        base: rng.chance(1, 2),
                        ..crate::props::c09::field("table", vty)
                    }],
                    vec![],
                ),
                _ => {
                    fn_counter += 1;
                    (
                        vec![],
                        vec![Func {
                            vis: true,
                            name: format!("f{fn_counter}"),
                            recv: Some(false),
                            // By pointer or by value, as parameter and as return type.
                            args: vec![(
                                "table".into(),
                                if rng.chance(1, 2) { vty.clone().cptr() } else { vty.clone() },
                            )],
                            ret: rng.chance(1, 2).then(|| {
                                if rng.chance(1, 2) { vty.clone().mptr() } else { vty.clone() }
                            }),
                            address: Some(0x8000 + fn_counter * 16),
                            index: None,
                            cc: None,
                            doc: None,
                        }],
                    )
                }
            };
            p.items.push(Item {
                module: m,
                name: format!("T{idx}"),
                vis: true,
                doc: None,
                kind: ItemKind::Type {
                    fields,
                    vftable: None,
                    size: None,
                    align: None,
                    packed: true,
                    flags: Flags::default(),
                    singleton: None,
                    impl_funcs,
                    semicolon_form: false,
                },
                csize: 0,
                calign: 1,
                vslots: None,
            });
        }
    }

    // A by-value cycle whose members all *declare* their layout (size plus packed/align): the
    // numbers are mutually consistent, the structure is still impossible.
    if !mention_generated && rng.chance(1, 8) {
        let len = rng.range(1, 3);
        let size = ptr * rng.range(1, 4);
        let first = p.items.len();
        for k in 0..len {
            let next = first + (k + 1) % len;
            let idx = p.items.len();
            let m = rng.below(cfg.modules);
            let ty = match rng.below(3) {
                0 => Ty::Item(next).arr(1),
                _ => Ty::Item(next),
            };
            let use_align = rng.chance(1, 2);
            p.items.push(Item {
                module: m,
                name: format!("T{idx}"),
                vis: true,
                doc: None,
                kind: ItemKind::Type {
                    fields: vec![crate::props::c09::field("inner", ty)],
                    vftable: None,
                    size: Some(size),
                    align: use_align.then_some(ptr),
                    packed: !use_align,
                    flags: Flags::default(),
                    singleton: None,
                    impl_funcs: vec![],
                    semicolon_form: false,
                },
                csize: size,
                calign: 1,
                vslots: None,
            });
        }
    }

    // Extern values.
    if cfg.extern_values {
        for m in 0..cfg.modules {
            for k in 0..rng.below(2) {
                let ty = if n > 0 && rng.chance(2, 3) {
                    let t = Ty::Item(rng.below(n));
                    match rng.below(4) {
                        0 | 1 => t.mptr(),
                        2 => t.cptr().arr(rng.range(1, 3)).arr(rng.range(1, 5)),
                        _ => t,
                    }
                } else if rng.chance(1, 3) {
                    Ty::Prim("u16").arr(rng.range(1, 3)).arr(rng.range(1, 6))
                } else {
                    Ty::Prim("u32").mptr()
                };
                p.modules[m].extern_values.push(ExternValue {
                    vis: true,
                    name: format!("g{m}_{k}"),
                    ty,
                    address: Some(0x9000 + 16 * (m * 4 + k)),
                });
            }
        }
    }

    // Undefined names, in the positions enabled for this run.
    for u in 0..cfg.n_undefined {
        let name = format!("Nope{}", rng.below(50));
        let pos = *rng.pick(&cfg.undefined_positions);
        let type_items: Vec<usize> = (0..n)
            .filter(|&j| matches!(p.items[j].kind, ItemKind::Type { .. }))
            .collect();
        let packed_items: Vec<usize> = (0..n)
            .filter(|&j| matches!(p.items[j].kind, ItemKind::Type { packed: true, .. }))
            .collect();
        let enum_items: Vec<usize> = (0..n)
            .filter(|&j| matches!(p.items[j].kind, ItemKind::Enum { .. }))
            .collect();
        match pos {
            "field" if !type_items.is_empty() => {
                let j = *rng.pick(&type_items);
                let ty = match rng.below(3) {
                    0 => Ty::Name(name).arr(rng.range(0, 2)),
                    _ => Ty::Name(name),
                };
                if let ItemKind::Type { fields, .. } = &mut p.items[j].kind {
                    let at = rng.below(fields.len() + 1);
                    fields.insert(at, crate::props::c09::field(&format!("u{u}"), ty));
                    // Base fields must stay in front for the vftable bookkeeping of the
                    // generator to remain true; a plain field in front of them is harmless
                    // for resolution, but keep the shape simple.
                    fields.sort_by_key(|f| !f.base);
                }
            }
            "pointer_field" if !packed_items.is_empty() => {
                let j = *rng.pick(&packed_items);
                if let ItemKind::Type { fields, .. } = &mut p.items[j].kind {
                    fields.push(crate::props::c09::field(
                        &format!("u{u}"),
                        Ty::Name(name).cptr(),
                    ));
                }
            }
            "enum_base" if !enum_items.is_empty() => {
                let j = *rng.pick(&enum_items);
                if let ItemKind::Enum { base, .. } = &mut p.items[j].kind {
                    *base = Ty::Name(name);
                }
            }
            "parameter" | "return" if !type_items.is_empty() => {
                let j = *rng.pick(&type_items);
                let ty = if rng.chance(1, 2) {
                    Ty::Name(name).cptr()
                } else {
                    Ty::Name(name)
                };
                fn_counter += 1;
                let mut f = Func {
                    vis: true,
                    name: if rng.chance(1, 4) {
                        format!("_f{fn_counter}")
                    } else {
                        format!("f{fn_counter}")
                    },
                    recv: Some(false),
                    args: vec![],
                    ret: None,
                    address: Some(0x4000 + fn_counter * 16),
                    index: None,
                    cc: None,
                    doc: None,
                };
                if pos == "parameter" {
                    f.args.push(("bad".into(), ty));
                } else {
                    f.ret = Some(ty);
                }
                let own_vft = matches!(
                    &p.items[j].kind,
                    ItemKind::Type { vftable: Some(_), .. }
                );
                // A type that inherits its vftable from a base cannot grow it here (derived
                // types in this generator never re-declare); use the impl block then.
                if own_vft && rng.chance(1, 2) {
                    f.address = None;
                    let mut slot = f.clone();
                    if let ItemKind::Type {
                        vftable: Some(v), ..
                    } = &mut p.items[j].kind
                    {
                        v.funcs.push(f);
                    }
                    // Derived types copy nothing in graph worlds, but `vslots` is what the
                    // inheritance bookkeeping reads: keep it in sync.
                    slot.address = None;
                    if let Some(vs) = &mut p.items[j].vslots {
                        vs.push(slot);
                    }
                    // Anything that inherited j's table before this edit now mismatches only
                    // if it re-declares; it does not.
                } else if let ItemKind::Type { impl_funcs, .. } = &mut p.items[j].kind {
                    impl_funcs.push(f);
                }
            }
            "extern_value" => {
                let m = rng.below(cfg.modules);
                let k = p.modules[m].extern_values.len();
                p.modules[m].extern_values.push(ExternValue {
                    vis: true,
                    name: format!("gu{m}_{k}"),
                    ty: if rng.chance(1, 2) {
                        Ty::Name(name).mptr()
                    } else {
                        Ty::Name(name)
                    },
                    address: Some(0xA000 + 16 * u),
                });
            }
            _ => {}
        }
    }

    // An `impl` block for something that is not a type of its module: an enum, a type of
    // another module (imported), a generated vftable type, a name declared nowhere. Its
    // functions are declared like any other; a build that accepts the module has dropped them.
    if !mention_generated && rng.chance(1, 12) && !p.items.is_empty() {
        let m = rng.below(cfg.modules);
        let enums_here: Vec<String> = p
            .items
            .iter()
            .filter(|it| it.module == m && matches!(it.kind, ItemKind::Enum { .. }))
            .map(|it| it.name.clone())
            .collect();
        let foreign: Vec<usize> = (0..p.items.len()).filter(|i| p.items[*i].module != m).collect();
        let owners_here: Vec<String> = p
            .items
            .iter()
            .filter(|it| it.module == m && matches!(&it.kind, ItemKind::Type { vftable: Some(_), .. }))
            .map(|it| format!("{}Vftable", it.name))
            .collect();
        let target = match rng.below(4) {
            0 if !enums_here.is_empty() => rng.pick(&enums_here).clone(),
            1 if !foreign.is_empty() => {
                let j = *rng.pick(&foreign);
                let line = format!("use {}::{};", p.modules[p.items[j].module].item_path(), p.items[j].name);
                p.modules[m].extra_uses.push(line);
                p.items[j].name.clone()
            }
            2 if !owners_here.is_empty() => rng.pick(&owners_here).clone(),
            _ => format!("Nowhere{}", rng.below(10)),
        };
        p.modules[m].trailer.push_str(&format!(
            "impl {target} {{\n    #[address(0x{:x})]\n    pub fn orphan_fn(&self, a: u32) -> u32;\n}}\n",
            0xB000 + 16 * m
        ));
    }

    // Declaration order: anything goes.
    for m in 0..cfg.modules {
        let mut order: Vec<Decl> = vec![];
        for (i, it) in p.items.iter().enumerate() {
            if it.module != m {
                continue;
            }
            order.push(Decl::Item(i));
            if let ItemKind::Type { impl_funcs, .. } = &it.kind {
                if !impl_funcs.is_empty() {
                    order.push(Decl::Impl(i));
                }
            }
        }
        for k in 0..p.modules[m].extern_values.len() {
            order.push(Decl::ExternValue(k));
        }
        rng.shuffle(&mut order);
        p.modules[m].order = order;
    }
    p
}

/// The same dependency graph twice: once with a name of its own for every item, once with
/// names shared between modules (an item called like the item it imports and embeds, like an
/// item of a module it does not even import, ...). Which names exist and what embeds what is
/// the same in both; so is, then, whether the build is accepted.
fn homonymise(rng: &mut Rng, p: &Project) -> Option<(Project, Vec<(String, String)>)> {
    let mut h = p.clone();
    fn has_raw_name(t: &Ty) -> bool {
        match t {
            Ty::Name(_) => true,
            Ty::ConstPtr(t) | Ty::MutPtr(t) | Ty::Array(t, _) => has_raw_name(t),
            _ => false,
        }
    }
    // Generated `<T>Vftable` names are mentioned as raw text: their owners keep their names.
    let mut raw = p.modules.iter().any(|m| !m.extra_uses.is_empty());
    for it in &p.items {
        if let ItemKind::Type { fields, vftable, impl_funcs, .. } = &it.kind {
            raw |= fields.iter().any(|f| has_raw_name(&f.ty));
            for f in vftable.iter().flat_map(|v| v.funcs.iter()).chain(impl_funcs.iter()) {
                raw |= f.args.iter().any(|(_, t)| has_raw_name(t));
                raw |= f.ret.as_ref().is_some_and(has_raw_name);
            }
        }
    }
    let n = h.items.len();
    let mut renamed = 0;
    for i in 0..n {
        if !rng.chance(2, 3) {
            continue;
        }
        if raw && matches!(&h.items[i].kind, ItemKind::Type { vftable: Some(_), .. }) {
            continue;
        }
        let mut mentioned = BTreeSet::new();
        match &h.items[i].kind {
            ItemKind::Type { fields, .. } => {
                for f in fields {
                    f.ty.items(&mut mentioned);
                }
            }
            ItemKind::Enum { base, .. } => base.items(&mut mentioned),
            _ => {}
        }
        let foreign: Vec<usize> = mentioned
            .into_iter()
            .filter(|j| h.items[*j].module != h.items[i].module)
            .collect();
        let others: Vec<usize> = (0..n).filter(|j| h.items[*j].module != h.items[i].module).collect();
        let donor = if !foreign.is_empty() && rng.chance(2, 3) {
            *rng.pick(&foreign)
        } else if !others.is_empty() {
            *rng.pick(&others)
        } else {
            continue;
        };
        let name = p.items[donor].name.clone();
        let m = h.items[i].module;
        let taken = h.items.iter().enumerate().any(|(j, it)| {
            j != i
                && it.module == m
                && (it.name == name
                    || format!("{}Vftable", it.name) == name
                    || it.name == format!("{name}Vftable"))
        });
        if taken {
            continue;
        }
        h.items[i].name = name;
        renamed += 1;
    }
    if renamed == 0 {
        return None;
    }
    let mut map = vec![];
    for i in 0..n {
        map.push((p.full_item_path(i), h.full_item_path(i)));
        if matches!(&p.items[i].kind, ItemKind::Type { vftable: Some(_), .. }) {
            map.push((
                format!("{}Vftable", p.full_item_path(i)),
                format!("{}Vftable", h.full_item_path(i)),
            ));
        }
    }
    Some((h, map))
}

fn generate_homonyms(mut rng: Rng, seed: u64, tier: Tier, ptr: usize) -> Option<Case> {
    let mut p = gen_graph_project(&mut rng, tier, ptr);
    // Names are imported one by one (`use m::T;`) in most modules: that is where a name shared
    // with the importing module's own item means something.
    for m in p.modules.iter_mut() {
        m.type_imports = rng.chance(3, 4);
    }
    let (h, map) = homonymise(&mut rng, &p)?;
    let worlds = vec![
        World::from_files(ptr, h.files()),
        World::from_files(ptr, p.files()),
    ];
    let mut builds = vec![];
    for w in 0..2 {
        for i in 0..3 {
            builds.push(BuildSpec {
                world: w,
                entry: any_entry(&mut rng),
                sched: SchedSpec {
                    unresolved: match i {
                        0 => OrderSpec::Canonical,
                        1 => OrderSpec::Reverse,
                        _ => OrderSpec::Dynamic(rng.next_u64()),
                    },
                    module_write: any_order(&mut rng),
                    definitions: any_order(&mut rng),
                },
                repeat: 1,
            });
        }
    }
    let mut params = Params::default();
    for (u, hh) in map {
        params.notes.push(format!("rename:{u}={hh}"));
    }
    Some(Case {
        property: "C10".into(),
        family: "homonyms".into(),
        seed,
        worlds,
        builds,
        params,
    })
}

/// Writes every module's declaration order anew: by item index ascending (what an item embeds
/// by value is declared before it, mostly), descending, or shuffled.
fn redeclare(rng: &mut Rng, p: &mut Project, mode: usize) {
    for m in 0..p.modules.len() {
        let mut order: Vec<Decl> = vec![];
        let mut idx: Vec<usize> = (0..p.items.len()).filter(|i| p.items[*i].module == m).collect();
        if mode == 1 {
            idx.reverse();
        }
        for i in idx {
            order.push(Decl::Item(i));
            if let ItemKind::Type { impl_funcs, .. } = &p.items[i].kind {
                if !impl_funcs.is_empty() {
                    order.push(Decl::Impl(i));
                }
            }
        }
        for k in 0..p.modules[m].extern_values.len() {
            order.push(Decl::ExternValue(k));
        }
        if mode >= 2 {
            rng.shuffle(&mut order);
        }
        p.modules[m].order = order;
    }
}

/// "Definitions may appear in any order and in any module": the same items declared in
/// another order, and spread over the modules differently, are the same program as far as
/// resolution goes. All arrangements are accepted or all are rejected.
fn generate_rearranged(mut rng: Rng, seed: u64, tier: Tier, ptr: usize) -> Case {
    let p = gen_graph_project(&mut rng, tier, ptr);
    let mut worlds = vec![World::from_files(ptr, p.files())];
    let mut notes = vec![];
    for mode in 0..2 {
        let mut q = p.clone();
        redeclare(&mut rng, &mut q, mode);
        worlds.push(World::from_files(ptr, q.files()));
    }
    notes.push("arrangement:declaration_order".to_string());
    // Import style: every foreign name imported wholesale (`use m;`), or one by one
    // (`use m::T;`), generated `<T>Vftable` names included.
    if p.modules.len() > 1 {
        for by_name in [false, true] {
            let mut q = p.clone();
            for m in q.modules.iter_mut() {
                m.type_imports = by_name;
                if !by_name {
                    for line in m.extra_uses.iter_mut() {
                        if let Some((module, _item)) = line
                            .trim_end_matches(';')
                            .rsplit_once("::")
                            .filter(|(_, item)| item.chars().next().is_some_and(|c| c.is_uppercase()))
                        {
                            *line = format!("{module};");
                        }
                    }
                }
            }
            worlds.push(World::from_files(ptr, q.files()));
        }
        notes.push("arrangement:import_style".to_string());
    }
    // Bulk: the same items, every function with dozens of pointer parameters more, items and
    // modules under hundreds of doc lines whose brackets do not match. Nothing about what
    // exists or what embeds what has changed.
    {
        let mut q = p.clone();
        let n = q.items.len();
        let open = *rng.pick(&["(", "[", "{", "((", "<"]);
        let doc: String = (0..rng.range(260, 400))
            .map(|i| format!(" item {i}{open} see above"))
            .collect::<Vec<_>>()
            .join("\n");
        for i in 0..n {
            if rng.chance(1, 3) {
                q.items[i].doc = Some(doc.clone());
            }
            let extra: Vec<(String, Ty)> = (0..rng.range(20, 48))
                .map(|k| {
                    let t = Ty::Item(rng.below(n));
                    (format!("extra{k}"), if rng.chance(1, 2) { t.cptr() } else { t.mptr() })
                })
                .collect();
            if let ItemKind::Type { vftable, impl_funcs, .. } = &mut q.items[i].kind {
                for f in vftable.iter_mut().flat_map(|v| v.funcs.iter_mut()).chain(impl_funcs.iter_mut()) {
                    f.args.extend(extra.iter().cloned());
                }
            }
        }
        if let Some(m) = q.modules.first_mut() {
            m.doc = Some(doc);
        }
        worlds.push(World::from_files(ptr, q.files()));
        notes.push("arrangement:bulk".to_string());
    }
    let mut q = p.clone();
    let nm = q.modules.len();
    if nm > 1 {
        for it in q.items.iter_mut() {
            if rng.chance(1, 2) {
                it.module = rng.below(nm);
            }
        }
        // Modules import one another's items by name or wholesale, drawn anew.
        for m in q.modules.iter_mut() {
            m.type_imports = rng.chance(1, 2);
        }
        redeclare(&mut rng, &mut q, 2);
        worlds.push(World::from_files(ptr, q.files()));
        notes.push("arrangement:module_placement".to_string());
    }
    let mut builds = vec![];
    for w in 0..worlds.len() {
        for i in 0..2 {
            builds.push(BuildSpec {
                world: w,
                entry: any_entry(&mut rng),
                sched: SchedSpec {
                    unresolved: if i == 0 {
                        OrderSpec::Canonical
                    } else {
                        OrderSpec::Dynamic(rng.next_u64())
                    },
                    module_write: any_order(&mut rng),
                    definitions: any_order(&mut rng),
                },
                repeat: 1,
            });
        }
    }
    Case {
        property: "C10".into(),
        family: "rearranged".into(),
        seed,
        worlds,
        builds,
        params: Params {
            notes,
            ..Default::default()
        },
    }
}

/// Worlds of a `rearranged` case: when the reference model gives the same answer for all of
/// them (it does unless the arrangement changed what a name means), so does the build.
fn same_items_same_verdict(
    case: &Case,
    results: &[Vec<RunResult>],
    report: &mut crate::case::CaseReport,
) -> Option<Verdict> {
    let mut expect: Option<(bool, BTreeSet<String>)> = None;
    // Worlds whose arrangement changed what a name means (the model answers differently for
    // them) stay out of the comparison.
    let mut comparable: BTreeSet<usize> = BTreeSet::new();
    for (wi, w) in case.worlds.iter().enumerate() {
        let parsed = match parse_world(w) {
            Ok(p) => p,
            // A presentation of the same project that pyxis's parser does not even read,
            // while it reads the first one: compared like the others (the build will fail).
            Err(_) if wi > 0 && expect.as_ref().is_some_and(|e| !e.0) => {
                // ... provided the harness's own token-level count finds the same
                // declarations in it (a world that lost them is another program).
                let mut declared: BTreeSet<String> = BTreeSet::new();
                let mut readable = true;
                for (_, blob) in w.module_files() {
                    match crate::inventory::census(&blob.lossy()) {
                        Some(c) => declared.extend(
                            c.types.into_iter().chain(c.enums).chain(c.extern_types),
                        ),
                        None => readable = false,
                    }
                }
                if readable && Some(&declared) == expect.as_ref().map(|e| &e.1) {
                    comparable.insert(wi);
                }
                continue;
            }
            Err(_) => continue,
        };
        let m = Model::build(&parsed);
        if !m.duplicates.is_empty() {
            continue;
        }
        // Same short names declared, same verdict of the model, same unresolvable short names.
        let short = |s: &String| s.rsplit("::").next().unwrap_or(s).to_string();
        let sig = (
            m.expects_error(),
            m.decls.keys().map(short).chain(m.unresolvable.iter().map(|u| format!("!{}", short(u)))).collect::<BTreeSet<String>>(),
        );
        match &expect {
            None if wi == 0 => {
                expect = Some(sig);
                comparable.insert(wi);
            }
            None => return None,
            Some(e) if *e != sig => {}
            Some(_) => {
                comparable.insert(wi);
            }
        }
    }
    if comparable.len() < 2 {
        return None;
    }
    report.count("oracle:same_items_rearranged", 1);
    report.count("oracle:arrangements_compared", comparable.len() as u64);
    let mut seen: Option<(bool, usize, String)> = None;
    for (bi, b) in case.builds.iter().enumerate() {
        if !comparable.contains(&b.world) {
            continue;
        }
        for r in &results[bi] {
            let ok = match &r.outcome {
                Outcome::Ok => true,
                Outcome::Err(_) => false,
                _ => return None,
            };
            match &seen {
                None => seen = Some((ok, b.world, r.outcome.brief())),
                Some((s, w0, brief)) if *s != ok => {
                    if *w0 == b.world {
                        return None; // order dependence within one world: C09's business
                    }
                    return Some(Verdict::violation(
                        "verdict-depends-on-arrangement",
                        format!(
                            "the same items are {} as world {w0} and {} as world {} (declaration order / module placement differ): {} / {}",
                            if *s { "accepted" } else { "rejected" },
                            if ok { "accepted" } else { "rejected" },
                            b.world,
                            brief,
                            r.outcome.brief()
                        ),
                    ));
                }
                Some(_) => {}
            }
        }
    }
    None
}

pub fn generate(seed: u64, tier: Tier) -> Case {
    let mut rng = Rng::new(seed);
    let ptr = if rng.chance(1, 2) { 4 } else { 8 };
    if rng.chance(1, 8) {
        return generate_rearranged(Rng::new(rng.next_u64()), seed, tier, ptr);
    }
    if rng.chance(1, 6) {
        if let Some(c) = generate_homonyms(Rng::new(rng.next_u64()), seed, tier, ptr) {
            return c;
        }
    }
    let p = gen_graph_project(&mut rng, tier, ptr);
    let world = World::from_files(ptr, p.files());
    let k = match tier {
        Tier::Quick => 4,
        Tier::Thorough => 6,
    };
    // Topological, reverse topological (maximum number of passes), then the rest.
    let mut structural = structural_orders(&mut rng, &p);
    structural.truncate(2);
    let mut builds = vec![];
    for i in 0..k {
        let unresolved = match i {
            0 | 1 => structural[i].clone(),
            2 => OrderSpec::Dynamic(rng.next_u64()),
            _ => OrderSpec::Hashed(rng.next_u64()),
        };
        builds.push(BuildSpec {
            world: 0,
            entry: any_entry(&mut rng),
            sched: SchedSpec {
                unresolved,
                module_write: any_order(&mut rng),
                definitions: any_order(&mut rng),
            },
            repeat: 1,
        });
    }
    let mut worlds = vec![world];
    let mut params = Params::default();
    if rng.chance(1, 8) {
        if let Some((from, to)) = crate::mutate::coincide(&mut rng, &mut worlds, true) {
            params.notes.push(format!("coincidence:{from}->{to}"));
        }
    }
    Case {
        property: "C10".into(),
        family: "graph".into(),
        seed,
        worlds,
        builds,
        params,
    }
}

fn failed_types(err: &str) -> Option<BTreeSet<String>> {
    let start = err.find("failed on types: [")? + "failed on types: [".len();
    let end = err[start..].find("] (resolved types")? + start;
    let inner = &err[start..end];
    Some(
        inner
            .split(", ")
            .map(|s| s.trim().trim_matches('"').to_string())
            .filter(|s| !s.is_empty())
            .collect(),
    )
}

/// On an accepted build: every declared item is there, and every declared parameter and return
/// type appears in the emitted signature.
pub fn completeness(
    world: &ParsedWorld,
    model: &Model,
    r: &RunResult,
) -> Result<(), (String, String)> {
    let files = r.files();
    for (_rel, mpath, m) in &world.modules {
        if mpath.is_empty() {
            continue;
        }
        let out_rel = format!(
            "{}.rs",
            mpath.iter().map(|s| s.as_str()).collect::<Vec<_>>().join("/")
        );
        let Some(bytes) = files.get(out_rel.as_str()) else {
            return Err((
                "module-file-missing".into(),
                format!("no output file {out_rel}"),
            ));
        };
        let text = String::from_utf8_lossy(bytes);
        let inv = inventory(&text).map_err(|e| {
            (
                "output-unparsable".to_string(),
                format!("{out_rel}: {e}"),
            )
        })?;
        for d in &m.definitions {
            let name = d.name.as_str();
            let present = match &d.inner {
                pyxis::grammar::ItemDefinitionInner::Type(_) => inv.structs.get(name),
                pyxis::grammar::ItemDefinitionInner::Enum(_) => inv.enums.get(name),
            };
            if present.copied().unwrap_or(0) == 0 {
                return Err((
                    "item-left-out".into(),
                    format!("{out_rel}: declared item `{name}` is not in the output"),
                ));
            }
            if let Some(rs) = &r.resolved {
                let path = mpath.join(name.into());
                let ok = rs
                    .type_registry()
                    .get(&path)
                    .map(|i| i.is_resolved())
                    .unwrap_or(false);
                if !ok {
                    return Err((
                        "item-left-unresolved".into(),
                        format!("`{path}` is not resolved in the resolved state"),
                    ));
                }
            }
        }
        // Signatures: vftable block functions and impl block functions of each declared type.
        let mut declared: Vec<(String, &pyxis::grammar::Function)> = vec![];
        for d in &m.definitions {
            if let pyxis::grammar::ItemDefinitionInner::Type(t) = &d.inner {
                for s in &t.statements {
                    if let pyxis::grammar::TypeField::Vftable(fs) = &s.field {
                        for f in fs {
                            declared.push((d.name.as_str().to_string(), f));
                        }
                    }
                }
            }
        }
        for block in &m.impls {
            let full = mpath.join(block.name.as_str().into()).to_string();
            if !model.decls.contains_key(&full) {
                continue;
            }
            if !matches!(
                model.decls[&full].kind,
                DeclKind::Type { .. }
            ) {
                continue;
            }
            for f in &block.functions {
                declared.push((block.name.as_str().to_string(), f));
            }
        }
        for (ty, f) in declared {
            if f.name.as_str().starts_with('_') {
                // Internal functions are not emitted as wrappers, but they are part of the
                // resolved type: checked there when the entry point hands the state back.
                if let Some(rs) = &r.resolved {
                    let path = mpath.join(ty.as_str().into());
                    let found = rs
                        .type_registry()
                        .get(&path)
                        .and_then(|i| i.resolved())
                        .and_then(|res| res.inner.as_type())
                        .map(|td| {
                            td.associated_functions
                                .iter()
                                .chain(td.vftable.iter().flat_map(|v| v.functions.iter()))
                                .any(|g| {
                                    g.name == f.name.as_str()
                                        && g.arguments.iter().filter(|a| !a.is_self()).count()
                                            == f.arguments
                                                .iter()
                                                .filter(|a| {
                                                    matches!(a, pyxis::grammar::Argument::Named(..))
                                                })
                                                .count()
                                        && g.return_type.is_some() == f.return_type.is_some()
                                })
                        })
                        .unwrap_or(false);
                    if !found {
                        return Err((
                            "function-left-out".into(),
                            format!(
                                "`{path}::{}` is declared but not part of the resolved type (or lost a parameter / its return type)",
                                f.name
                            ),
                        ));
                    }
                }
                continue;
            }
            // (Several functions of one name can be declared; each needs a wrapper of its own
            // signature.)
            let same_name: Vec<&crate::inventory::Method> = inv
                .methods
                .get(&ty)
                .map(|ms| ms.iter().filter(|m| m.name == f.name.as_str()).collect())
                .unwrap_or_default();
            if same_name.is_empty() {
                return Err((
                    "function-left-out".into(),
                    format!("{out_rel}: `{ty}::{}` has no emitted wrapper", f.name),
                ));
            }
            let want_params: Vec<String> = f
                .arguments
                .iter()
                .filter_map(|a| match a {
                    pyxis::grammar::Argument::Named(_, t) => Some(normalise_grammar_type(t)),
                    _ => None,
                })
                .collect();
            let want_ret = f.return_type.as_ref().map(normalise_grammar_type);
            if same_name
                .iter()
                .any(|m| m.params == want_params && m.ret == want_ret)
            {
                continue;
            }
            let method = same_name[0];
            if method.params != want_params {
                return Err((
                    "parameter-dropped-or-changed".into(),
                    format!(
                        "{out_rel}: `{ty}::{}` declared ({}) emitted ({})",
                        f.name,
                        want_params.join(", "),
                        method.params.join(", ")
                    ),
                ));
            }
            if method.ret != want_ret {
                return Err((
                    "return-type-dropped-or-changed".into(),
                    format!(
                        "{out_rel}: `{ty}::{}` declared -> {:?} emitted -> {:?}",
                        f.name, want_ret, method.ret
                    ),
                ));
            }
        }
        for ev in &m.extern_values {
            let getter = format!("get_{}", ev.name.as_str());
            if inv.fns.get(&getter).copied().unwrap_or(0) == 0 {
                return Err((
                    "extern-value-left-out".into(),
                    format!("{out_rel}: no accessor `{getter}`"),
                ));
            }
            // The accessor hands out a reference to the declared type.
            let want = format!("&mut {}", normalise_grammar_type(&ev.type_));
            if let Some(Some(got)) = inv.fn_rets.get(&getter) {
                if *got != want {
                    return Err((
                        "extern-value-type-changed".into(),
                        format!("{out_rel}: `{getter}` declared {want} emitted {got}"),
                    ));
                }
            }
        }
        // Every enum is represented as its declared underlying type and has all its cases.
        for d in &m.definitions {
            let pyxis::grammar::ItemDefinitionInner::Enum(e) = &d.inner else {
                continue;
            };
            let want = normalise_grammar_type(&e.type_);
            if let Some(got) = inv.enum_reprs.get(d.name.as_str()) {
                if *got != want {
                    return Err((
                        "enum-base-changed".into(),
                        format!("{out_rel}: enum `{}` declared over {want}, emitted repr({got})", d.name),
                    ));
                }
            }
            if let Some(got) = inv.enum_variants.get(d.name.as_str()) {
                let declared: Vec<String> =
                    e.statements.iter().map(|s| s.name.as_str().to_string()).collect();
                if *got != declared {
                    return Err((
                        "enum-cases-changed".into(),
                        format!("{out_rel}: enum `{}` declared {declared:?}, emitted {got:?}", d.name),
                    ));
                }
            }
        }
        // Every declared virtual function has its slot in the generated vftable struct, with the
        // owner as receiver and the declared parameter and return types.
        for d in &m.definitions {
            let pyxis::grammar::ItemDefinitionInner::Type(t) = &d.inner else {
                continue;
            };
            for s in &t.statements {
                let pyxis::grammar::TypeField::Vftable(fs) = &s.field else {
                    continue;
                };
                let table = crate::inventory::vftable_name(d.name.as_str());
                let Some(slots) = inv.struct_fields.get(&table) else {
                    return Err((
                        "item-left-out".into(),
                        format!("{out_rel}: no `{table}` struct for the vftable block of `{}`", d.name),
                    ));
                };
                for f in fs {
                    let mut args: Vec<String> = vec![];
                    for a in &f.arguments {
                        match a {
                            pyxis::grammar::Argument::ConstSelf => {
                                args.push(format!("*const {}", d.name.as_str()))
                            }
                            pyxis::grammar::Argument::MutSelf => {
                                args.push(format!("*mut {}", d.name.as_str()))
                            }
                            pyxis::grammar::Argument::Named(_, t) => {
                                args.push(normalise_grammar_type(t))
                            }
                        }
                    }
                    let want = format!(
                        "fn({}){}",
                        args.join(", "),
                        f.return_type
                            .as_ref()
                            .map(|t| format!(" -> {}", normalise_grammar_type(t)))
                            .unwrap_or_default()
                    );
                    if slots.iter().any(|(n, got)| n == f.name.as_str() && *got == want) {
                        continue;
                    }
                    match slots.iter().find(|(n, _)| n == f.name.as_str()) {
                        Some((_, got)) if *got == want => {}
                        Some((_, got)) => {
                            return Err((
                                "vftable-slot-type-changed".into(),
                                format!("{out_rel}: `{table}::{}` declared {want} emitted {got}", f.name),
                            ))
                        }
                        None => {
                            return Err((
                                "vftable-slot-left-out".into(),
                                format!("{out_rel}: `{table}` has no slot `{}`", f.name),
                            ))
                        }
                    }
                }
            }
        }
        // Every named field of every declared type is there with the declared type.
        for d in &m.definitions {
            let pyxis::grammar::ItemDefinitionInner::Type(t) = &d.inner else {
                continue;
            };
            let Some(emitted) = inv.struct_fields.get(d.name.as_str()) else {
                continue;
            };
            for s in &t.statements {
                let pyxis::grammar::TypeField::Field(_, name, ty) = &s.field else {
                    continue;
                };
                if name.as_str() == "_" {
                    continue;
                }
                // Zero-sized arrays occupy no region and are not emitted.
                if matches!(ty, pyxis::grammar::Type::Array(_, 0) | pyxis::grammar::Type::Unknown(0)) {
                    continue;
                }
                let want = normalise_grammar_type(ty);
                if emitted.iter().any(|(n, got)| n == name.as_str() && *got == want) {
                    continue;
                }
                // An array field may legitimately be absent (zero total size); with several
                // fields of one name there is then nothing to compare it with. A single field
                // of that name on both sides is the declared one: its type must be the
                // declared type, nested lengths in the declared order.
                if matches!(ty, pyxis::grammar::Type::Array(..)) {
                    let declared_once = t
                        .statements
                        .iter()
                        .filter(|s2| matches!(&s2.field, pyxis::grammar::TypeField::Field(_, n2, _) if n2.as_str() == name.as_str()))
                        .count()
                        == 1;
                    let emitted_same: Vec<&(String, String)> =
                        emitted.iter().filter(|(n, _)| n == name.as_str()).collect();
                    if declared_once && emitted_same.len() == 1 {
                        return Err((
                            "field-type-changed".into(),
                            format!(
                                "{out_rel}: `{}::{}` declared {want} emitted {}",
                                d.name, name, emitted_same[0].1
                            ),
                        ));
                    }
                    continue;
                }
                match emitted.iter().find(|(n, _)| n == name.as_str()) {
                    Some((_, got)) if *got == want => {}
                    Some((_, got)) => {
                        return Err((
                            "field-type-changed".into(),
                            format!(
                                "{out_rel}: `{}::{}` declared {want} emitted {got}",
                                d.name, name
                            ),
                        ))
                    }
                    None => {
                        // pyxis deliberately emits nothing for an array field whose total size
                        // is zero ([T; 0], but also [Empty; 3]); sizes are not this oracle's
                        // business, so only a missing non-array field is reported.
                        let is_array = matches!(ty, pyxis::grammar::Type::Array(..));
                        if !is_array {
                            return Err((
                                "field-left-out".into(),
                                format!("{out_rel}: `{}::{}` is not in the emitted struct", d.name, name),
                            ));
                        }
                    }
                }
            }
        }
    }
    Ok(())
}

pub fn evaluate(
    case: &Case,
    results: &[Vec<RunResult>],
    report: &mut crate::case::CaseReport,
) -> Verdict {
    let mut verdicts = vec![];
    for w in 0..case.worlds.len() {
        let v = evaluate_world(case, w, results, report);
        if matches!(v, Verdict::Violation { .. }) {
            return v;
        }
        verdicts.push(v);
    }
    if case.family == "homonyms" && case.worlds.len() == 2 {
        if let Some(v) = same_graph_same_verdict(case, results, report) {
            return v;
        }
    }
    if case.family == "rearranged" && case.worlds.len() >= 2 {
        if let Some(v) = same_items_same_verdict(case, results, report) {
            return v;
        }
    }
    if verdicts.iter().any(|v| matches!(v, Verdict::Held)) {
        return Verdict::Held;
    }
    verdicts.into_iter().next().unwrap_or(Verdict::Held)
}

/// Worlds 0 (shared names) and 1 (a name of its own for every item) of a `homonyms` case: when
/// the reference model finds every name defined and nothing cyclic in both, and the by-value
/// graph is the same one under the renaming, then layout is the same too and both are accepted
/// or both are rejected. A world that is rejected only under the shared names is a valid
/// program turned down because of what its items are called.
fn same_graph_same_verdict(
    case: &Case,
    results: &[Vec<RunResult>],
    report: &mut crate::case::CaseReport,
) -> Option<Verdict> {
    let h = parse_world(&case.worlds[0]).ok()?;
    let u = parse_world(&case.worlds[1]).ok()?;
    let (mh, mu) = (Model::build(&h), Model::build(&u));
    if mh.expects_error() || mu.expects_error() || !mh.duplicates.is_empty() || !mu.duplicates.is_empty() {
        return None;
    }
    let mut map: std::collections::BTreeMap<String, String> = std::collections::BTreeMap::new();
    for n in &case.params.notes {
        if let Some((a, b)) = n.strip_prefix("rename:").and_then(|r| r.split_once('=')) {
            map.insert(a.to_string(), b.to_string());
        }
    }
    // Same declarations, same by-value edges.
    if mu.decls.len() != mh.decls.len() {
        return None;
    }
    for (path, d) in &mu.decls {
        let hp = map.get(path)?;
        let dh = mh.decls.get(hp)?;
        if dh.kind != d.kind {
            return None;
        }
        let mapped: Option<BTreeSet<String>> = d
            .by_value
            .iter()
            .map(|t| {
                if crate::model::BUILTINS.contains(&t.as_str()) {
                    Some(t.clone())
                } else {
                    map.get(t).cloned()
                }
            })
            .collect();
        if mapped? != dh.by_value {
            return None;
        }
    }
    report.count("oracle:same_graph_under_renaming", 1);
    let outcome = |w: usize| -> Option<(bool, String)> {
        let mut seen: Option<(bool, String)> = None;
        for (bi, b) in case.builds.iter().enumerate() {
            if b.world != w {
                continue;
            }
            for r in &results[bi] {
                let ok = match &r.outcome {
                    Outcome::Ok => true,
                    Outcome::Err(_) => false,
                    _ => return None,
                };
                match &seen {
                    Some((s, _)) if *s != ok => return None, // order dependence: C09's business
                    Some(_) => {}
                    None => seen = Some((ok, r.outcome.brief())),
                }
            }
        }
        seen
    };
    let (oh, ou) = (outcome(0)?, outcome(1)?);
    if oh.0 != ou.0 {
        let (which, why) = if ou.0 { ("shared", &oh.1) } else { ("distinct", &ou.1) };
        return Some(Verdict::violation(
            "rejected-because-of-item-names",
            format!(
                "the same dependency graph (every name defined, nothing cyclic) is accepted under one naming and rejected under the other ({which} names): {why}"
            ),
        ));
    }
    None
}

fn evaluate_world(
    case: &Case,
    w: usize,
    results: &[Vec<RunResult>],
    report: &mut crate::case::CaseReport,
) -> Verdict {
    let world = match parse_world(&case.worlds[w]) {
        Ok(w) => w,
        Err(e) => return Verdict::Vacuous(format!("world does not parse: {e}")),
    };
    let model = Model::build(&world);
    if !model.duplicates.is_empty() {
        return Verdict::Vacuous("duplicate declarations are not part of C10 worlds".into());
    }
    let expect_err = model.expects_error();
    report.count(if expect_err { "model:expects_err" } else { "model:expects_ok" }, 1);
    if !model.unresolvable.is_empty() && model.undefined.is_empty() {
        report.count("model:by_value_cycle_only", 1);
    }
    for u in &model.undefined {
        report.count(&format!("model:undefined_in:{:?}", u.position), 1);
    }
    for (bi, reps) in results.iter().enumerate() {
        if case.builds[bi].world != w {
            continue;
        }
        for r in reps {
            match &r.outcome {
                Outcome::StepBudget => {
                    return Verdict::violation(
                        "resolution-does-not-end",
                        format!("build {bi}: step budget exceeded"),
                    )
                }
                Outcome::Panic { message, location } => {
                    return Verdict::violation(
                        "panic",
                        format!("build {bi}: {message} at {location}"),
                    )
                }
                Outcome::Ok if expect_err => {
                    let why = if let Some(o) = model.orphan_impls.first() {
                        format!("`impl {o}` is not for a type declared in its module: its functions are dropped")
                    } else if let Some(u) = model.undefined.first() {
                        format!(
                            "undefined name `{}` in {:?} position of `{}`",
                            u.name, u.position, u.owner
                        )
                    } else {
                        format!("unresolvable types {:?}", model.unresolvable)
                    };
                    return Verdict::violation(
                        "accepted-despite-undefined-name-or-cycle",
                        format!("build {bi} succeeded but the model expects an error: {why}"),
                    );
                }
                Outcome::Ok => {
                    report.count("oracle:completeness_checked", 1);
                    if let Err((class, detail)) = completeness(&world, &model, r) {
                        return Verdict::violation(class, format!("build {bi}: {detail}"));
                    }
                }
                Outcome::Err(e) if !expect_err => {
                    // Not a resolution problem by the model. If pyxis says it *is* one, that
                    // is a spurious rejection; any other error means the generator left the
                    // accepted fragment (layout etc.) and the run is vacuous.
                    if e.contains("type resolution will not terminate")
                        || e.contains("failed to resolve type")
                    {
                        return Verdict::violation(
                            "rejected-although-resolvable",
                            format!("build {bi}: {e}"),
                        );
                    }
                    return Verdict::Vacuous(format!("rejected for a non-resolution reason: {e}"));
                }
                Outcome::Err(e) => {
                    if model.field_problems_only() {
                        report.count("oracle:failed_list_checked", 1);
                        match failed_types(e) {
                            Some(listed) if listed == model.unresolvable => {}
                            Some(listed) => {
                                return Verdict::violation(
                                    "failed-type-list-differs",
                                    format!(
                                        "build {bi}: listed {:?}, model {:?}",
                                        listed, model.unresolvable
                                    ),
                                )
                            }
                            None => {
                                // Some other error came first (or the wording changed): any
                                // error satisfies "ends the build with an error".
                            }
                        }
                    }
                }
            }
        }
    }
    Verdict::Held
}
