//! C09 — the output is a deterministic function of the input set.
//!
//! One world, K builds under different schedules (resolution order, module add order, write
//! order, pre-sort item order, entry point, repetition). Oracle: all builds agree on
//! succeeds/fails and, when they succeed, on the complete output tree.

use crate::case::{Case, Params, Verdict};
use crate::plan::{diverse_builds, Tier};
use crate::project::{
    gen_valid, Decl, ExternValue, Field, Flags, Func, GenCfg, Item, ItemKind, Module, Project, Ty,
};
use crate::rng::Rng;
use crate::run::{RunResult, World};

pub fn generate(seed: u64, tier: Tier) -> Case {
    let mut rng = Rng::new(seed);
    let (max_items, max_modules, k) = match tier {
        Tier::Quick => (12, 4, 6),
        Tier::Thorough => (48, 8, 12),
    };
    let ptr = if rng.chance(1, 2) { 4 } else { 8 };
    let family = *rng.pick(&[
        "valid", "valid", "valid", "valid", "error", "vftable_name", "vftable_name",
        "vftable_name", "registry_collision", "disk_collision", "graph", "graph",
        "shadowed_generated_name", "generated_name_cycle", "twin_modules", "exhaustive_small",
        "override_near_miss",
    ]);
    let mut params = Params::default();
    let (project, mut world) = match family {
        "generated_name_cycle" => {
            let g = gen_generated_name_cycle(&mut rng, ptr);
            let w = World::from_files(ptr, g.files());
            (g, w)
        }
        "shadowed_generated_name" => {
            let g = gen_shadow_project(&mut rng, ptr);
            let w = World::from_files(ptr, g.files());
            (g, w)
        }
        "graph" => {
            let g = crate::props::c10::gen_graph_project(&mut rng, tier, ptr);
            let w = World::from_files(ptr, g.files());
            (g, w)
        }
        _ => {
            let mut cfg = GenCfg::swarm(&mut rng, max_items, max_modules);
            if family == "exhaustive_small" {
                let most = match tier {
                    Tier::Quick => 4,
                    Tier::Thorough => 5,
                };
                cfg.max_items = rng.range(2, most);
                cfg.max_modules = rng.range(1, 2);
                cfg.p_extern = 0;
                cfg.p_vftable = 60;
                cfg.p_base = 60;
            }
            if family == "vftable_name" || family == "registry_collision" {
                cfg.p_vftable = 90;
                cfg.max_items = cfg.max_items.max(2);
            }
            if family == "override_near_miss" {
                cfg.p_vftable = 90;
                cfg.p_base = 90;
                cfg.p_enum = 0;
                cfg.p_extern = 0;
                cfg.max_items = cfg.max_items.max(4);
            }
            let mut p = gen_valid(&mut rng, &cfg, ptr);
            match family {
                "valid" => params.intended_valid = true,
                "twin_modules" => {
                    // The same module text twice under different paths: equal short names,
                    // equal vftable blocks, equal function names, different meaning.
                    for t in 0..rng.range(1, 2) {
                        let host = rng.below(p.modules.len());
                        let k = p.modules.len();
                        let path = vec![format!("{}{k}_{t}", rng.pick(&["A", "a", "twin", "z"]))];
                        crate::project::add_twin_module(&mut p, host, path);
                    }
                }
                "error" => {
                    inject_error(&mut rng, &mut p);
                    params.expect_err = true;
                }
                "vftable_name" => {
                    if !mention_generated_vftable(&mut rng, &mut p) {
                        params.intended_valid = true;
                    }
                }
                "registry_collision" => {
                    user_defined_vftable_name(&mut rng, &mut p);
                }
                "override_near_miss" => {
                    if !near_miss_override(&mut rng, &mut p) {
                        params.intended_valid = true;
                    }
                }
                "disk_collision" => {}
                "exhaustive_small" => {
                    // Small worlds get the interesting ingredients as often as not.
                    if rng.chance(1, 2) {
                        mention_generated_vftable(&mut rng, &mut p);
                    } else {
                        params.intended_valid = true;
                    }
                }
                _ => unreachable!(),
            }
            let mut files = p.files();
            if family == "disk_collision" {
                let (path, _) = files[rng.below(files.len())].clone();
                let stem = path.trim_end_matches(".pyxis");
                let n = rng.below(100);
                files.push((
                    format!("{stem}.v{n}.pyxis"),
                    format!("#[align(4)]\npub type Dotted{n} {{ pub a: u32, pub b: [u8; {}] }}\n", 4 * (n % 3)),
                ));
            }
            let w = World::from_files(ptr, files);
            (p, w)
        }
    };
    if rng.chance(1, 6) {
        world.out_exists = false;
    }
    let builds = if family == "exhaustive_small" {
        // Every static priority over the user items: all n! resolution orders.
        let names: Vec<String> = (0..project.items.len())
            .filter(|i| !matches!(project.items[*i].kind, ItemKind::Extern { .. }))
            .map(|i| project.full_item_path(i))
            .collect();
        let mut perms: Vec<Vec<String>> = vec![];
        if names.len() <= 6 {
            permutations(&mut names.clone(), 0, &mut perms);
            params.notes.push(format!("exhaustive:{}_items:{}_orders", names.len(), perms.len()));
        } else {
            // More than 6! orders would not fit a case's time budget: sample instead.
            for _ in 0..300 {
                let mut order = names.clone();
                rng.shuffle(&mut order);
                perms.push(order);
            }
        }
        perms
            .into_iter()
            .map(|order| crate::run::BuildSpec {
                world: 0,
                entry: crate::run::Entry::LibBuild,
                sched: crate::sched::SchedSpec {
                    unresolved: crate::sched::OrderSpec::Priority(order, 0),
                    module_write: crate::sched::OrderSpec::Canonical,
                    definitions: crate::sched::OrderSpec::Canonical,
                },
                repeat: 1,
            })
            .collect()
    } else {
        diverse_builds(&mut rng, 0, k, Some(&project), true)
    };
    // Two sources for one module path, through the API (`add_module` twice under one path, in
    // both orders): whatever happens to the second, it happens in either order.
    let mut builds = builds;
    let mut world = world;
    if family == "valid" && rng.chance(1, 8) {
        let n = world.module_files().len();
        for (k, ty) in [("first", "OnlyInFirst"), ("second", "OnlyInSecond")] {
            world.input.push(crate::run::Node::File {
                path: format!("twice_{k}.pyxis"),
                content: crate::run::Blob::text(format!(
                    "#[align(4)]\npub type {ty} {{ pub a: u32 }}\n#[address(0x{:x})]\npub extern g_{k}: u32;\n",
                    0x7000 + 8 * k.len()
                )),
            });
        }
        let files: Vec<String> = world.module_files().iter().map(|(p, _)| p.clone()).collect();
        let a = files.iter().position(|p| p == "twice_first.pyxis");
        let b = files.iter().position(|p| p == "twice_second.pyxis");
        if let (Some(a), Some(b)) = (a, b) {
            let shared = (*rng.pick(&["shared", "twice_first", "d00::shared", "a::b::c"])).to_string();
            builds.clear();
            for order in [[a, b], [b, a]] {
                let mut ops: Vec<crate::run::ApiOp> = vec![];
                let mut rest: Vec<usize> = (0..files.len()).filter(|i| *i != a && *i != b).collect();
                rng.shuffle(&mut rest);
                let split = rng.below(rest.len() + 1);
                ops.extend(rest[..split].iter().map(|i| crate::run::ApiOp::AddStr(*i)));
                ops.push(crate::run::ApiOp::AddStrAt(order[0], shared.clone()));
                let mid = rng.below(rest.len() - split + 1) + split;
                ops.extend(rest[split..mid].iter().map(|i| crate::run::ApiOp::AddStr(*i)));
                ops.push(crate::run::ApiOp::AddStrAt(order[1], shared.clone()));
                ops.extend(rest[mid..].iter().map(|i| crate::run::ApiOp::AddStr(*i)));
                builds.push(crate::run::BuildSpec {
                    world: 0,
                    entry: crate::run::Entry::DriverOps { ops },
                    sched: crate::sched::SchedSpec {
                        unresolved: crate::sched::OrderSpec::Hashed(rng.next_u64()),
                        module_write: crate::sched::OrderSpec::Canonical,
                        definitions: crate::sched::OrderSpec::Canonical,
                    },
                    repeat: 1,
                });
            }
            params.intended_valid = false;
            params.notes.push("same_module_path_twice".into());
            let _ = n;
        }
    }
    let mut worlds = vec![world];
    if rng.chance(1, 8) {
        if let Some((from, to)) = crate::mutate::coincide(&mut rng, &mut worlds, true) {
            params.notes.push(format!("coincidence:{from}->{to}"));
            params.intended_valid = false;
        }
    }
    // Something else is built in between, in the same process: another project, more often
    // than not one that fails (in resolution, in layout, when its file is written). Whatever
    // that leaves behind in the process, the builds of this input do not notice.
    if family != "exhaustive_small" && rng.chance(1, 6) {
        let cfg2 = GenCfg::swarm(&mut rng, 6, 2);
        let mut other = gen_valid(&mut rng, &cfg2, ptr);
        for _ in 0..rng.below(3) {
            inject_error(&mut rng, &mut other);
        }
        worlds.push(World::from_files(ptr, other.files()));
        let w = worlds.len() - 1;
        let extra = rng.range(1, 3);
        for mut b in diverse_builds(&mut rng, w, extra, None, false) {
            b.world = w;
            let at = rng.range(1, builds.len());
            builds.insert(at, b);
        }
        params.notes.push("other_project_built_in_between".into());
    }
    // Rebuild in place: some builds start in the output directory an earlier build of the same
    // input left behind (complete after a success, half-finished after a failure). The result
    // is a function of the input set, not of what the output directory held.
    if family != "exhaustive_small" && rng.chance(1, 5) {
        for bi in 1..builds.len() {
            if builds[bi].world == builds[bi - 1].world && rng.chance(1, 2) {
                params.chain.push((bi, bi - 1));
            }
        }
        if !params.chain.is_empty() {
            params.notes.push("rebuild_in_place".into());
        }
    }
    // The disk fills up during one build (every file is cut off after a few bytes and the
    // build fails); the next build of the same input, into what that one left behind, with
    // room again, gives what every other build gives.
    if family != "exhaustive_small" && builds.len() >= 2 && rng.chance(1, 10) {
        let mut full = worlds[0].clone();
        full.write_limit = Some(*rng.pick(&[0u64, 1, 64, 300, 1000, 4096]));
        worlds.push(full);
        let w = worlds.len() - 1;
        let at = rng.range(1, builds.len() - 1);
        // Builds after the insertion point move up by one.
        for c in params.chain.iter_mut() {
            if c.0 >= at {
                c.0 += 1;
            }
            if c.1 >= at {
                c.1 += 1;
            }
        }
        let mut b = builds[at].clone();
        b.world = w;
        b.entry = crate::run::Entry::LibBuild;
        b.repeat = 1;
        builds.insert(at, b);
        if builds[at + 1].world == 0 && !params.chain.iter().any(|c| c.0 == at + 1) {
            params.chain.push((at + 1, at));
        }
        params.notes.push("disk_full_then_rebuilt".into());
    }
    Case {
        property: "C09".into(),
        family: family.into(),
        seed,
        worlds,
        builds,
        params,
    }
}

/// Adds one independent error that must make the build fail under every order.
pub fn inject_error(rng: &mut Rng, p: &mut Project) {
    let m = rng.below(p.modules.len());
    let idx = p.items.len();
    if rng.chance(1, 4) {
        // An error that only shows when the module's file is written: backend text that is
        // not Rust, or Rust that cannot be pretty-printed. The file is written as it is and
        // the build reports the error; what is on disk afterwards is a half-finished output.
        let text = (*rng.pick(&[
            "pub fn helper( -> u32 { 0 }",
            "pub const LIMIT: u32;",
            "}}} not rust at all {{{",
            "pub struct Open {",
        ]))
        .to_string();
        let k = p.modules[m].backends.len();
        let as_prologue = rng.chance(1, 2);
        p.modules[m].backends.push(crate::project::BackendBlock {
            name: "rust".into(),
            prologue: as_prologue.then(|| text.clone()),
            epilogue: (!as_prologue).then(|| text.clone()),
            braced: rng.chance(1, 2),
            more: vec![],
        });
        p.modules[m].order.push(Decl::Backend(k));
        return;
    }
    let kind = rng.below(4);
    let fields = match kind {
        0 => vec![field("a", Ty::Name(format!("Undefined{}", rng.below(100))))],
        1 => vec![
            field("a", Ty::Prim("u64")),
            Field {
                address: Some(4),
                ..field("b", Ty::Prim("u32"))
            },
        ],
        2 => vec![field("a", Ty::Prim("u8")), field("b", Ty::Prim("u32"))],
        _ => vec![field("a", Ty::Name(format!("Missing{}", rng.below(100))).mptr())],
    };
    p.items.push(Item {
        module: m,
        name: format!("Bad{idx}"),
        vis: true,
        doc: None,
        kind: ItemKind::Type {
            fields,
            vftable: None,
            size: None,
            align: None,
            packed: false,
            flags: Flags::default(),
            singleton: None,
            impl_funcs: vec![],
            semicolon_form: false,
        },
        csize: 0,
        calign: 1,
        vslots: None,
    });
    let pos = rng.below(p.modules[m].order.len() + 1);
    p.modules[m].order.insert(pos, Decl::Item(idx));
}

/// First-base chain of a type item (nearest first).
fn first_bases(p: &Project, mut i: usize) -> Vec<usize> {
    let mut out = vec![];
    loop {
        let ItemKind::Type { fields, .. } = &p.items[i].kind else {
            break;
        };
        match fields.first() {
            Some(Field { base: true, ty: Ty::Item(b), .. }) if !out.contains(b) && out.len() < 64 => {
                out.push(*b);
                i = *b;
            }
            _ => break,
        }
    }
    out
}

/// An override that is almost the function it overrides: a derived type re-declares the slots
/// of its first base (it has to, verbatim), and one of them differs in one respect — the return
/// type points at a relative of the base function's pointee, a parameter changed, the receiver
/// flipped, the name changed. Whatever the verdict on such a table is, it is the same under
/// every resolution order.
pub fn near_miss_override(rng: &mut Rng, p: &mut Project) -> bool {
    let derived: Vec<(usize, usize)> = (0..p.items.len())
        .filter_map(|y| {
            let ItemKind::Type { vftable: Some(_), .. } = &p.items[y].kind else {
                return None;
            };
            let x = *first_bases(p, y).first()?;
            let n = p.items[x].vslots.as_ref()?.iter().filter(|f| !f.name.starts_with("_vfunc_")).count();
            (n > 0).then_some((y, x))
        })
        .collect();
    if derived.is_empty() {
        return false;
    }
    let (y, x) = *rng.pick(&derived);
    let slots: Vec<String> = p.items[x]
        .vslots
        .as_ref()
        .unwrap()
        .iter()
        .filter(|f| !f.name.starts_with("_vfunc_"))
        .map(|f| f.name.clone())
        .collect();
    let name = rng.pick(&slots).clone();
    // (B, D): D has B on its first-base chain.
    let mut pairs: Vec<(usize, usize)> = vec![];
    for d in 0..p.items.len() {
        if matches!(p.items[d].kind, ItemKind::Type { .. }) {
            for b in first_bases(p, d) {
                pairs.push((b, d));
            }
        }
    }
    let types: Vec<usize> = (0..p.items.len())
        .filter(|i| matches!(p.items[*i].kind, ItemKind::Type { .. }))
        .collect();
    let mode = rng.below(7);
    let mutable = rng.chance(1, 2);
    if mode == 6 {
        // The derived block skips the slot altogether: the function is not re-declared, the
        // next one (or the block's size) says where things go on.
        let pos = p.items[y].vslots.as_ref().and_then(|vs| vs.iter().position(|f| f.name == name));
        let total = p.items[y].vslots.as_ref().map(|vs| vs.len()).unwrap_or(0);
        let next: Option<(String, usize)> = pos.and_then(|pos| {
            p.items[y].vslots.as_ref().and_then(|vs| {
                vs.iter()
                    .enumerate()
                    .skip(pos + 1)
                    .find(|(_, f)| !f.name.starts_with("_vfunc_"))
                    .map(|(k, f)| (f.name.clone(), k))
            })
        });
        if let ItemKind::Type { vftable: Some(v), .. } = &mut p.items[y].kind {
            v.funcs.retain(|f| f.name != name);
            match next {
                Some((n, k)) => {
                    if let Some(f) = v.funcs.iter_mut().find(|f| f.name == n) {
                        f.index = Some(k);
                    }
                }
                None => v.size = Some(total),
            }
        }
        return true;
    }
    let ptr_to = |i: usize| if mutable { Ty::Item(i).mptr() } else { Ty::Item(i).cptr() };
    // Every copy of the slot (the base's declaration and whatever re-declares it).
    let for_each_copy = |p: &mut Project, f: &mut dyn FnMut(usize, &mut Func)| {
        for i in 0..p.items.len() {
            let it = &mut p.items[i];
            if let ItemKind::Type { vftable: Some(v), .. } = &mut it.kind {
                for g in v.funcs.iter_mut().filter(|g| g.name == name) {
                    f(i, g);
                }
            }
            if let Some(vs) = &mut it.vslots {
                for g in vs.iter_mut().filter(|g| g.name == name) {
                    f(i, g);
                }
            }
        }
    };
    match mode {
        0 | 1 if !pairs.is_empty() => {
            // Return type: the base returns a pointer to B, the override a pointer to D.
            let (b, d) = *rng.pick(&pairs);
            let (b, d) = if mode == 1 { (d, b) } else { (b, d) };
            for_each_copy(p, &mut |i, g| g.ret = Some(if i == y { ptr_to(d) } else { ptr_to(b) }));
        }
        2 if !pairs.is_empty() => {
            // The same in a parameter.
            let (b, d) = *rng.pick(&pairs);
            for_each_copy(p, &mut |i, g| {
                let t = if i == y { ptr_to(d) } else { ptr_to(b) };
                if g.args.is_empty() {
                    g.args.push(("rel".into(), t));
                } else {
                    g.args[0].1 = t;
                }
            });
        }
        3 => {
            let other = if types.is_empty() { Ty::Prim("u64") } else { ptr_to(*rng.pick(&types)) };
            for_each_copy(p, &mut |i, g| {
                if i == y {
                    g.ret = match &g.ret {
                        Some(t) if *t == other => None,
                        _ => Some(other.clone()),
                    };
                }
            });
        }
        4 => for_each_copy(p, &mut |i, g| {
            if i == y {
                g.recv = g.recv.map(|r| !r);
            }
        }),
        _ => for_each_copy(p, &mut |i, g| {
            if i == y {
                g.name = format!("{}_renamed", g.name);
            }
        }),
    }
    // The referenced relatives must be nameable from every module that holds a copy: the
    // printer derives the `use` lines from the mentions, nothing to do here.
    true
}

pub fn field(name: &str, ty: Ty) -> Field {
    Field {
        vis: true,
        name: name.into(),
        ty,
        address: None,
        base: false,
        doc: None,
    }
}

fn vftable_owners(p: &Project) -> Vec<usize> {
    (0..p.items.len())
        .filter(|&i| matches!(&p.items[i].kind, ItemKind::Type { vftable: Some(_), .. }))
        .collect()
}

/// Mentions `<T>Vftable` — a name that only comes into existence while `T` is being resolved —
/// from a field, a function signature, an extern value, possibly across modules.
pub fn mention_generated_vftable(rng: &mut Rng, p: &mut Project) -> bool {
    let owners = vftable_owners(p);
    if owners.is_empty() {
        return false;
    }
    let t = *rng.pick(&owners);
    let tm = p.items[t].module;
    let vname = crate::inventory::vftable_name(&p.items[t].name);
    let nslots = p.items[t].vslots.as_ref().map(|v| v.len()).unwrap_or(0);
    // Where the mention lives: T's own module, or another one that imports the name.
    let m = if p.modules.len() > 1 && rng.chance(1, 2) {
        let mut m = rng.below(p.modules.len());
        if m == tm {
            m = (m + 1) % p.modules.len();
        }
        let line = if rng.chance(1, 2) {
            format!("use {}::{};", p.modules[tm].item_path(), vname)
        } else {
            format!("use {};", p.modules[tm].item_path())
        };
        p.modules[m].extra_uses.push(line);
        m
    } else {
        tm
    };
    let n_mentions = rng.range(1, 2);
    for _ in 0..n_mentions {
        let idx = p.items.len();
        let vty = Ty::Name(vname.clone());
        match rng.below(6) {
            5 => {
                // An enum over the name.
                p.items.push(Item {
                    module: m,
                    name: format!("EU{idx}"),
                    vis: true,
                    doc: None,
                    kind: ItemKind::Enum {
                        base: vty,
                        variants: vec![("Only".into(), None, false)],
                        flags: Flags::default(),
                        singleton: None,
                    },
                    csize: 0,
                    calign: 1,
                    vslots: None,
                });
                let pos = rng.below(p.modules[m].order.len() + 1);
                p.modules[m].order.insert(pos, Decl::Item(idx));
            }
            0 | 1 => {
                // A new type with a function whose parameter / return type is the name, behind
                // a pointer or by value.
                let as_param = rng.chance(1, 2);
                let by_value = rng.chance(1, 3);
                let mention = if by_value { vty.clone() } else { vty.clone().cptr() };
                let f = Func {
                    vis: true,
                    name: format!("vf{idx}"),
                    recv: Some(false),
                    args: if as_param {
                        vec![("table".into(), mention.clone())]
                    } else {
                        vec![]
                    },
                    ret: if as_param && rng.chance(1, 2) {
                        None
                    } else {
                        Some(mention.clone())
                    },
                    address: Some(0x5000 + idx),
                    index: None,
                    cc: None,
                    doc: None,
                };
                let in_vftable = rng.chance(1, 3);
                let mut f2 = f.clone();
                if in_vftable {
                    f2.address = None;
                }
                p.items.push(Item {
                    module: m,
                    name: format!("U{idx}"),
                    vis: true,
                    doc: None,
                    kind: ItemKind::Type {
                        fields: vec![field("a", Ty::Prim("u32"))],
                        vftable: in_vftable.then(|| crate::project::Vft {
                            funcs: vec![f2.clone()],
                            size: None,
                        }),
                        size: None,
                        align: Some(p.ptr.max(4)),
                        packed: false,
                        flags: Flags::default(),
                        singleton: None,
                        impl_funcs: if in_vftable { vec![] } else { vec![f] },
                        semicolon_form: false,
                    },
                    csize: 0,
                    calign: 1,
                    vslots: None,
                });
                // Layout: with an own vftable pointer the u32 needs trailing padding.
                if let ItemKind::Type { fields, size, .. } = &mut p.items[idx].kind {
                    if in_vftable {
                        *size = Some(2 * p.ptr.max(4));
                        let _ = fields;
                    } else {
                        *size = Some(p.ptr.max(4));
                    }
                }
                let pos = rng.below(p.modules[m].order.len() + 1);
                p.modules[m].order.insert(pos, Decl::Item(idx));
                if !in_vftable {
                    let pos = rng.below(p.modules[m].order.len() + 1);
                    p.modules[m].order.insert(pos, Decl::Impl(idx));
                }
            }
            2 => {
                // Pointer field.
                push_simple_type(rng, p, m, idx, vec![field("table", vty.cptr())]);
            }
            3 => {
                // By-value field (sometimes as a base): laid out against the generated struct.
                let _ = nslots;
                let f = Field {
                    base: rng.chance(1, 2),
                    ..field("table", vty)
                };
                push_simple_type(rng, p, m, idx, vec![f]);
            }
            _ => {
                let k = p.modules[m].extern_values.len();
                p.modules[m].extern_values.push(ExternValue {
                    vis: true,
                    name: format!("gv{idx}"),
                    ty: vty.cptr(),
                    address: Some(0x7000 + idx),
                });
                let pos = rng.below(p.modules[m].order.len() + 1);
                p.modules[m].order.insert(pos, Decl::ExternValue(k));
            }
        }
    }
    true
}

/// `Owner` (with a vftable block) embeds, through a chain of by-value fields, a type that
/// mentions `OwnerVftable`: the owner cannot be laid out before the chain's end, and the
/// chain's end cannot be resolved before the owner has been *attempted* once.
pub fn gen_generated_name_cycle(rng: &mut Rng, ptr: usize) -> Project {
    let mut p = Project {
        ptr,
        modules: vec![],
        items: vec![],
        style: rng.next_u64(),
    };
    let nmod = rng.range(1, 2);
    for k in 0..nmod {
        p.modules.push(Module {
            path: vec![format!("cyc{k}")],
            type_imports: rng.chance(1, 2),
            ..Default::default()
        });
    }
    let chain = rng.range(1, 4);
    // items[0] = Owner, items[1..=chain] = links, the last link mentions OwnerVftable.
    let vty = Ty::Name("OwnerVftable".into());
    let mention_in_field = rng.chance(1, 2);
    for k in (1..=chain).rev() {
        // placeholder order: pushed below in index order
        let _ = k;
    }
    p.items.push(Item {
        module: 0,
        name: "Owner".into(),
        vis: true,
        doc: None,
        kind: ItemKind::Type {
            fields: vec![field("link", Ty::Item(1))],
            vftable: Some(crate::project::Vft {
                funcs: (0..rng.range(0, 2))
                    .map(|i| Func {
                        vis: true,
                        name: format!("vf{i}"),
                        recv: Some(false),
                        args: vec![],
                        ret: None,
                        address: None,
                        index: None,
                        cc: None,
                        doc: None,
                    })
                    .collect(),
                size: None,
            }),
            size: None,
            align: Some(ptr),
            packed: false,
            flags: Flags::default(),
            singleton: None,
            impl_funcs: vec![],
            semicolon_form: false,
        },
        csize: 0,
        calign: ptr,
        vslots: None,
    });
    for k in 1..=chain {
        let last = k == chain;
        let module = rng.below(nmod);
        let fields = if !last {
            vec![field("next", Ty::Item(k + 1))]
        } else if mention_in_field {
            vec![field("table", vty.clone().cptr())]
        } else {
            vec![field("pad", Ty::Prim("u8").arr(ptr))]
        };
        let impl_funcs = if last && !mention_in_field {
            vec![Func {
                vis: true,
                name: "uses_table".into(),
                recv: Some(false),
                args: vec![("table".into(), vty.clone().cptr())],
                ret: rng.chance(1, 2).then(|| vty.clone().cptr()),
                address: Some(0x1000),
                index: None,
                cc: None,
                doc: None,
            }]
        } else {
            vec![]
        };
        p.items.push(Item {
            module,
            name: format!("Link{k}"),
            vis: true,
            doc: None,
            kind: ItemKind::Type {
                fields,
                vftable: None,
                size: None,
                align: Some(ptr),
                packed: false,
                flags: Flags::default(),
                singleton: None,
                impl_funcs,
                semicolon_form: false,
            },
            csize: ptr,
            calign: ptr,
            vslots: None,
        });
        if module != 0 && last {
            let owner_path = p.modules[0].item_path();
            let line = if rng.chance(1, 2) {
                format!("use {owner_path}::OwnerVftable;")
            } else {
                format!("use {owner_path};")
            };
            p.modules[module].extra_uses.push(line);
        }
    }
    for i in 0..p.items.len() {
        let m = p.items[i].module;
        let pos = rng.below(p.modules[m].order.len() + 1);
        p.modules[m].order.insert(pos, Decl::Item(i));
        if let ItemKind::Type { impl_funcs, .. } = &p.items[i].kind {
            if !impl_funcs.is_empty() {
                let pos = rng.below(p.modules[m].order.len() + 1);
                p.modules[m].order.insert(pos, Decl::Impl(i));
            }
        }
    }
    p
}

/// A generated `<T>Vftable` name competing with another definition of the same short name that
/// an import brings into scope: which one a mention binds to must not depend on whether `T`
/// has been attempted yet.
pub fn gen_shadow_project(rng: &mut Rng, ptr: usize) -> Project {
    let mut p = Project {
        ptr,
        modules: vec![],
        items: vec![],
        style: rng.next_u64(),
    };
    let names = ["owner", "other", "user"];
    for (k, n) in names.iter().enumerate() {
        let mut path: Vec<String> = (0..rng.below(2)).map(|d| format!("s{d}{k}")).collect();
        path.push(n.to_string());
        p.modules.push(Module {
            path,
            ..Default::default()
        });
    }
    let vfunc = |name: &str| Func {
        vis: true,
        name: name.to_string(),
        recv: Some(false),
        args: vec![],
        ret: None,
        address: None,
        index: None,
        cc: None,
        doc: None,
    };
    let owner_type = |module: usize, nfuncs: usize, ptr: usize| Item {
        module,
        name: "Thing".into(),
        vis: true,
        doc: None,
        kind: ItemKind::Type {
            fields: vec![],
            vftable: Some(crate::project::Vft {
                funcs: (0..nfuncs).map(|i| vfunc(&format!("vf{module}_{i}"))).collect(),
                size: None,
            }),
            size: None,
            align: None,
            packed: false,
            flags: Flags::default(),
            singleton: None,
            impl_funcs: vec![],
            semicolon_form: false,
        },
        csize: ptr,
        calign: ptr,
        vslots: None,
    };
    // Variant without any generated name: two plain definitions of one short name, both in
    // scope through module imports; which one wins is a matter of scope order only.
    if rng.chance(1, 6) {
        // A type imported by name that is called like a built-in: the import wins.
        let builtin = *rng.pick(&["u32", "i8", "u64", "bool"]);
        p.items.push(Item {
            module: 1,
            name: builtin.into(),
            vis: true,
            doc: None,
            kind: if rng.chance(1, 2) {
                ItemKind::Extern { size: 16, align: 8 }
            } else {
                ItemKind::Type {
                    fields: vec![field("wide", Ty::Prim("u64").arr(2))],
                    vftable: None,
                    size: None,
                    align: None,
                    packed: false,
                    flags: Flags::default(),
                    singleton: None,
                    impl_funcs: vec![],
                    semicolon_form: false,
                }
            },
            csize: 16,
            calign: 8,
            vslots: None,
        });
        p.modules[1].order.push(Decl::Item(0));
        let other_path = p.modules[1].item_path();
        p.modules[2].extra_uses.push(format!("use {other_path}::{builtin};"));
        let idx = p.items.len();
        if rng.chance(1, 2) {
            p.items.push(Item {
                module: 2,
                name: format!("E{idx}"),
                vis: true,
                doc: None,
                kind: ItemKind::Enum {
                    base: Ty::Name(builtin.into()),
                    variants: vec![("A".into(), None, false), ("B".into(), None, false)],
                    flags: Flags::default(),
                    singleton: None,
                },
                csize: 0,
                calign: 1,
                vslots: None,
            });
            p.modules[2].order.push(Decl::Item(idx));
        } else {
            push_simple_type(rng, &mut p, 2, idx, vec![field("v", Ty::Name(builtin.into()))]);
        }
        return p;
    }
    if rng.chance(1, 3) {
        let extern_competitors = rng.chance(1, 2);
        for (module, bytes) in [(0usize, 4usize), (1, 12)] {
            if extern_competitors {
                p.items.push(Item {
                    module,
                    name: "ThingVftable".into(),
                    vis: true,
                    doc: None,
                    kind: ItemKind::Extern {
                        size: bytes * ptr,
                        align: ptr,
                    },
                    csize: bytes * ptr,
                    calign: ptr,
                    vslots: None,
                });
                continue;
            }
            p.items.push(Item {
                module,
                name: "ThingVftable".into(),
                vis: true,
                doc: None,
                kind: ItemKind::Type {
                    fields: vec![field("bytes", Ty::Prim("u8").arr(bytes * ptr))],
                    vftable: None,
                    size: None,
                    align: Some(ptr),
                    packed: false,
                    flags: Flags::default(),
                    singleton: None,
                    impl_funcs: vec![],
                    semicolon_form: false,
                },
                csize: 0,
                calign: ptr,
                vslots: None,
            });
        }
        let owner_path = p.modules[0].item_path();
        let other_path = p.modules[1].item_path();
        let mut lines = vec![format!("use {owner_path};"), format!("use {other_path};")];
        if rng.chance(1, 2) {
            lines.reverse();
        }
        let m = if rng.chance(1, 2) {
            p.modules[2].extra_uses.extend(lines);
            2
        } else {
            p.modules[0].extra_uses.push(format!("use {other_path};"));
            0
        };
        let idx = p.items.len();
        let vty = Ty::Name("ThingVftable".into());
        if rng.chance(1, 3) {
            // An enum over the contested name.
            p.items.push(Item {
                module: m,
                name: format!("E{idx}"),
                vis: true,
                doc: None,
                kind: ItemKind::Enum {
                    base: vty,
                    variants: vec![("A".into(), None, false)],
                    flags: Flags::default(),
                    singleton: None,
                },
                csize: 0,
                calign: 1,
                vslots: None,
            });
            p.modules[m].order.push(Decl::Item(idx));
        } else {
            let f = if rng.chance(1, 2) {
                field("table", vty)
            } else {
                field("table", vty.cptr())
            };
            push_simple_type(rng, &mut p, m, idx, vec![f]);
        }
        for i in 0..2 {
            let m = p.items[i].module;
            let pos = rng.below(p.modules[m].order.len() + 1);
            p.modules[m].order.insert(pos, Decl::Item(i));
        }
        return p;
    }
    // owner::Thing has a vftable block, so owner::ThingVftable comes into existence during
    // resolution.
    p.items.push(owner_type(0, rng.range(1, 3), ptr));
    // The competitor in `other`: a user type called ThingVftable, or another Thing with a
    // vftable block of a different length.
    if rng.chance(1, 2) {
        p.items.push(Item {
            module: 1,
            name: "ThingVftable".into(),
            vis: true,
            doc: None,
            kind: ItemKind::Type {
                fields: vec![field("user_bytes", Ty::Prim("u8").arr(ptr * rng.range(4, 9)))],
                vftable: None,
                size: None,
                align: Some(ptr),
                packed: false,
                flags: Flags::default(),
                singleton: None,
                impl_funcs: vec![],
                semicolon_form: false,
            },
            csize: 0,
            calign: ptr,
            vslots: None,
        });
    } else {
        p.items.push(owner_type(1, rng.range(4, 6), ptr));
    }
    // Where the mention lives and how the two candidates are imported.
    let owner_path = p.modules[0].item_path();
    let other_path = p.modules[1].item_path();
    let m = match rng.below(3) {
        0 => {
            // In the owner's module: own (generated) definition vs. module import of `other`.
            p.modules[0].extra_uses.push(format!("use {other_path};"));
            0
        }
        1 => {
            // In a third module: import by name of the generated type vs. module import.
            let mut lines = vec![
                format!("use {owner_path}::ThingVftable;"),
                format!("use {other_path};"),
            ];
            if rng.chance(1, 2) {
                lines.reverse();
            }
            p.modules[2].extra_uses.extend(lines);
            2
        }
        _ => {
            // In a third module: two module imports, precedence by order.
            let mut lines = vec![format!("use {owner_path};"), format!("use {other_path};")];
            if rng.chance(1, 2) {
                lines.reverse();
            }
            p.modules[2].extra_uses.extend(lines);
            2
        }
    };
    let vty = Ty::Name("ThingVftable".into());
    let idx = p.items.len();
    match rng.below(3) {
        0 => push_simple_type(rng, &mut p, m, idx, vec![field("table", vty)]),
        1 => push_simple_type(rng, &mut p, m, idx, vec![field("table", vty.cptr())]),
        _ => {
            p.items.push(Item {
                module: m,
                name: format!("U{idx}"),
                vis: true,
                doc: None,
                kind: ItemKind::Type {
                    fields: vec![],
                    vftable: None,
                    size: None,
                    align: None,
                    packed: false,
                    flags: Flags::default(),
                    singleton: None,
                    impl_funcs: vec![Func {
                        vis: true,
                        name: "takes_table".into(),
                        recv: Some(false),
                        args: vec![("table".into(), vty.clone().cptr())],
                        ret: rng.chance(1, 2).then(|| vty.clone().mptr()),
                        address: Some(0x4000),
                        index: None,
                        cc: None,
                        doc: None,
                    }],
                    semicolon_form: false,
                },
                csize: 0,
                calign: 1,
                vslots: None,
            });
            p.modules[m].order.push(Decl::Item(idx));
            p.modules[m].order.push(Decl::Impl(idx));
        }
    }
    for i in 0..2 {
        let m = p.items[i].module;
        let pos = rng.below(p.modules[m].order.len() + 1);
        p.modules[m].order.insert(pos, Decl::Item(i));
    }
    p
}

/// A type with a single region: default alignment is that region's, no size attribute needed.
fn push_simple_type(rng: &mut Rng, p: &mut Project, m: usize, idx: usize, fields: Vec<Field>) {
    p.items.push(Item {
        module: m,
        name: format!("U{idx}"),
        vis: true,
        doc: None,
        kind: ItemKind::Type {
            fields,
            vftable: None,
            size: None,
            align: None,
            packed: false,
            flags: Flags::default(),
            singleton: None,
            impl_funcs: vec![],
            semicolon_form: false,
        },
        csize: 0,
        calign: 1,
        vslots: None,
    });
    let pos = rng.below(p.modules[m].order.len() + 1);
    p.modules[m].order.insert(pos, Decl::Item(idx));
}

/// A user type named like the struct pyxis generates for `T`'s vftable, plus a type that embeds
/// the contested name by value.
pub fn user_defined_vftable_name(rng: &mut Rng, p: &mut Project) -> bool {
    let owners = vftable_owners(p);
    if owners.is_empty() {
        return false;
    }
    let t = *rng.pick(&owners);
    let m = p.items[t].module;
    let vname = crate::inventory::vftable_name(&p.items[t].name);
    let idx = p.items.len();
    let n = rng.range(1, 9);
    // Sometimes the user's type is, once resolved, indistinguishable from what pyxis would
    // generate for an empty vftable block: no fields, same visibility.
    let look_alike = rng.chance(1, 3);
    if look_alike {
        let owner_vis = p.items[t].vis;
        if let ItemKind::Type { vftable: Some(v), .. } = &mut p.items[t].kind {
            v.funcs.clear();
            v.size = None;
        }
        p.items[t].vslots = Some(vec![]);
        p.items.push(Item {
            module: m,
            name: vname.clone(),
            vis: owner_vis,
            doc: None,
            kind: ItemKind::Type {
                fields: vec![],
                vftable: None,
                size: None,
                align: None,
                packed: false,
                flags: Flags::default(),
                singleton: None,
                impl_funcs: vec![],
                semicolon_form: rng.chance(1, 2),
            },
            csize: 0,
            calign: p.ptr,
            vslots: None,
        });
        let pos = rng.below(p.modules[m].order.len() + 1);
        p.modules[m].order.insert(pos, Decl::Item(idx));
        return true;
    }
    p.items.push(Item {
        module: m,
        name: vname.clone(),
        vis: true,
        doc: None,
        kind: ItemKind::Type {
            fields: vec![field("user_data", Ty::Prim("u8").arr(n * 16))],
            vftable: None,
            size: None,
            align: None,
            packed: false,
            flags: Flags::default(),
            singleton: None,
            impl_funcs: vec![],
            semicolon_form: false,
        },
        csize: n * 16,
        calign: 1,
        vslots: None,
    });
    let pos = rng.below(p.modules[m].order.len() + 1);
    p.modules[m].order.insert(pos, Decl::Item(idx));
    if rng.chance(3, 4) {
        let idx2 = p.items.len();
        push_simple_type(rng, p, m, idx2, vec![field("inner", Ty::Name(vname))]);
    }
    true
}

fn permutations(items: &mut Vec<String>, k: usize, out: &mut Vec<Vec<String>>) {
    if k >= items.len() {
        out.push(items.clone());
        return;
    }
    for i in k..items.len() {
        items.swap(k, i);
        permutations(items, k + 1, out);
        items.swap(k, i);
    }
}

/// What a build's entry point hands to pyxis, as a set: (module path, text) per module and
/// whatever else an API history adds. Builds are "the same input set" when these agree; an
/// explicit history that puts a text somewhere else, or leaves one out, is another input.
pub fn input_set(world: &World, entry: &crate::run::Entry) -> Vec<(String, u64)> {
    use crate::run::{ApiOp, Entry};
    let files = world.module_files();
    let own = |i: usize| -> Option<(String, u64)> {
        let (rel, blob) = files.get(i)?;
        Some((
            rel.trim_end_matches(".pyxis").replace('/', "::"),
            crate::rng::hash_bytes(9, &blob.0),
        ))
    };
    let mut set: Vec<(String, u64)> = match entry {
        Entry::DriverOps { ops } => ops
            .iter()
            .filter_map(|op| match op {
                ApiOp::AddFile(i) | ApiOp::AddStr(i) => own(*i),
                ApiOp::AddStrAt(i, at) => own(*i).map(|(_, h)| (at.clone(), h)),
                ApiOp::AddFileOutside(i) => own(*i).map(|(p, h)| (format!("<outside>{p}"), h)),
                ApiOp::AddItem { path, size, alignment } => Some((
                    format!("<item>{path}"),
                    crate::rng::mix(*size as u64, *alignment as u64),
                )),
            })
            .collect(),
        _ => (0..files.len()).filter_map(own).collect(),
    };
    set.sort();
    set
}

pub fn evaluate(case: &Case, results: &[Vec<RunResult>]) -> Verdict {
    // Group by world and by what the entry point hands over.
    let mut groups: Vec<(usize, Vec<(String, u64)>)> = vec![];
    for b in &case.builds {
        let key = (b.world, input_set(&case.worlds[b.world], &b.entry));
        if !groups.contains(&key) {
            groups.push(key);
        }
    }
    for (w, set) in groups {
        let runs: Vec<(usize, usize, &RunResult)> = case
            .builds
            .iter()
            .enumerate()
            .filter(|(_, b)| b.world == w && input_set(&case.worlds[b.world], &b.entry) == set)
            .flat_map(|(bi, _)| results[bi].iter().enumerate().map(move |(ri, r)| (bi, ri, r)))
            .collect();
        let Some((b0, r0, first)) = runs.first().copied() else {
            continue;
        };
        for &(bi, ri, r) in &runs[1..] {
            if r.outcome.succeeded() != first.outcome.succeeded() {
                return Verdict::violation(
                    "outcome-differs-across-schedules",
                    format!(
                        "build {b0}.{r0}: {} / build {bi}.{ri}: {}",
                        first.outcome.brief(),
                        r.outcome.brief()
                    ),
                );
            }
            if r.outcome.succeeded() && r.files() != first.files() {
                let a = first.files();
                let b = r.files();
                let diff: Vec<String> = a
                    .keys()
                    .chain(b.keys())
                    .filter(|k| a.get(*k) != b.get(*k))
                    .map(|k| k.to_string())
                    .collect::<std::collections::BTreeSet<_>>()
                    .into_iter()
                    .collect();
                return Verdict::violation(
                    "output-differs-across-schedules",
                    format!("build {b0}.{r0} vs build {bi}.{ri}: files that differ: {diff:?}"),
                );
            }
        }
        if w == 0 && case.params.intended_valid && !first.outcome.succeeded() {
            return Verdict::Vacuous(format!(
                "intended-valid world rejected: {}",
                first.outcome.brief()
            ));
        }
    }
    Verdict::Held
}

#[allow(dead_code)]
fn unused(_: Module) {}
