//! C12 — every input yields a result: builds never panic or hang.
//!
//! The workload is valid generated projects; what pushes them off the happy path is injected
//! faults: damaged stored bytes, boundary integers in numeric positions, hostile identifiers
//! and backend text, a hostile file system, odd API call histories, adversarial resolution
//! orders. Oracle per run: the outcome is `Ok` or `Err` — no panic (arithmetic overflow
//! included: the harness builds pyxis with overflow checks), no step-budget overrun, no
//! wall-clock kill, bounded allocation; parse errors name file, line and column.

use pyxis::grammar;

use crate::case::{Case, CaseReport, Params, Verdict};
use crate::plan::{any_order, Tier};
use crate::project::{gen_valid, Decl, Field, Func, GenCfg, ItemKind, Project, Ty, Vft};
use crate::rng::Rng;
use crate::run::{ApiOp, Blob, BuildSpec, Entry, Node, Outcome, RunResult, World};
use crate::sched::{OrderSpec, SchedSpec};

/// A table of this many slots or fewer is small enough that "resources proportional to the
/// tables the input asks for" cannot excuse anything.
const LARGE_TABLE: isize = 10_000;

const FAULT_KINDS: [&str; 30] = [
    "truncate",
    "bit_flip",
    "significant_byte",
    "delete_chunk",
    "duplicate_chunk",
    "transpose_chunks",
    "splice_from_other_file",
    "invalid_utf8",
    "nul_bom_crlf",
    "boundary_integer",
    "attribute_value",
    "hostile_identifier",
    "backend_garbage",
    "nesting_bomb",
    "insert_attribute",
    "token_insert",
    "token_replace",
    "token_delete",
    "swap_type",
    "duplicate_item",
    "env_dir_named_like_module",
    "env_dangling_symlink",
    "env_symlink_loop",
    "env_out_dir_is_file",
    "env_output_path_is_dir",
    "env_input_path_spelling",
    "env_hostile_module_name",
    "env_disk_full",
    "api_history",
    "api_odd_pointer_size",
];

/// File and directory names are module path segments, and nothing validates them before the
/// backend turns them into Rust paths: digits first, non-ASCII letters and digits, keywords,
/// raw identifiers, punctuation, dots only, blanks.
pub const HOSTILE_SEGMENTS: [&str; 36] = [
    "3d", "2024", "0", "007x", "m\u{b2}", "\u{e9}t\u{e9}", "\u{661}\u{662}", "\u{2167}", "x\u{301}", "_", "__", "r#type", "r#x",
    "type", "self", "Self", "crate", "super", "mod", "fn", "u32", "void", "a-b", "a.b", "a b",
    " ", "-", "..", "...", "a..b", "x;", "a::b", "'a", "\u{200b}x", "x\ny", "$",
];

fn boundary_values(rng: &mut Rng, current: Option<u128>) -> String {
    let two = |n: u32| 1u128 << n;
    // The values most arithmetic trips over get extra weight.
    if rng.chance(1, 3) {
        let hot = [
            "0".to_string(),
            "1".to_string(),
            "-1".to_string(),
            (two(63) - 1).to_string(),
            two(63).to_string(),
            format!("-{}", two(63)),
            (two(64) - 1).to_string(),
            (two(32)).to_string(),
            (two(31)).to_string(),
        ];
        return rng.pick(&hot).clone();
    }
    let mut pool: Vec<String> = vec![
        "0".into(),
        "1".into(),
        "-1".into(),
        "2".into(),
        "3".into(),
        "7".into(),
        "255".into(),
        "256".into(),
        "65535".into(),
        "65536".into(),
        (two(31) - 1).to_string(),
        two(31).to_string(),
        (two(32) - 1).to_string(),
        two(32).to_string(),
        (two(32) + 1).to_string(),
        (two(63) - 1).to_string(),
        two(63).to_string(),
        format!("-{}", two(63)),
        format!("-{}", two(63) - 1),
        (two(64) - 1).to_string(),
        two(64).to_string(),
        "-2147483648".into(),
        "0x7fffffffffffffff".into(),
        "0xffff_ffff".into(),
        "0xFFFFFFFFFFFFFFFF".into(),
        "1_0".into(),
        "0b101".into(),
        "0o17".into(),
        "1u8".into(),
        "1.5".into(),
        "1e3".into(),
    ];
    if let Some(v) = current {
        pool.push(v.saturating_add(1).to_string());
        pool.push(v.saturating_sub(1).to_string());
        pool.push(format!("0x{:x}", v.saturating_mul(2)));
        pool.push(v.saturating_mul(3).to_string());
    }
    rng.pick(&pool).clone()
}

/// Letters whose upper-/lower-case forms are other letters, several letters, or nothing that
/// is allowed in an identifier.
const CASE_SPECIAL: [&str; 12] = [
    "\u{19b}", "\u{264}", "\u{df}", "\u{149}", "\u{1f0}", "\u{fb01}", "\u{131}", "\u{130}", "\u{1c6}", "\u{1fb3}", "\u{2177}", "\u{3c2}",
];

const HOSTILE_IDENTS: [&str; 30] = [
    "\u{19b}", "\u{264}", "x\u{df}", "\u{149}a", "\u{1f0}", "\u{fb01}le", "\u{130}d", "\u{1c6}",
    "r#type", "r#fn", "r#struct", "r#self", "_", "__", "self", "Self", "crate", "super", "u32",
    "void", "vftable", "type", "unknown", "backend", "ñandú", "名前", "a1234567890123456789012345678901234567890123456789012345678901234567890123456789",
    "get", "_vfunc_0", "_field_0",
];

/// The vocabulary of the language, for grammar-directed token faults.
const TOKENS: [&str; 48] = [
    "<", ">", ">>", "<<", "::", ":", ";", ",", ".", "*", "&", "#", "!", "=", "->", "=>", "-", "_",
    "(", ")", "[", "]", "{", "}", "const", "mut", "self", "fn", "type", "enum", "impl", "use",
    "extern", "pub", "unknown", "vftable", "backend", "prologue", "epilogue", "super", "crate",
    "0", "1", "\"s\"", "r#\"raw\"#", "Ident", "u32", "'a",
];

const BROKEN_RUST: [&str; 14] = [
    "fn",
    "{",
    "}",
    "struct",
    "\"",
    "#![",
    "pub const X: u32 = ;",
    "impl",
    "'",
    "/*",
    "fn f( {",
    "\u{0}",
    "use ;",
    "#",
];

/// Byte ranges of integer literals (optionally with a leading minus) outside identifiers.
fn integer_spans(text: &str) -> Vec<(usize, usize)> {
    let b = text.as_bytes();
    let mut out = vec![];
    let mut i = 0;
    while i < b.len() {
        let prev_ident = i > 0 && (b[i - 1].is_ascii_alphanumeric() || b[i - 1] == b'_');
        if b[i].is_ascii_digit() && !prev_ident {
            let start = if i > 0 && b[i - 1] == b'-' { i - 1 } else { i };
            let mut j = i;
            while j < b.len() && (b[j].is_ascii_alphanumeric() || b[j] == b'_') {
                j += 1;
            }
            out.push((start, j));
            i = j;
        } else {
            i += 1;
        }
    }
    out
}

fn identifier_spans(text: &str) -> Vec<(usize, usize)> {
    let b = text.as_bytes();
    let mut out = vec![];
    let mut i = 0;
    while i < b.len() {
        if (b[i].is_ascii_alphabetic() || b[i] == b'_')
            && !(i > 0 && (b[i - 1].is_ascii_alphanumeric() || b[i - 1] == b'_'))
        {
            let mut j = i;
            while j < b.len() && (b[j].is_ascii_alphanumeric() || b[j] == b'_') {
                j += 1;
            }
            out.push((i, j));
            i = j;
        } else {
            i += 1;
        }
    }
    out
}

/// Boundaries between tokens (whitespace / punctuation), used for token-aligned chunk faults.
fn token_boundaries(bytes: &[u8]) -> Vec<usize> {
    let mut out = vec![0];
    for i in 1..bytes.len() {
        let a = bytes[i - 1];
        let c = bytes[i];
        let class = |x: u8| {
            if x.is_ascii_alphanumeric() || x == b'_' {
                0
            } else if x.is_ascii_whitespace() {
                1
            } else {
                2
            }
        };
        if class(a) != class(c) || class(c) == 2 {
            out.push(i);
        }
    }
    out.push(bytes.len());
    out
}

fn pick_chunk(rng: &mut Rng, bytes: &[u8]) -> (usize, usize) {
    let bounds = token_boundaries(bytes);
    if bounds.len() < 2 {
        return (0, bytes.len());
    }
    let a = rng.below(bounds.len() - 1);
    let len = rng.range(1, 12.min(bounds.len() - 1 - a).max(1));
    (bounds[a], bounds[(a + len).min(bounds.len() - 1)])
}

fn apply_byte_fault(rng: &mut Rng, kind: &str, files: &mut [(String, Vec<u8>)]) -> bool {
    if files.is_empty() {
        return false;
    }
    let fi = rng.below(files.len());
    let other = files[rng.below(files.len())].1.clone();
    let bytes = &mut files[fi].1;
    match kind {
        "truncate" => {
            if bytes.is_empty() {
                return false;
            }
            let at = rng.below(bytes.len());
            bytes.truncate(at);
        }
        "bit_flip" => {
            if bytes.is_empty() {
                return false;
            }
            for _ in 0..rng.range(1, 3) {
                let at = rng.below(bytes.len());
                bytes[at] ^= 1 << rng.below(8);
            }
        }
        "significant_byte" => {
            if bytes.is_empty() {
                return false;
            }
            let chars = b"#[]<>{}()\";,:*-_0123456789x!=&'/\\.";
            for _ in 0..rng.range(1, 3) {
                let at = rng.below(bytes.len());
                let c = chars[rng.below(chars.len())];
                if rng.chance(1, 2) {
                    bytes[at] = c;
                } else {
                    bytes.insert(at, c);
                }
            }
        }
        "delete_chunk" => {
            let (a, b) = pick_chunk(rng, bytes);
            bytes.drain(a..b);
        }
        "duplicate_chunk" => {
            let (a, b) = pick_chunk(rng, bytes);
            let chunk = bytes[a..b].to_vec();
            let at = token_boundaries(bytes);
            let pos = at[rng.below(at.len())];
            let times = if rng.chance(1, 8) { rng.range(2, 40) } else { 1 };
            for _ in 0..times {
                bytes.splice(pos..pos, chunk.iter().copied());
            }
        }
        "transpose_chunks" => {
            let (a, b) = pick_chunk(rng, bytes);
            let (c, d) = pick_chunk(rng, bytes);
            if b <= c {
                let mut v = bytes[..a].to_vec();
                v.extend_from_slice(&bytes[c..d]);
                v.extend_from_slice(&bytes[b..c]);
                v.extend_from_slice(&bytes[a..b]);
                v.extend_from_slice(&bytes[d..]);
                *bytes = v;
            } else {
                return false;
            }
        }
        "splice_from_other_file" => {
            let (a, b) = pick_chunk(rng, &other);
            let at = token_boundaries(bytes);
            let pos = at[rng.below(at.len())];
            bytes.splice(pos..pos, other[a..b].iter().copied());
        }
        "invalid_utf8" => {
            let at = rng.below(bytes.len() + 1);
            let bad: &[u8] = match rng.below(4) {
                0 => &[0xff],
                1 => &[0xc3],
                2 => &[0xed, 0xa0, 0x80],
                _ => &[0xf8, 0x88, 0x80, 0x80, 0x80],
            };
            bytes.splice(at..at, bad.iter().copied());
        }
        "nul_bom_crlf" => match rng.below(4) {
            0 => {
                let at = rng.below(bytes.len() + 1);
                bytes.insert(at, 0);
            }
            1 => {
                bytes.splice(0..0, [0xef, 0xbb, 0xbf]);
            }
            2 => {
                let mut v = vec![];
                for &c in bytes.iter() {
                    if c == b'\n' {
                        v.push(b'\r');
                    }
                    v.push(c);
                }
                *bytes = v;
            }
            _ => {
                let at = rng.below(bytes.len() + 1);
                bytes.splice(at..at, "\u{2028}\u{feff}\u{200b}".bytes());
            }
        },
        "boundary_integer" => {
            let Ok(text) = std::str::from_utf8(bytes) else {
                return false;
            };
            let spans = integer_spans(text);
            if spans.is_empty() {
                return false;
            }
            let mut text = text.to_string();
            // Replace from the back so that earlier spans stay valid.
            let mut chosen: Vec<(usize, usize)> = (0..rng.range(1, 3))
                .map(|_| *rng.pick(&spans))
                .collect();
            chosen.sort();
            chosen.dedup();
            for (a, b) in chosen.into_iter().rev() {
                let cur = text[a..b]
                    .trim_start_matches('-')
                    .replace('_', "")
                    .parse::<u128>()
                    .ok();
                let v = boundary_values(rng, cur);
                text.replace_range(a..b, &v);
            }
            *bytes = text.into_bytes();
        }
        "attribute_value" => {
            // The numeric argument of one attribute, chosen per attribute *kind* first so that
            // rare kinds (an extern type's align, a vftable's size) are hit as often as
            // addresses.
            let Ok(text) = std::str::from_utf8(bytes) else {
                return false;
            };
            let mut by_kind: std::collections::BTreeMap<String, Vec<(usize, usize)>> =
                Default::default();
            for (a, b) in integer_spans(text) {
                let before = text[..a].trim_end();
                if !before.ends_with('(') {
                    continue;
                }
                let name_end = before.len() - 1;
                let name_start = before[..name_end]
                    .char_indices()
                    .rev()
                    .find(|(_, c)| !(c.is_ascii_alphanumeric() || *c == '_'))
                    .map(|(i, c)| i + c.len_utf8())
                    .unwrap_or(0);
                let mut kind = before[name_start..name_end].to_string();
                // Attributes of extern types are a kind of their own.
                let rest = &text[b..];
                if rest
                    .lines()
                    .take(3)
                    .any(|l| l.trim_start().starts_with("extern type"))
                {
                    kind.push_str("@extern");
                }
                by_kind.entry(kind).or_default().push((a, b));
            }
            if by_kind.is_empty() {
                return false;
            }
            let kinds: Vec<&String> = by_kind.keys().collect();
            let kind = (*rng.pick(&kinds)).clone();
            let (a, b) = *rng.pick(&by_kind[&kind]);
            let cur = text[a..b]
                .trim_start_matches('-')
                .replace('_', "")
                .parse::<u128>()
                .ok();
            let v = boundary_values(rng, cur);
            let mut t = text.to_string();
            t.replace_range(a..b, &v);
            *bytes = t.into_bytes();
        }
        "hostile_identifier" => {
            let Ok(text) = std::str::from_utf8(bytes) else {
                return false;
            };
            let spans = identifier_spans(text);
            if spans.is_empty() {
                return false;
            }
            let (a, b) = *rng.pick(&spans);
            let mut text = text.to_string();
            // Either one occurrence, or every occurrence of that identifier (a rename).
            let old = text[a..b].to_string();
            let new = *rng.pick(&HOSTILE_IDENTS);
            if rng.chance(1, 2) {
                text.replace_range(a..b, new);
            } else {
                let mut out = String::new();
                let mut last = 0;
                for (s, e) in identifier_spans(&text) {
                    if text[s..e] == old {
                        out.push_str(&text[last..s]);
                        out.push_str(new);
                        last = e;
                    }
                }
                out.push_str(&text[last..]);
                text = out;
            }
            *bytes = text.into_bytes();
        }
        "backend_garbage" => {
            let Ok(text) = std::str::from_utf8(bytes) else {
                return false;
            };
            let garbage = *rng.pick(&BROKEN_RUST);
            let mut text = text.to_string();
            if let Some(pos) = text.find("r#\"") {
                let end = text[pos + 3..].find("\"#").map(|e| pos + 3 + e);
                if let Some(end) = end {
                    text.replace_range(pos + 3..end, garbage);
                }
            } else {
                let form = match rng.below(3) {
                    0 => format!("backend rust prologue r#\"{garbage}\"#;\n"),
                    1 => format!("backend rust epilogue r#\"{garbage}\"#;\n"),
                    _ => format!(
                        "backend rust {{ prologue r#\"{garbage}\"#; epilogue r#\"{garbage}\"#; }}\n"
                    ),
                };
                text.push_str(&form);
            }
            *bytes = text.into_bytes();
        }
        "token_insert" | "token_replace" | "token_delete" => {
            // Grammar-directed: whole tokens of the language's vocabulary at token boundaries,
            // half of the time right after an identifier (where types, paths and names end).
            let bounds = token_boundaries(bytes);
            if bounds.len() < 3 {
                return false;
            }
            for _ in 0..rng.range(1, 3) {
                let bounds = token_boundaries(bytes);
                let after_ident: Vec<usize> = (1..bounds.len())
                    .filter(|&k| {
                        let b = bounds[k];
                        b > 0 && (bytes[b - 1].is_ascii_alphanumeric() || bytes[b - 1] == b'_')
                    })
                    .collect();
                let k = if !after_ident.is_empty() && rng.chance(1, 2) {
                    *rng.pick(&after_ident)
                } else {
                    rng.below(bounds.len() - 1)
                };
                let at = bounds[k];
                let end = bounds[(k + 1).min(bounds.len() - 1)];
                let tok = *rng.pick(&TOKENS);
                match kind {
                    "token_insert" => {
                        let glue = if rng.chance(1, 2) { "" } else { " " };
                        let text = format!("{glue}{tok}{glue}");
                        bytes.splice(at..at, text.bytes());
                    }
                    "token_replace" => {
                        bytes.splice(at..end, tok.bytes());
                    }
                    _ => {
                        bytes.drain(at..end);
                    }
                }
            }
        }
        "insert_attribute" => {
            // A syntactically valid attribute in front of a random line: keeps the file
            // parsable most of the time and drives the semantic error paths.
            let Ok(text) = std::str::from_utf8(bytes) else {
                return false;
            };
            let n = boundary_values(rng, None);
            let menu = [
                "#[packed]".to_string(),
                format!("#[align({n})]"),
                format!("#[size({n})]"),
                "#[base]".to_string(),
                format!("#[singleton({n})]"),
                format!("#[index({n})]"),
                format!("#[address({n})]"),
                "#[defaultable]".to_string(),
                "#[default]".to_string(),
                "#[copyable, cloneable]".to_string(),
                "#[calling_convention(\"nonsense\")]".to_string(),
                "#[calling_convention(5)]".to_string(),
                "#[doc = 5]".to_string(),
                "#[doc = ident]".to_string(),
                "#[unknown_attribute(1, \"two\", three)]".to_string(),
                "#[size(1, 2)]".to_string(),
                "#[size = 4]".to_string(),
                "#[size(\"4\")]".to_string(),
                "#[address]".to_string(),
                "/// a doc comment".to_string(),
                "#![doc = \"inner\"]".to_string(),
            ];
            let attr = rng.pick(&menu).clone();
            let mut lines: Vec<String> = text.lines().map(|l| l.to_string()).collect();
            let at = rng.below(lines.len() + 1);
            lines.insert(at, attr);
            *bytes = (lines.join("\n") + "\n").into_bytes();
        }
        "swap_type" => {
            // Replace the type after a `:` or `->` by another type expression of the file or
            // from a menu of odd ones.
            let Ok(text) = std::str::from_utf8(bytes) else {
                return false;
            };
            let mut sites: Vec<(usize, usize)> = vec![];
            let b = text.as_bytes();
            let mut i = 0;
            while i < b.len() {
                let after = if b[i] == b':' && i + 1 < b.len() && b[i + 1] == b' ' {
                    Some(i + 2)
                } else if b[i] == b'>' && i > 0 && b[i - 1] == b'-' {
                    Some(i + 1)
                } else {
                    None
                };
                if let Some(start) = after {
                    let mut j = start;
                    let mut depth = 0i32;
                    while j < b.len() {
                        match b[j] {
                            b'[' | b'<' => depth += 1,
                            b']' | b'>' => depth -= 1,
                            b',' | b';' | b')' | b'{' | b'\n' if depth <= 0 => break,
                            _ => {}
                        }
                        j += 1;
                    }
                    if j > start {
                        sites.push((start, j));
                    }
                }
                i += 1;
            }
            if sites.is_empty() {
                return false;
            }
            let (a, e) = *rng.pick(&sites);
            let (c, d) = *rng.pick(&sites);
            let menu = [
                "void", "[void; 4]", "*const void", "[u8; 0]", "unknown<0>", "[unknown<4>; 2]",
                "*mut *const *mut u8", "u128", "[[u8; 2]; 0]", "Self", "bool",
                "[u64; 2305843009213693952]", "[[u8; 4294967296]; 4294967296]",
            ];
            let replacement = if rng.chance(1, 2) {
                text[c..d].to_string()
            } else {
                rng.pick(&menu).to_string()
            };
            let mut t = text.to_string();
            t.replace_range(a..e, &format!(" {replacement}"));
            *bytes = t.into_bytes();
        }
        "duplicate_item" => {
            let Ok(text) = std::str::from_utf8(bytes) else {
                return false;
            };
            let chunks = crate::minimise::top_level_chunks(text);
            if chunks.is_empty() {
                return false;
            }
            let mut chunks = chunks;
            let c = rng.pick(&chunks).clone();
            let at = rng.below(chunks.len() + 1);
            chunks.insert(at, c);
            *bytes = chunks.concat().into_bytes();
        }
        "nesting_bomb" => {
            // Up to a few kilobytes of nesting.
            let depth = *rng.pick(&[8usize, 64, 200, 400, 800]);
            let bomb = match rng.below(17) {
                // Brackets whose partners hide in character and string literals or comments:
                // what nests is what the tokeniser sees, not what the characters suggest.
                15 => format!("{}{}\n", "(')'".repeat(depth.max(300) * 2), ")".repeat(depth.max(300) * 2)),
                16 => format!("{}{}\n", "[\"]\" /*]*/".repeat(depth.max(300)), "]".repeat(depth.max(300))),
                // Just inside every single limit, all at once: pointers around a generic-looking
                // name, arrays around pointers.
                12 => {
                    let k = *rng.pick(&[8usize, 16, 24, 31, 32, 33]);
                    let name = format!("{}A{}", "A<".repeat(k), ">".repeat(k));
                    format!(
                        "#[size(4), align(4)]\nextern type {name};\ntype Bomb {{ a: {}{name}, b: {}{name}{} }}\n",
                        "*mut ".repeat(k),
                        "[".repeat(k / 2),
                        "; 1]".repeat(k / 2)
                    )
                }
                // Six kilobytes of brackets.
                13 => format!("{}{}\n", "(".repeat(3000), ")".repeat(3000)),
                14 => format!("type Bomb {{ a: {}u8{} }}\n", "[".repeat(1500), "; 1]".repeat(1500)),
                // A generic-looking name nested in itself, declared and used.
                8 => {
                    let name = format!("{}A{}", "A<".repeat(depth), ">".repeat(depth));
                    format!("#[size(4), align(4)]\nextern type {name};\ntype Bomb {{ a: {name} }}\n")
                }
                // Rust that nests deeply inside a backend block.
                9 => format!(
                    "backend rust prologue \"type Deep = {}u8;\";\n",
                    "&".repeat(depth)
                ),
                10 => format!(
                    "backend rust epilogue \"const DEEP: u32 = {}1{};\";\n",
                    "(".repeat(depth),
                    ")".repeat(depth)
                ),
                11 => format!(
                    "backend rust prologue \"type Deep = {}u8{};\";\n",
                    "[".repeat(depth),
                    "; 1]".repeat(depth)
                ),
                4 => format!("type Bomb {{ a: {}u8{} }}\n", "*mut [".repeat(depth / 2), "; 1]".repeat(depth / 2)),
                5 => format!(
                    "type Bomb {{ vftable {{ fn f(&self, a: {}u8) -> {}u8; }} }}\n",
                    "*mut ".repeat(depth),
                    "*const ".repeat(depth)
                ),
                6 => format!("#[size({}1{})]\ntype Bomb;\n", "(".repeat(depth), ")".repeat(depth)),
                7 => format!("{}{}\n", "{".repeat(depth), "}".repeat(depth)),
                0 => format!(
                    "type Bomb {{ a: {}u8{} }}\n",
                    "[".repeat(depth),
                    "; 1]".repeat(depth)
                ),
                1 => format!("type Bomb {{ a: {}u8 }}\n", "*const ".repeat(depth)),
                2 => format!("type Bomb {{ a: Foo{} }}\n", "<Bar".repeat(depth)),
                _ => format!("{}type Bomb;\n", "#[a(b)]".repeat(depth)),
            };
            bytes.extend_from_slice(bomb.as_bytes());
        }
        _ => return false,
    }
    true
}

fn inheritance_lattice(rng: &mut Rng, ptr: usize, tier: Tier) -> Project {
    use crate::project::{Flags, Item, Module};
    let depth = match tier {
        Tier::Quick => rng.range(6, 11),
        Tier::Thorough => rng.range(8, 12),
    };
    let mut p = Project {
        ptr,
        modules: vec![Module {
            path: vec!["lattice".into()],
            ..Default::default()
        }],
        items: vec![],
        style: rng.next_u64(),
    };
    let with_function = rng.chance(1, 2);
    // What things are called: plain, or letters with unusual case mappings (names end up in
    // derived identifiers: upper-cased, prefixed, concatenated).
    let special = rng.chance(1, 3);
    let type_name = |rng: &mut Rng, i: usize| {
        if special {
            format!("{}{i}", rng.pick(&CASE_SPECIAL))
        } else {
            format!("L{i}")
        }
    };
    let names: Vec<String> = (0..64).map(|i| type_name(rng, i)).collect();
    // How a level holds the previous one twice: as bases, as plain fields, in arrays; the whole
    // lattice packed or of alignment 1; deeper when nothing in it has a size.
    let how = rng.below(4);
    let packed = rng.chance(1, 2);
    let depth = if how != 0 && rng.chance(1, 2) { depth + rng.range(10, 40) } else { depth };
    for i in 0..=depth {
        let fields = if i == 0 {
            vec![]
        } else {
            (0..2)
                .map(|b| Field {
                    vis: true,
                    name: if special {
                        format!("{}{b}", rng.pick(&CASE_SPECIAL))
                    } else {
                        format!("b{b}")
                    },
                    ty: match how {
                        2 => Ty::Item(i - 1).arr(1),
                        3 if b == 1 => Ty::Item(i - 1).arr(2),
                        _ => Ty::Item(i - 1),
                    },
                    address: None,
                    base: how == 0,
                    doc: None,
                })
                .collect()
        };
        p.items.push(Item {
            module: 0,
            name: names[i % names.len()].clone() + &(if i >= names.len() { format!("_{i}") } else { String::new() }),
            vis: true,
            doc: None,
            kind: ItemKind::Type {
                fields,
                vftable: None,
                size: None,
                align: (!packed).then_some(1),
                packed,
                flags: Flags::default(),
                singleton: None,
                impl_funcs: if i == 0 && with_function {
                    vec![Func {
                        vis: true,
                        name: "root_fn".into(),
                        recv: Some(false),
                        args: vec![],
                        ret: None,
                        address: Some(0x100),
                        index: None,
                        cc: None,
                        doc: None,
                    }]
                } else {
                    vec![]
                },
                semicolon_form: false,
            },
            csize: 0,
            calign: 1,
            vslots: None,
        });
        p.modules[0].order.push(Decl::Item(i));
        if i == 0 && with_function {
            p.modules[0].order.push(Decl::Impl(0));
        }
    }
    p
}

/// 150-300 tiny types, partly a long by-value chain declared in the worst order, partly
/// pointing at each other, in one or two modules.
fn many_small_items(rng: &mut Rng, ptr: usize) -> Project {
    use crate::project::{Flags, Item, Module};
    let n = rng.range(150, 300);
    let nmod = rng.range(1, 2);
    let mut p = Project {
        ptr,
        modules: (0..nmod)
            .map(|k| Module {
                path: vec![format!("big{k}")],
                ..Default::default()
            })
            .collect(),
        items: vec![],
        style: rng.next_u64(),
    };
    let chain = rng.chance(1, 2);
    for i in 0..n {
        let ty = if i == 0 {
            Ty::Prim("u8")
        } else if chain && i % 3 == 0 {
            Ty::Item(i - 1)
        } else if rng.chance(1, 2) {
            Ty::Item(rng.below(n)).cptr()
        } else {
            Ty::Item(rng.below(i))
        };
        p.items.push(Item {
            module: rng.below(nmod),
            name: format!("S{i}"),
            vis: true,
            doc: None,
            kind: ItemKind::Type {
                fields: vec![Field {
                    vis: true,
                    name: "a".into(),
                    ty,
                    address: None,
                    base: false,
                    doc: None,
                }],
                vftable: None,
                size: None,
                align: None,
                packed: true,
                flags: Flags::default(),
                singleton: None,
                impl_funcs: vec![],
                semicolon_form: false,
            },
            csize: 0,
            calign: 1,
            vslots: None,
        });
    }
    for m in 0..nmod {
        let mut order: Vec<Decl> = (0..n)
            .filter(|i| p.items[*i].module == m)
            .map(Decl::Item)
            .collect();
        order.reverse();
        p.modules[m].order = order;
    }
    p
}

/// Semantic knobs: the abstract project is bent before it is printed, so the input stays
/// well-formed text but describes something contradictory or extreme. Returns what was done.
fn bend_project(rng: &mut Rng, p: &mut Project) -> Vec<String> {
    let mut done = vec![];
    let types: Vec<usize> = (0..p.items.len())
        .filter(|i| matches!(p.items[*i].kind, ItemKind::Type { .. }))
        .collect();
    let enums: Vec<usize> = (0..p.items.len())
        .filter(|i| matches!(p.items[*i].kind, ItemKind::Enum { .. }))
        .collect();
    for _ in 0..rng.range(1, 3) {
        let what = rng.below(21);
        match what {
            19 | 20 => {
                // A type declares a function that its bases already have: one base, or two bases
                // that both expose a function of that name.
                let derived: Vec<usize> = types
                    .iter()
                    .copied()
                    .filter(|i| matches!(&p.items[*i].kind, ItemKind::Type { fields, .. } if fields.iter().any(|f| f.base)))
                    .collect();
                if let Some(&d) = derived.first().filter(|_| !derived.is_empty()).map(|_| rng.pick(&derived)) {
                    let bases: Vec<usize> = match &p.items[d].kind {
                        ItemKind::Type { fields, .. } => fields
                            .iter()
                            .filter(|f| f.base)
                            .filter_map(|f| match &f.ty {
                                Ty::Item(b) => Some(*b),
                                _ => None,
                            })
                            .collect(),
                        _ => vec![],
                    };
                    // ... or the type re-uses the name of a virtual function it inherits.
                    let inherited_virtual: Vec<String> = bases
                        .first()
                        .and_then(|b| p.items[*b].vslots.as_ref())
                        .map(|vs| {
                            vs.iter()
                                .filter(|f| !f.name.starts_with("_vfunc_"))
                                .map(|f| f.name.clone())
                                .collect()
                        })
                        .unwrap_or_default();
                    if !inherited_virtual.is_empty() && rng.chance(1, 2) {
                        let name = rng.pick(&inherited_virtual).clone();
                        let m = p.items[d].module;
                        if let ItemKind::Type { impl_funcs, .. } = &mut p.items[d].kind {
                            if impl_funcs.is_empty() {
                                p.modules[m].order.push(Decl::Impl(d));
                            }
                            impl_funcs.push(Func {
                                vis: true,
                                name,
                                recv: Some(false),
                                args: vec![],
                                ret: None,
                                address: Some(0x9300),
                                index: None,
                                cc: None,
                                doc: None,
                            });
                        }
                        done.push("knob:function_named_like_inherited_virtual".to_string());
                        continue;
                    }
                    let name = format!("shared_fn_{}", rng.below(3));
                    let mk = |addr: usize| Func {
                        vis: true,
                        name: name.clone(),
                        recv: Some(false),
                        args: vec![],
                        ret: None,
                        address: Some(addr),
                        index: None,
                        cc: None,
                        doc: None,
                    };
                    // every base (or just some of them) gets the function, then the type itself
                    for (k, b) in bases.iter().enumerate() {
                        if k == 0 || rng.chance(2, 3) {
                            let m = p.items[*b].module;
                            if let ItemKind::Type { impl_funcs, .. } = &mut p.items[*b].kind {
                                if impl_funcs.is_empty() {
                                    p.modules[m].order.push(Decl::Impl(*b));
                                }
                                impl_funcs.push(mk(0x9100 + 16 * k));
                            }
                        }
                    }
                    let m = p.items[d].module;
                    if let ItemKind::Type { impl_funcs, .. } = &mut p.items[d].kind {
                        if impl_funcs.is_empty() {
                            p.modules[m].order.push(Decl::Impl(d));
                        }
                        impl_funcs.push(mk(0x9200));
                    }
                    done.push("knob:function_named_like_inherited".to_string());
                }
            }
            17 | 18 => {
                // Imports that lead nowhere, to one another, to themselves: `use` lines naming
                // items that no module declares, modules that do not exist, the importing
                // module itself — and something that mentions the imported name.
                let nm = p.modules.len();
                let name = if !p.items.is_empty() && rng.chance(1, 3) {
                    p.items[rng.below(p.items.len())].name.clone()
                } else {
                    format!("Ghost{}", rng.below(3))
                };
                let ring: Vec<usize> = {
                    let mut v: Vec<usize> = (0..nm).collect();
                    rng.shuffle(&mut v);
                    v.truncate(rng.range(1, nm.min(4)));
                    v
                };
                for (k, &m) in ring.iter().enumerate() {
                    let next = ring[(k + 1) % ring.len()];
                    let target = match rng.below(6) {
                        0 => "no::such::module".to_string(),
                        1 => p.modules[m].item_path(),
                        _ => p.modules[next].item_path(),
                    };
                    let line = match rng.below(4) {
                        0 => format!("use {target};"),
                        _ => format!("use {target}::{name};"),
                    };
                    p.modules[m].extra_uses.push(line);
                }
                // The mention: a field, a pointer field, a signature, an extern value.
                let m = ring[0];
                match rng.below(4) {
                    0 => {
                        let k = p.modules[m].extern_values.len();
                        p.modules[m].extern_values.push(crate::project::ExternValue {
                            vis: true,
                            name: format!("ghost_value_{k}"),
                            ty: Ty::Name(name.clone()).mptr(),
                            address: Some(0x5000 + k * 8),
                        });
                        p.modules[m].order.push(Decl::ExternValue(k));
                    }
                    which => {
                        use crate::project::{Flags, Item};
                        let idx = p.items.len();
                        let ty = match which {
                            1 => Ty::Name(name.clone()),
                            2 => Ty::Name(name.clone()).cptr(),
                            _ => Ty::Name(name.clone()).arr(2),
                        };
                        p.items.push(Item {
                            module: m,
                            name: format!("Haunted{idx}"),
                            vis: true,
                            doc: None,
                            kind: ItemKind::Type {
                                fields: vec![Field {
                                    vis: true,
                                    name: "ghost".into(),
                                    ty,
                                    address: None,
                                    base: false,
                                    doc: None,
                                }],
                                vftable: None,
                                size: None,
                                align: None,
                                packed: false,
                                flags: Flags::default(),
                                singleton: None,
                                impl_funcs: vec![],
                                semicolon_form: false,
                            },
                            csize: 0,
                            calign: 1,
                            vslots: None,
                        });
                        p.modules[m].order.push(Decl::Item(idx));
                    }
                }
                done.push("knob:import_ring".to_string());
            }
            0..=10 if !types.is_empty() => {
                let i = *rng.pick(&types);
                let n_items = p.items.len();
                let ptr = p.ptr;
                let ItemKind::Type {
                    fields,
                    vftable,
                    size,
                    align,
                    packed,
                    flags,
                    impl_funcs,
                    singleton,
                    ..
                } = &mut p.items[i].kind
                else {
                    continue;
                };
                match what {
                    0 => {
                        // Derived vftable shorter / longer / reordered w.r.t. the base's.
                        if let Some(v) = vftable {
                            if !v.funcs.is_empty() {
                                match rng.below(6) {
                                    0 => {
                                        let k = rng.below(v.funcs.len());
                                        v.funcs.remove(k);
                                    }
                                    3 => {
                                        // Same name, fewer / more / other arguments.
                                        let k = rng.below(v.funcs.len());
                                        match rng.below(3) {
                                            0 => {
                                                v.funcs[k].args.pop();
                                            }
                                            1 => v.funcs[k].args.push(("extra".into(), Ty::Prim("u8"))),
                                            _ => {
                                                if let Some(a) = v.funcs[k].args.first_mut() {
                                                    a.1 = Ty::Prim("f64");
                                                }
                                            }
                                        }
                                    }
                                    4 => {
                                        // Same name, other return type / receiver / visibility.
                                        let k = rng.below(v.funcs.len());
                                        match rng.below(3) {
                                            0 => {
                                                v.funcs[k].ret = match v.funcs[k].ret {
                                                    Some(_) => None,
                                                    None => Some(Ty::Prim("u8")),
                                                }
                                            }
                                            1 => v.funcs[k].recv = v.funcs[k].recv.map(|m| !m),
                                            _ => v.funcs[k].vis = !v.funcs[k].vis,
                                        }
                                    }
                                    1 => v.funcs.reverse(),
                                    _ => {
                                        let f = v.funcs[0].clone();
                                        v.funcs.push(f);
                                    }
                                }
                                done.push("knob:vftable_functions_changed".to_string());
                            }
                        }
                    }
                    1 => {
                        // Vftable size / indices that contradict the function list.
                        if let Some(v) = vftable {
                            v.size = Some(rng.below(v.funcs.len() + 2));
                            for (k, f) in v.funcs.iter_mut().enumerate() {
                                if rng.chance(1, 2) {
                                    f.index = Some((k + 3).saturating_sub(rng.below(6)));
                                }
                            }
                            done.push("knob:vftable_size_or_indices".to_string());
                        }
                    }
                    2 => {
                        // Bases in odd places and of odd types.
                        if !fields.is_empty() {
                            let k = rng.below(fields.len());
                            fields[k].base = true;
                            match rng.below(5) {
                                0 => fields[k].ty = Ty::Prim("u32"),
                                1 => fields[k].ty = fields[k].ty.clone().cptr(),
                                2 => fields[k].ty = fields[k].ty.clone().arr(2),
                                3 => fields[k].name = "_".into(),
                                _ => {}
                            }
                            if rng.chance(1, 2) {
                                fields.rotate_left(1);
                            }
                            done.push("knob:odd_base_field".to_string());
                        }
                    }
                    3 => {
                        *packed = true;
                        if rng.chance(1, 2) {
                            *align = Some(*rng.pick(&[1usize, 3, 8]));
                        }
                        done.push("knob:packed_and_align".to_string());
                    }
                    4 => {
                        *size = Some(match rng.below(4) {
                            0 => 0,
                            1 => 1,
                            2 => size.unwrap_or(8).saturating_sub(1),
                            _ => size.unwrap_or(8) + 3,
                        });
                        done.push("knob:contradicting_size".to_string());
                    }
                    5 => {
                        *align = Some(*rng.pick(&[0usize, 3, 5, 6, 12, 1 << 20, 1 << 40]));
                        done.push("knob:odd_alignment".to_string());
                    }
                    6 => {
                        flags.defaultable = true;
                        flags.copyable = true;
                        done.push("knob:defaultable_anything".to_string());
                    }
                    7 => {
                        // Addresses that collide with or sit exactly at the previous end.
                        for f in fields.iter_mut() {
                            if rng.chance(1, 2) {
                                f.address = Some(*rng.pick(&[0usize, 1, 2, 4, 8, 16, 3]));
                            }
                        }
                        fields.push(Field {
                            vis: true,
                            name: "zero_sized".into(),
                            ty: Ty::Prim("u8").arr(0),
                            address: Some(rng.below(32)),
                            base: false,
                            doc: None,
                        });
                        done.push("knob:odd_addresses".to_string());
                    }
                    8 => {
                        // Functions with odd signatures.
                        let f = Func {
                            vis: true,
                            name: (*rng.pick(&["odd", "vftable", "get", "new", "as_ref", "drop"])).to_string(),
                            recv: if rng.chance(1, 2) { Some(false) } else { None },
                            args: vec![
                                ("v".into(), Ty::Prim("void")),
                                ("v".into(), Ty::Prim("u8").arr(0)),
                                ("self_".into(), Ty::Item(i).cptr()),
                            ],
                            ret: Some(Ty::Prim("void")),
                            address: if rng.chance(3, 4) { Some(0x10) } else { None },
                            index: if rng.chance(1, 4) { Some(2) } else { None },
                            cc: Some(*rng.pick(&["C", "thiscall", "system"])),
                            doc: Some(" has \"quotes\" and a # and a \\ backslash".into()),
                        };
                        if rng.chance(1, 2) {
                            impl_funcs.push(f);
                        } else if let Some(v) = vftable {
                            let mut f = f;
                            f.address = None;
                            v.funcs.push(f);
                        } else {
                            let mut f = f;
                            f.address = None;
                            *vftable = Some(Vft {
                                funcs: vec![f],
                                size: None,
                            });
                        }
                        done.push("knob:odd_function".to_string());
                    }
                    9 => {
                        *singleton = Some(*rng.pick(&[0usize, 1, usize::MAX >> 1]));
                        fields.clear();
                        done.push("knob:singleton_on_empty_type".to_string());
                    }
                    _ => {
                        // A field that embeds something odd by value.
                        let t = rng.below(n_items);
                        fields.push(Field {
                            vis: true,
                            name: format!("odd{}", fields.len()),
                            ty: match rng.below(4) {
                                0 => Ty::Item(t),
                                1 => Ty::Item(t).arr(rng.below(3)),
                                2 => Ty::Prim("void"),
                                _ => Ty::Item(i).cptr().arr(ptr),
                            },
                            address: None,
                            base: rng.chance(1, 3),
                            doc: None,
                        });
                        done.push("knob:odd_embedded_field".to_string());
                    }
                }
            }
            11..=13 if !enums.is_empty() => {
                let i = *rng.pick(&enums);
                let other = *rng.pick(&enums);
                let ItemKind::Enum {
                    base,
                    variants,
                    flags,
                    singleton,
                } = &mut p.items[i].kind
                else {
                    continue;
                };
                match what {
                    11 => {
                        *base = match rng.below(6) {
                            0 => Ty::Prim("u8").cptr(),
                            1 => Ty::Prim("u32").arr(2),
                            2 => Ty::Prim("void"),
                            3 => Ty::Prim("bool"),
                            4 => Ty::Prim("f64"),
                            _ => Ty::Item(other),
                        };
                        done.push("knob:odd_enum_base".to_string());
                    }
                    12 => {
                        match rng.below(3) {
                            0 => variants.clear(),
                            1 => {
                                for v in variants.iter_mut() {
                                    v.1 = Some(7);
                                    v.2 = true;
                                }
                            }
                            _ => {
                                if let Some(v) = variants.first_mut() {
                                    v.1 = Some(i64::MAX);
                                }
                            }
                        }
                        flags.defaultable = rng.chance(1, 2);
                        done.push("knob:odd_enum_variants".to_string());
                    }
                    _ => {
                        *singleton = Some(0);
                        flags.defaultable = true;
                        done.push("knob:enum_flags".to_string());
                    }
                }
            }
            15 => {
                // A wide type: dozens of fields, some with addresses (ascending or not), some
                // without.
                use crate::project::{Flags, Item};
                let m = rng.below(p.modules.len());
                let idx = p.items.len();
                let n = rng.range(18, 48);
                let ascending = rng.chance(1, 2);
                let mut at = 0usize;
                let fields: Vec<Field> = (0..n)
                    .map(|k| {
                        let address = if rng.chance(1, 2) {
                            Some(if ascending {
                                at
                            } else {
                                rng.below(n * 8)
                            })
                        } else {
                            None
                        };
                        at += 4;
                        Field {
                            vis: true,
                            name: format!("w{k}"),
                            ty: Ty::Prim(if rng.chance(1, 2) { "u32" } else { "u8" }),
                            address,
                            base: false,
                            doc: None,
                        }
                    })
                    .collect();
                p.items.push(Item {
                    module: m,
                    name: format!("Wide{idx}"),
                    vis: true,
                    doc: None,
                    kind: ItemKind::Type {
                        fields,
                        vftable: None,
                        size: None,
                        align: Some(4),
                        packed: rng.chance(1, 2),
                        flags: Flags::default(),
                        singleton: None,
                        impl_funcs: vec![],
                        semicolon_form: false,
                    },
                    csize: 0,
                    calign: 1,
                    vslots: None,
                });
                p.modules[m].order.push(Decl::Item(idx));
                done.push("knob:wide_type".to_string());
            }
            14 => {
                // An impl block for something that is not a type (an enum, an extern type).
                let cands: Vec<usize> = (0..p.items.len())
                    .filter(|i| !matches!(p.items[*i].kind, ItemKind::Type { .. }))
                    .collect();
                if let Some(&i) = cands.first() {
                    let m = p.items[i].module;
                    let name = p.items[i].name.clone();
                    p.modules[m].trailer.push_str(&format!(
                        "impl {name} {{\n    #[address(0x10)]\n    pub fn on_non_type(&self) -> u32;\n}}\n"
                    ));
                    done.push("knob:impl_for_non_type".to_string());
                }
            }
            _ => {
                // Declaration order and duplicates of whole declarations.
                let m = rng.below(p.modules.len());
                if !p.modules[m].order.is_empty() {
                    let k = rng.below(p.modules[m].order.len());
                    let d = p.modules[m].order[k].clone();
                    if matches!(d, Decl::Impl(_) | Decl::Backend(_)) || rng.chance(1, 3) {
                        p.modules[m].order.push(d);
                        done.push("knob:declaration_repeated".to_string());
                    }
                }
            }
        }
    }
    done
}

/// Does the (parsed) input ask for a table larger than `LARGE_TABLE` slots?
fn asks_for_large_table(m: &grammar::Module) -> bool {
    fn large(attrs: &grammar::Attributes) -> bool {
        attrs.0.iter().any(|a| match a {
            grammar::Attribute::Function(name, args) => {
                matches!(name.as_str(), "index" | "size")
                    && args
                        .iter()
                        .any(|e| matches!(e, grammar::Expr::IntLiteral(v) if *v > LARGE_TABLE))
            }
            _ => false,
        })
    }
    m.definitions.iter().any(|d| match &d.inner {
        grammar::ItemDefinitionInner::Type(t) => t.statements.iter().any(|s| match &s.field {
            grammar::TypeField::Vftable(fs) => {
                large(&s.attributes) || fs.iter().any(|f| large(&f.attributes))
            }
            _ => false,
        }),
        _ => false,
    })
}

pub fn generate(seed: u64, tier: Tier) -> Case {
    let mut rng = Rng::new(seed);
    let (max_items, max_modules) = match tier {
        Tier::Quick => (8, 3),
        Tier::Thorough => (24, 6),
    };
    let ptr = if rng.chance(1, 2) { 4 } else { 8 };
    let project = if rng.chance(1, 100) {
        // A lattice of double inheritance: d levels, two bases of the previous level each. The
        // hierarchy it describes has 2^d base sub-objects; whatever is done with them must stay
        // proportional to that number.
        inheritance_lattice(&mut rng, ptr, tier)
    } else if rng.chance(1, 40) {
        // Many small items in a few kilobytes: whatever the build does per item, per field or
        // per pass must stay proportional.
        many_small_items(&mut rng, ptr)
    } else if rng.chance(1, 4) {
        crate::props::c10::gen_graph_project(&mut rng, tier, ptr)
    } else {
        let cfg = GenCfg::swarm(&mut rng, max_items, max_modules);
        gen_valid(&mut rng, &cfg, ptr)
    };
    let mut project = project;
    let base_files = project.files();
    let base = World::from_files(ptr, base_files.clone());
    // Half of the cases bend the project itself (semantic knobs) before any byte is damaged.
    let mut knobs = vec![];
    let base_files = if rng.chance(1, 2) {
        knobs = bend_project(&mut rng, &mut project);
        project.files()
    } else {
        base_files
    };
    let mut files: Vec<(String, Vec<u8>)> = base_files
        .into_iter()
        .map(|(p, t)| (p, t.into_bytes()))
        .collect();

    // Swarm: a random subset of the fault kinds is enabled for this run.
    let enabled: Vec<&str> = {
        let mut v: Vec<&str> = FAULT_KINDS.iter().copied().filter(|_| rng.chance(1, 3)).collect();
        if v.is_empty() {
            v.push(*rng.pick(&FAULT_KINDS));
        }
        v
    };
    let nfaults = if knobs.is_empty() {
        *rng.pick(&[1usize, 1, 1, 2, 2, 3])
    } else {
        *rng.pick(&[0usize, 0, 0, 1])
    };
    let mut world = base.clone();
    let mut applied: Vec<String> = knobs;
    let mut ops: Option<Vec<ApiOp>> = None;
    for _ in 0..nfaults {
        let kind = *rng.pick(&enabled);
        let ok = match kind {
            "env_dir_named_like_module" => {
                world.input.push(Node::Dir {
                    path: format!("dir{}.pyxis", rng.below(10)),
                });
                true
            }
            "env_dangling_symlink" => {
                world.input.push(Node::Symlink {
                    path: format!("link{}.pyxis", rng.below(10)),
                    target: "does/not/exist.pyxis".into(),
                });
                true
            }
            "api_odd_pointer_size" => {
                // `pointer_size` is an argument of the public entry points.
                world.pointer_size = *rng.pick(&[0usize, 1, 2, 3, 16, 1 << 20, 1 << 62, usize::MAX / 2 + 1, usize::MAX - 7, usize::MAX]);
                true
            }
            "env_symlink_loop" => {
                // A directory link that leads back up: `**` must not walk it forever.
                let (path, target) = match rng.below(3) {
                    0 => ("loop".to_string(), ".".to_string()),
                    1 => ("d00/up".to_string(), "..".to_string()),
                    _ => ("a/b".to_string(), "../../a".to_string()),
                };
                world.input.push(Node::Symlink { path, target });
                true
            }
            "env_disk_full" => {
                // Every write of a regular file fails beyond this many bytes.
                world.write_limit = Some(*rng.pick(&[0u64, 1, 64, 300, 1000, 4096]));
                true
            }
            "env_out_dir_is_file" => {
                world.out_is_file = true;
                true
            }
            "env_output_path_is_dir" => {
                if let Some((p, _)) = files.first() {
                    world.pre_out.push(Node::Dir {
                        path: format!("{}.rs", p.trim_end_matches(".pyxis")),
                    });
                    true
                } else {
                    false
                }
            }
            "env_input_path_spelling" => {
                world.in_arg_suffix =
                    (*rng.pick(&["/", "/.", "//", "/../in", "/./"])).to_string();
                true
            }
            "env_hostile_module_name" => {
                if files.is_empty() {
                    false
                } else {
                    let i = rng.below(files.len());
                    // Names that nest when they are read as part of a type path: angle brackets,
                    // function types (whose `->` is not a closing bracket), parentheses, arrays.
                    let unit = *rng.pick(&[
                        "a<", "a<fn()->", "a<(", "a<[", "a<*const ", "a<{", "a<{!", "a<{-", "a<{||", "a<{&",
                    ]);
                    let levels = (*rng.pick(&[20usize, 60, 100])).min(250 / unit.len());
                    let deep = format!("{}a", unit.repeat(levels));
                    let seg = if rng.chance(1, 6) { deep.as_str() } else { *rng.pick(&HOSTILE_SEGMENTS) };
                    let old = files[i].0.trim_end_matches(".pyxis").to_string();
                    let mut segs: Vec<String> = old.split('/').map(|s| s.to_string()).collect();
                    // Or brackets that open in one directory name and close in the next.
                    if seg == deep && rng.chance(1, 3) {
                        let (open, close) = *rng.pick(&[("{", "}"), ("(", ")"), ("[", "]"), ("{(", ")}")]);
                        let k = *rng.pick(&[40usize, 120, 240]) / open.len();
                        let stem = segs.pop().unwrap_or_else(|| "m".into());
                        segs = vec![
                            format!("a<{}x", open.repeat(k)),
                            format!("{}>", close.repeat(k)),
                            stem,
                        ];
                        let new = format!("{}.pyxis", segs.join("/"));
                        if files.iter().any(|(p, _)| *p == new) {
                            false
                        } else {
                            files[i].0 = new;
                            true
                        }
                    } else {
                    // Sometimes every segment nests, in a path of three or four segments.
                    if seg == deep && rng.chance(1, 2) {
                        while segs.len() < 3 {
                            segs.insert(0, String::new());
                        }
                        for s in segs.iter_mut() {
                            *s = deep.clone();
                        }
                    }
                    let dir_ok = !seg.chars().all(|c| c == '.');
                    match rng.below(3) {
                        // the file itself
                        0 => *segs.last_mut().unwrap() = seg.to_string(),
                        // one of its directories (or a new one above it)
                        1 if dir_ok && segs.len() >= 2 => {
                            let k = rng.below(segs.len() - 1);
                            segs[k] = seg.to_string();
                        }
                        1 if dir_ok => segs.insert(0, seg.to_string()),
                        _ => *segs.last_mut().unwrap() = seg.to_string(),
                    }
                    let new = format!("{}.pyxis", segs.join("/"));
                    if files.iter().any(|(p, _)| *p == new) {
                        false
                    } else {
                        files[i].0 = new;
                        true
                    }
                    }
                }
            }
            "api_history" => {
                let n = files.len();
                let mut v: Vec<ApiOp> = vec![];
                for _ in 0..rng.range(0, 4) {
                    let i = rng.below(n.max(1));
                    v.push(match rng.below(7) {
                        0 => ApiOp::AddFile(i),
                        1 => ApiOp::AddStr(i),
                        2 => ApiOp::AddStrAt(i, String::new()),
                        3 => ApiOp::AddStrAt(
                            i,
                            (*rng.pick(&["a::b::c", "a::::b", "::", "x", "m0", "u32", "a b"]))
                                .to_string(),
                        ),
                        4 => ApiOp::AddFileOutside(i),
                        5 => {
                            // A hand-made item: next to a real module, in a module that does not
                            // exist, at the root, colliding with a declared name or not.
                            let module = files
                                .get(i)
                                .map(|(p, _)| p.trim_end_matches(".pyxis").replace('/', "::"))
                                .unwrap_or_default();
                            let name = (*rng.pick(&["T0", "T1", "E2", "Injected", "u32", "T0Vftable"])).to_string();
                            let path = match rng.below(4) {
                                0 => name,
                                1 => format!("{module}::{name}"),
                                2 => format!("no::such::module::{name}"),
                                _ => String::new(),
                            };
                            ApiOp::AddItem {
                                path,
                                size: *rng.pick(&[0usize, 1, 4, 12, usize::MAX, usize::MAX / 2 + 1]),
                                alignment: *rng.pick(&[0usize, 1, 3, 4, 8, usize::MAX]),
                            }
                        }
                        _ => ApiOp::AddStr(i), // twice in a row with the next draw likely
                    });
                }
                ops = Some(v);
                true
            }
            _ => apply_byte_fault(&mut rng, kind, &mut files),
        };
        if ok {
            applied.push(kind.to_string());
        }
    }
    world.input = world
        .input
        .into_iter()
        .filter(|n| !matches!(n, Node::File { path, .. } if path.ends_with(".pyxis")))
        .collect();
    for (p, b) in &files {
        world.input.push(Node::File {
            path: p.clone(),
            content: Blob(b.clone()),
        });
    }

    // Inputs that ask for a large table are allowed to be expensive: skipped and counted.
    let mut notes = vec![];
    let asked_large = files.iter().any(|(_, b)| {
        std::str::from_utf8(b)
            .ok()
            .and_then(|t| crate::model::safe_parse(t).ok())
            .map(|m| asks_for_large_table(&m))
            .unwrap_or(false)
    });
    let mut builds = vec![];
    if asked_large {
        notes.push("skipped:asked_large".to_string());
    } else {
        for _ in 0..(if rng.chance(1, 3) { 2 } else { 1 }) {
            let entry = match &ops {
                Some(ops) => Entry::DriverOps { ops: ops.clone() },
                None => match rng.below(4) {
                    0 | 1 => Entry::LibBuild,
                    2 => Entry::DriverFile {
                        add: any_order(&mut rng),
                    },
                    _ => Entry::DriverStr {
                        add: any_order(&mut rng),
                    },
                },
            };
            builds.push(BuildSpec {
                world: 0,
                entry,
                sched: SchedSpec {
                    unresolved: match rng.below(4) {
                        0 => OrderSpec::Reverse,
                        1 => OrderSpec::Dynamic(rng.next_u64()),
                        _ => OrderSpec::Hashed(rng.next_u64()),
                    },
                    module_write: any_order(&mut rng),
                    definitions: any_order(&mut rng),
                },
                repeat: 1,
            });
        }
    }
    Case {
        property: "C12".into(),
        family: "faulted".into(),
        seed,
        worlds: vec![world, base],
        builds,
        params: Params {
            faults: applied,
            notes,
            ..Default::default()
        },
    }
}

/// Total number of (transitive) base sub-objects over all types of the world, by short name
/// (saturating; cyclic or undefined bases count as nothing).
fn hierarchy_size(files: &[(String, Result<grammar::Module, String>)]) -> usize {
    use std::collections::BTreeMap;
    let mut bases: BTreeMap<String, Vec<String>> = BTreeMap::new();
    for (_, m) in files {
        let Ok(m) = m else { continue };
        for d in &m.definitions {
            let grammar::ItemDefinitionInner::Type(t) = &d.inner else {
                continue;
            };
            let mut b = vec![];
            for s in &t.statements {
                let is_base = s.attributes.0.iter().any(
                    |a| matches!(a, grammar::Attribute::Ident(i) if i.as_str() == "base"),
                );
                if let (true, grammar::TypeField::Field(_, _, grammar::Type::Ident(n))) =
                    (is_base, &s.field)
                {
                    b.push(n.as_str().to_string());
                }
            }
            bases.insert(d.name.as_str().to_string(), b);
        }
    }
    fn paths(
        name: &str,
        bases: &BTreeMap<String, Vec<String>>,
        memo: &mut BTreeMap<String, usize>,
        depth: usize,
    ) -> usize {
        if depth > 64 {
            return 0;
        }
        if let Some(v) = memo.get(name) {
            return *v;
        }
        let mut total = 0usize;
        if let Some(bs) = bases.get(name) {
            for b in bs {
                total = total
                    .saturating_add(1)
                    .saturating_add(paths(b, bases, memo, depth + 1));
            }
        }
        memo.insert(name.to_string(), total);
        total
    }
    let mut memo = BTreeMap::new();
    bases
        .keys()
        .map(|n| paths(n, &bases, &mut memo, 0))
        .fold(0usize, |a, b| a.saturating_add(b))
        .min(1 << 24)
}

/// Where proc-macro2 stops tokenising `text` (line, column + 1), if it does.
fn lex_error_position(text: &str) -> Option<(usize, usize)> {
    match std::panic::catch_unwind(|| text.parse::<proc_macro2::TokenStream>()) {
        Ok(Err(e)) => {
            let lc = e.span().start();
            Some((lc.line, lc.column + 1))
        }
        _ => None,
    }
}

/// `<file_name>:<line>:<column>` in an error text.
fn reported_position(e: &str, file_name: &str) -> Option<(usize, usize)> {
    let at = e.find(&format!("{file_name}:"))? + file_name.len() + 1;
    let mut parts = e[at..].splitn(3, |c: char| !c.is_ascii_digit());
    let l = parts.next()?.parse().ok()?;
    let c = parts.next()?.parse().ok()?;
    Some((l, c))
}

fn parse_all(world: &World) -> Vec<(String, Result<grammar::Module, String>)> {
    world
        .module_files()
        .into_iter()
        .map(|(p, b)| {
            let r = match std::str::from_utf8(&b.0) {
                Ok(t) => crate::model::safe_parse(t),
                Err(e) => Err(format!("utf8: {e}")),
            };
            (p.to_string(), r)
        })
        .collect()
}

pub fn evaluate(case: &Case, results: &[Vec<RunResult>], report: &mut CaseReport) -> Verdict {
    let world = &case.worlds[0];
    for n in &case.params.notes {
        report.count(n, 1);
    }
    let faulted = parse_all(world);
    // Did the faults change anything the build can see?
    let effect = match case.worlds.get(1) {
        Some(base) => {
            let b = parse_all(base);
            b != faulted
                || world.input.len() != base.input.len()
                || world.pointer_size != base.pointer_size
                || world.out_is_file
                || world.write_limit.is_some()
                || !world.pre_out.is_empty()
                || !world.in_arg_suffix.is_empty()
                || case
                    .builds
                    .iter()
                    .any(|b| matches!(b.entry, Entry::DriverOps { .. }))
        }
        None => true,
    };
    for f in &case.params.faults {
        report.count(&format!("fault:{f}"), 1);
        if effect {
            report.count(&format!("fault_with_effect:{f}"), 1);
        }
    }
    if effect && !case.builds.is_empty() {
        report.set("nontrivial_c12", world.digest());
    }
    let parse_failures: Vec<&String> = faulted
        .iter()
        .filter(|(_, r)| matches!(r, Err(e) if !e.starts_with("utf8:")))
        .map(|(p, _)| p)
        .collect();

    let input_bytes = world.input_bytes();
    let hierarchy_entries = hierarchy_size(&faulted);
    for (bi, reps) in results.iter().enumerate() {
        for r in reps {
            match &r.outcome {
                Outcome::Panic { message, location } => {
                    return Verdict::violation(
                        "panic",
                        format!("build {bi}: {message} at {location}"),
                    )
                }
                Outcome::StepBudget => {
                    return Verdict::violation(
                        "step-budget",
                        format!("build {bi}: the resolution loop did not end within its step budget"),
                    )
                }
                Outcome::Ok | Outcome::Err(_) => {}
            }
            // Allocation: generous by design, it exists to catch blow-ups.
            // What the input asks for also includes the base sub-objects of its inheritance
            // hierarchies (a lattice of d levels has 2^d of them, each re-exposed).
            let bound = (64usize << 20)
                + 4096 * (input_bytes + LARGE_TABLE as usize)
                + (64 << 10) * hierarchy_entries;
            report.count("alloc:runs_measured", 1);
            if r.peak_alloc > (16 << 20) {
                report.count("alloc:runs_above_16MiB", 1);
            }
            if r.peak_alloc > bound {
                return Verdict::violation(
                    "memory-blowup",
                    format!(
                        "build {bi}: peak allocation {} bytes for {} input bytes (bound {})",
                        r.peak_alloc, input_bytes, bound
                    ),
                );
            }
            // Parse errors identify file, line and column: when the error of a build that went
            // through `add_file` is a parse error (it says so, or it carries the parser's own
            // message for one of the files that do not parse), it must name that file followed
            // by the line and column the parser reports for it.
            if let Outcome::Err(e) = &r.outcome {
                let through_add_file = matches!(
                    case.builds[bi].entry,
                    Entry::LibBuild | Entry::DriverFile { .. }
                );
                if through_add_file && e.contains("valid UTF-8") {
                    // A file that is not text cannot be parsed: the error names the file.
                    let bad: Vec<String> = world
                        .module_files()
                        .iter()
                        .filter(|(_, b)| std::str::from_utf8(&b.0).is_err())
                        .filter_map(|(p, _)| {
                            std::path::Path::new(p.as_str())
                                .file_name()
                                .map(|f| f.to_string_lossy().into_owned())
                        })
                        .collect();
                    if !bad.is_empty() {
                        report.count("oracle:undecodable_file_identified_checked", 1);
                        if !bad.iter().any(|f| e.contains(f.as_str())) {
                            return Verdict::violation(
                                "undecodable-file-not-identified",
                                format!("build {bi}: none of {bad:?} is named in: {e}"),
                            );
                        }
                    }
                }
                if through_add_file {
                    let mut is_parse_error = e.contains("failed to parse ");
                    let mut positioned = false;
                    for p in &parse_failures {
                        // (with the separator in front: `0.pyxis` is not `m0.pyxis`)
                        let file_name = std::path::Path::new(p.as_str())
                            .file_name()
                            .map(|f| format!("/{}", f.to_string_lossy()))
                            .unwrap_or_default();
                        let Some(text) = world
                            .module_files()
                            .iter()
                            .find(|(q, _)| q == *p)
                            .and_then(|(_, b)| String::from_utf8(b.0.clone()).ok())
                        else {
                            continue;
                        };
                        let Some((line, col, message, at_token)) =
                            crate::model::parse_error_span(&text)
                        else {
                            continue;
                        };
                        if message.len() >= 12 && e.contains(&message) {
                            is_parse_error = true;
                        }
                        // A text that does not even tokenise fails where the tokeniser says
                        // (asked directly, not through pyxis).
                        if let Some((ll, lc)) = lex_error_position(&text)
                            .filter(|_| e.contains("cannot parse string into token stream"))
                        {
                            if e.contains(&format!("{file_name}:{ll}:{lc}")) {
                                positioned = true;
                            } else if let Some((l, c)) = reported_position(e, &file_name) {
                                return Verdict::violation(
                                    "tokeniser-error-position-wrong",
                                    format!(
                                        "build {bi}: {file_name} does not tokenise at {ll}:{lc}, reported at {l}:{c}: {e}"
                                    ),
                                );
                            }
                            continue;
                        }
                        if at_token {
                            // The parser points at a token: that is the position.
                            if e.contains(&format!("{file_name}:{line}:{col}")) {
                                positioned = true;
                            }
                        } else if let Some((l, _c)) = reported_position(e, &file_name) {
                            // The input ends too early: there is no token to point at, and any
                            // position is fine as long as the error lies there or beyond —
                            // the lines up to and including the reported one must not already
                            // be a complete, valid module.
                            let prefix: String =
                                text.lines().take(l).collect::<Vec<_>>().join("\n");
                            let nlines = text.lines().count().max(1);
                            if l >= 1 && l <= nlines + 1 {
                                if l < nlines && crate::model::safe_parse(&prefix).is_ok() {
                                    return Verdict::violation(
                                        "parse-error-position-too-early",
                                        format!(
                                            "build {bi}: {file_name} is reported to fail at line {l}, but its first {l} line(s) are a valid module on their own and the file has {nlines}: {e}"
                                        ),
                                    );
                                }
                                positioned = true;
                            }
                        }
                    }
                    if is_parse_error {
                        report.count("oracle:parse_error_position_checked", 1);
                        if !positioned {
                            return Verdict::violation(
                                "parse-error-without-position",
                                format!("build {bi}: {e}"),
                            );
                        }
                    }
                }
            }
        }
    }
    Verdict::Held
}
