//! Per-property workloads and oracles.

pub mod c09;
pub mod c10;

use crate::case::{Case, CaseReport, Verdict};
use crate::plan::Tier;
use crate::run::RunResult;

pub const CLAIMED: [&str; 2] = ["C09", "C10"];

pub fn generate(property: &str, seed: u64, tier: Tier) -> Case {
    match property {
        "C09" => c09::generate(seed, tier),
        "C10" => c10::generate(seed, tier),
        other => panic!("unknown property {other}"),
    }
}

pub fn evaluate(case: &Case, results: &[Vec<RunResult>], report: &mut CaseReport) -> Verdict {
    match case.property.as_str() {
        "C09" => c09::evaluate(case, results),
        "C10" => c10::evaluate(case, results, report),
        other => panic!("unknown property {other}"),
    }
}

/// Number of cases per tier.
pub fn budget(property: &str, tier: Tier) -> u64 {
    match (property, tier) {
        ("C09", Tier::Quick) => 12_000,
        ("C09", Tier::Thorough) => 400_000,
        ("C10", Tier::Quick) => 30_000,
        ("C10", Tier::Thorough) => 1_500_000,
        (_, Tier::Quick) => 10_000,
        (_, Tier::Thorough) => 300_000,
    }
}

/// Probes that the workload of a property is expected to reach at least once per check.
pub fn expected_probes(property: &str) -> Vec<&'static str> {
    match property {
        "C09" | "C10" | "C19" => vec![
            "defer:field_type_unresolved",
            "defer:region_size_unknown",
            "vftable:item_inserted",
            "bail:no_progress",
        ],
        _ => vec![],
    }
}

/// Name of the digest set whose size is reported as `distinct_nontrivial`.
pub fn nontrivial_set(_property: &str) -> &'static str {
    "nontrivial_world"
}

pub fn rule(property: &str) -> String {
    let common = "cases are drawn from one xoshiro256** stream per case, seeded by mix(VERIF_SEED, property, case index); a case is one generated project (world) plus the builds to run on it under explicit schedules. ";
    let specific = match property {
        "C09" => "distinct_nontrivial counts distinct worlds (digest of all input bytes and environment) that declare at least two types/enums AND in which at least two different order traces were actually served at the seams (so the comparison between schedules was not vacuous).",
        "C10" => "distinct_nontrivial counts distinct dependency-graph worlds with at least two types/enums in which at least two different resolution-order traces were served.",
        _ => "distinct_nontrivial counts distinct worlds with at least two items and at least two distinct order traces served.",
    };
    format!("{common}{specific}")
}

pub fn assumptions(property: &str) -> Vec<String> {
    let mut v = vec![
        "sampled, not exhaustive: a clean batch is evidence, not proof".to_string(),
        "the hooks H1-H3 are the only places where hash iteration order reaches an output (audited by `selfcheck audit` against real RandomState orders)".to_string(),
        "determinism of the harness itself is established by `selfcheck determinism` (same seeds, different process and worker counts, identical event-log digests)".to_string(),
    ];
    match property {
        "C10" => v.push("the reference model is computed from the abstract modules returned by pyxis's own parser; a parser defect could mislead model and implementation alike".into()),
        _ => {}
    }
    v
}
