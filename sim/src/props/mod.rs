//! Per-property workloads and oracles.

pub mod c09;
pub mod c10;
pub mod c12;
pub mod c14;
pub mod c19;

use crate::case::{Case, CaseReport, Verdict};
use crate::plan::Tier;
use crate::run::RunResult;

pub const CLAIMED: [&str; 5] = ["C09", "C10", "C12", "C14", "C19"];

pub fn generate(property: &str, seed: u64, tier: Tier) -> Case {
    match property {
        "C09" => c09::generate(seed, tier),
        "C10" => c10::generate(seed, tier),
        "C12" => c12::generate(seed, tier),
        "C14" => c14::generate(seed, tier),
        "C19" => c19::generate(seed, tier),
        other => panic!("unknown property {other}"),
    }
}

pub fn evaluate(case: &Case, results: &[Vec<RunResult>], report: &mut CaseReport) -> Verdict {
    match case.property.as_str() {
        "C09" => {
            for n in &case.params.notes {
                if let Some(rest) = n.strip_prefix("exhaustive:") {
                    // "<n>_items:<k>_orders"
                    let orders = rest
                        .split(':')
                        .nth(1)
                        .and_then(|s| s.trim_end_matches("_orders").parse::<u64>().ok())
                        .unwrap_or(0);
                    report.count("exhaustive:worlds_with_every_static_resolution_order", 1);
                    report.count("exhaustive:orders_run", orders);
                }
            }
            c09::evaluate(case, results)
        }
        "C10" => c10::evaluate(case, results, report),
        "C12" => c12::evaluate(case, results, report),
        "C14" => c14::evaluate(case, results, report),
        "C19" => c19::evaluate(case, results, report),
        other => panic!("unknown property {other}"),
    }
}

/// Number of cases per tier.
pub fn budget(property: &str, tier: Tier) -> u64 {
    match (property, tier) {
        ("C09", Tier::Quick) => 9_000,
        ("C09", Tier::Thorough) => 60_000,
        ("C10", Tier::Quick) => 30_000,
        ("C10", Tier::Thorough) => 300_000,
        ("C12", Tier::Quick) => 80_000,
        ("C12", Tier::Thorough) => 2_000_000,
        ("C14", Tier::Quick) => 20_000,
        ("C14", Tier::Thorough) => 300_000,
        ("C19", Tier::Quick) => 8_000,
        ("C19", Tier::Thorough) => 200_000,
        (_, Tier::Quick) => 10_000,
        (_, Tier::Thorough) => 300_000,
    }
}

/// Probes that the workload of a property is expected to reach at least once per check.
pub fn expected_probes(property: &str) -> Vec<&'static str> {
    match property {
        "C19" => vec!["defer:region_size_unknown", "vftable:item_inserted"],
        "C09" | "C10" => vec![
            "defer:field_type_unresolved",
            "defer:region_size_unknown",
            "vftable:item_inserted",
            "bail:no_progress",
        ],
        _ => vec![],
    }
}

/// Name of the digest set whose size is reported as `distinct_nontrivial`.
pub fn nontrivial_set(property: &str) -> &'static str {
    match property {
        "C12" => "nontrivial_c12",
        "C14" => "nontrivial_c14",
        "C19" => "nontrivial_c19",
        _ => "nontrivial_world",
    }
}

pub fn rule(property: &str) -> String {
    let common = "cases are drawn from one xoshiro256** stream per case, seeded by mix(VERIF_SEED, property, case index); a case is one generated project (world) plus the builds to run on it under explicit schedules. ";
    let specific = match property {
        "C09" => "distinct_nontrivial counts distinct worlds (digest of all input bytes and environment) that declare at least two types/enums AND in which at least two different order traces were actually served at the seams (so the comparison between schedules was not vacuous). Family exhaustive_small runs every one of the n! static resolution priorities of a world with n <= 6 user items (counters exhaustive:*); everything else is sampled.",
        "C14" => "distinct_nontrivial counts distinct worlds (input bytes + environment + pre-existing output state) in which at least one environment fault or name collision was present AND the build reached a checked verdict (inventory of every output file compared with the declarations, or the expected error for a collision).",
        "C19" => "distinct_nontrivial counts distinct base worlds whose edit chain produced at least two different worlds, all accepted, with a non-empty set of observed output files that was compared across the chain.",
        "C12" => "distinct_nontrivial counts distinct faulted worlds in which the injected faults had an effect visible to the build (the parse result of some file, the set of input nodes, the output-directory state, the path spelling or the API call history differs from the un-faulted base world) and that were actually executed (not skipped as asking for a large table).",
        "C10" => "distinct_nontrivial counts distinct dependency-graph worlds with at least two types/enums in which at least two different resolution-order traces were served.",
        _ => "distinct_nontrivial counts distinct worlds with at least two items and at least two distinct order traces served.",
    };
    format!("{common}{specific}")
}

pub fn assumptions(property: &str) -> Vec<String> {
    let mut v = vec![
        "sampled, not exhaustive: a clean batch is evidence, not proof".to_string(),
        "the hooks H1-H5 are the only places where hash iteration order reaches an output or an error text (audited by `selfcheck audit` against real RandomState orders)".to_string(),
        "determinism of the harness itself is established by `selfcheck determinism` (same seeds, different process and worker counts, identical event-log digests)".to_string(),
    ];
    match property {
        "C10" => v.push("the reference model is computed from the abstract modules returned by pyxis's own parser; a parser defect could mislead model and implementation alike".into()),
        "C14" => v.push("what a module declares is read through pyxis's own parser, cross-checked against a token-level census of declarations and a token-level reader of backend blocks that belong to the harness".into()),
        "C12" => {
            v.push("the build thread's 512 KiB stack in this optimised simulator stands in for Rust's default 2 MiB thread stack in an unoptimised build; the ratio of frame sizes is an estimate".into());
            v.push("inputs that ask for a table of more than 10 000 slots (vftable #[index]/#[size]) are skipped and counted: the property allows work proportional to the tables asked for".into());
        }
        _ => {}
    }
    v
}
