//! A worker process: runs cases `offset, offset+stride, …` one at a time, each on a fresh
//! short-lived thread, and reports one line per case on stdout.
//!
//! Protocol (one line each): `S <index>` before a case starts, `E <json CaseReport>` after it,
//! `V <index> <path>` when a violation's case file was written, `DONE` at the end.

use std::io::Write;

use crate::case::{execute, measure, Case, CaseReport, Verdict};
use crate::plan::Tier;
use crate::rng::mix;
use crate::run::Scratch;

/// Stack of the thread pyxis runs on. The simulator is an optimised build, whose frames are a
/// few times smaller than those of the unoptimised builds pyxis usually runs as (a build
/// script, a test): 512 KiB here stands in for Rust's default 2 MiB thread stack there.
pub const BUILD_STACK: usize = 512 * 1024;

pub fn case_seed(base: u64, property: &str, index: u64) -> u64 {
    mix(mix(base, crate::rng::hash_str(0, property)), index)
}

/// Runs one case on a fresh thread (proc-macro2 keeps a thread-local source map that grows with
/// every parse; a short-lived thread keeps workers from bloating) and evaluates its oracle.
pub fn run_case(scratch: &mut Scratch, case: &Case, index: u64) -> Option<(Verdict, CaseReport)> {
    std::thread::scope(|s| {
        // pyxis itself runs on a thread with a small stack (see BUILD_STACK): what it needs must
        // fit in there, an overflow aborts the process and is reported as a killed case. The
        // harness's own work (models, syn over the output) gets a roomy stack.
        let results = std::thread::Builder::new()
            .stack_size(BUILD_STACK)
            .spawn_scoped(s, || execute(scratch, case))
            .expect("spawn build thread")
            .join()
            .ok()?;
        std::thread::Builder::new()
            .stack_size(256 << 20)
            .spawn_scoped(s, move || {
                let mut report = CaseReport {
                    index,
                    family: case.family.clone(),
                    ..Default::default()
                };
                measure(case, &results, &mut report);
                let verdict = crate::props::evaluate(case, &results, &mut report);
                report.status = verdict.status().to_string();
                match &verdict {
                    Verdict::Violation { class, detail } => {
                        report.class = Some(class.clone());
                        report.detail = Some(detail.clone());
                    }
                    Verdict::Vacuous(why) => {
                        report.detail = Some(crate::run::truncate(why, 200));
                    }
                    Verdict::Held => {}
                }
                (verdict, report)
            })
            .expect("spawn case thread")
            .join()
            .ok()
    })
}

pub fn limit_address_space(bytes: u64) {
    unsafe {
        let lim = libc::rlimit {
            rlim_cur: bytes,
            rlim_max: bytes,
        };
        libc::setrlimit(libc::RLIMIT_AS, &lim);
        // No core dumps from deliberate aborts.
        let zero = libc::rlimit {
            rlim_cur: 0,
            rlim_max: 0,
        };
        libc::setrlimit(libc::RLIMIT_CORE, &zero);
    }
}

pub struct WorkerArgs {
    pub property: String,
    pub tier: Tier,
    pub seed: u64,
    pub offset: u64,
    pub stride: u64,
    pub total: u64,
    pub raw_dir: String,
}

pub fn worker_main(args: WorkerArgs) {
    limit_address_space(4 << 30);
    crate::run::install_panic_hook();
    crate::case::HEARTBEAT.store(true, std::sync::atomic::Ordering::Relaxed);
    let mut scratch = Scratch::new();
    let stdout = std::io::stdout();
    let mut index = args.offset;
    while index < args.total {
        {
            let mut out = stdout.lock();
            // The supervisor is gone when its end of the pipe is: stop instead of running on.
            if writeln!(out, "S {index}").is_err() || out.flush().is_err() {
                std::process::exit(0);
            }
        }
        let seed = case_seed(args.seed, &args.property, index);
        // A panic in the harness's own code (generator, oracle) must never look like a crash
        // of pyxis: it is reported as a harness error and the check exits 2.
        let generated = std::panic::catch_unwind(|| {
            crate::props::generate(&args.property, seed, args.tier)
        });
        let case = match generated {
            Ok(c) => c,
            Err(_) => {
                let mut out = stdout.lock();
                let _ = writeln!(out, "H {index} the case generator panicked");
                let _ = out.flush();
                std::process::exit(2);
            }
        };
        let (verdict, report) = match run_case(&mut scratch, &case, index) {
            Some(x) => x,
            None => {
                let mut out = stdout.lock();
                let _ = writeln!(out, "H {index} the oracle panicked");
                let _ = out.flush();
                std::process::exit(2);
            }
        };
        let mut out = stdout.lock();
        if let Verdict::Violation { .. } = verdict {
            let path = format!(
                "{}/{}-{}-{}.json",
                args.raw_dir, args.property, args.seed, index
            );
            let _ = std::fs::create_dir_all(&args.raw_dir);
            let _ = std::fs::write(&path, crate::replay::to_json(&case, &verdict));
            let _ = writeln!(out, "V {index} {path}");
        }
        let _ = writeln!(out, "E {}", serde_json::to_string(&report).unwrap());
        let _ = out.flush();
        index += args.stride;
    }
    let mut out = stdout.lock();
    let _ = writeln!(out, "DONE");
    let _ = out.flush();
}
