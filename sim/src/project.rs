//! Abstract pyxis projects (the workload) and their concrete syntax.
//!
//! The generator side knows the layout discipline needed for pyxis to *accept* a project; that
//! is generator knowledge, not an oracle: when pyxis rejects an intended-valid project the run
//! is counted vacuous and never reported.

use std::collections::{BTreeMap, BTreeSet};
use std::fmt::Write as _;

use crate::rng::Rng;

#[derive(Clone, Debug, PartialEq, Eq)]
pub enum Ty {
    Prim(&'static str),
    /// Index into `Project::items`.
    Item(usize),
    /// A raw name: undefined, or one that only comes into existence during resolution.
    Name(String),
    ConstPtr(Box<Ty>),
    MutPtr(Box<Ty>),
    Array(Box<Ty>, usize),
    Unknown(usize),
}

impl Ty {
    pub fn cptr(self) -> Ty {
        Ty::ConstPtr(Box::new(self))
    }
    pub fn mptr(self) -> Ty {
        Ty::MutPtr(Box::new(self))
    }
    pub fn arr(self, n: usize) -> Ty {
        Ty::Array(Box::new(self), n)
    }
    pub fn items(&self, out: &mut BTreeSet<usize>) {
        match self {
            Ty::Item(i) => {
                out.insert(*i);
            }
            Ty::ConstPtr(t) | Ty::MutPtr(t) | Ty::Array(t, _) => t.items(out),
            _ => {}
        }
    }
    /// The item embedded by value (through arrays), if any.
    pub fn by_value_item(&self) -> Option<usize> {
        match self {
            Ty::Item(i) => Some(*i),
            Ty::Array(t, _) => t.by_value_item(),
            _ => None,
        }
    }
}

pub const PRIMS: [(&str, usize); 13] = [
    ("bool", 1),
    ("u8", 1),
    ("u16", 2),
    ("u32", 4),
    ("u64", 8),
    ("u128", 16),
    ("i8", 1),
    ("i16", 2),
    ("i32", 4),
    ("i64", 8),
    ("i128", 16),
    ("f32", 4),
    ("f64", 8),
];

#[derive(Clone, Debug, PartialEq, Eq)]
pub struct Field {
    pub vis: bool,
    pub name: String,
    pub ty: Ty,
    pub address: Option<usize>,
    pub base: bool,
    pub doc: Option<String>,
}

#[derive(Clone, Debug, PartialEq, Eq)]
pub struct Func {
    pub vis: bool,
    pub name: String,
    /// None: no receiver; Some(false): `&self`; Some(true): `&mut self`.
    pub recv: Option<bool>,
    pub args: Vec<(String, Ty)>,
    pub ret: Option<Ty>,
    pub address: Option<usize>,
    pub index: Option<usize>,
    pub cc: Option<&'static str>,
    pub doc: Option<String>,
}

#[derive(Clone, Debug, PartialEq, Eq, Default)]
pub struct Flags {
    pub copyable: bool,
    pub cloneable: bool,
    pub defaultable: bool,
}

#[derive(Clone, Debug, PartialEq, Eq)]
pub struct Vft {
    pub funcs: Vec<Func>,
    pub size: Option<usize>,
}

#[derive(Clone, Debug, PartialEq, Eq)]
pub enum ItemKind {
    Type {
        fields: Vec<Field>,
        vftable: Option<Vft>,
        size: Option<usize>,
        align: Option<usize>,
        packed: bool,
        flags: Flags,
        singleton: Option<usize>,
        impl_funcs: Vec<Func>,
        /// `type T;` instead of `type T {}` (only when there are no fields).
        semicolon_form: bool,
    },
    Enum {
        base: Ty,
        variants: Vec<(String, Option<i64>, bool)>,
        flags: Flags,
        singleton: Option<usize>,
    },
    Extern {
        size: usize,
        align: usize,
    },
}

#[derive(Clone, Debug, PartialEq, Eq)]
pub struct Item {
    pub module: usize,
    pub name: String,
    pub vis: bool,
    pub doc: Option<String>,
    pub kind: ItemKind,
    /// Generator's own idea of the size/alignment (0/1 when unknown, e.g. in graph worlds).
    pub csize: usize,
    pub calign: usize,
    /// Number of vftable slots visible on this type (own or inherited), for derived types.
    pub vslots: Option<Vec<Func>>,
}

#[derive(Clone, Debug, PartialEq, Eq)]
pub struct ExternValue {
    pub vis: bool,
    pub name: String,
    pub ty: Ty,
    pub address: Option<usize>,
}

#[derive(Clone, Debug, PartialEq, Eq)]
pub struct BackendBlock {
    pub name: String,
    pub prologue: Option<String>,
    pub epilogue: Option<String>,
    pub braced: bool,
    /// Further `(is_prologue, text)` entries of a braced block, after the first ones.
    pub more: Vec<(bool, String)>,
}

#[derive(Clone, Debug, PartialEq, Eq)]
pub enum Decl {
    Item(usize),
    Impl(usize),
    ExternValue(usize),
    Backend(usize),
}

#[derive(Clone, Debug, PartialEq, Eq, Default)]
pub struct Module {
    /// Directory components followed by the file stem.
    pub path: Vec<String>,
    pub doc: Option<String>,
    /// Extra `use` lines (the ones needed for item references are derived when printing).
    pub extra_uses: Vec<String>,
    pub order: Vec<Decl>,
    pub extern_values: Vec<ExternValue>,
    pub backends: Vec<BackendBlock>,
    /// Import other modules' items by `use path::Name;` (true) or `use path;` (false).
    pub type_imports: bool,
    /// Raw text appended at the end of the file.
    pub trailer: String,
    /// Removed from the project (kept in the vector so that indices stay valid).
    pub deleted: bool,
}

impl Module {
    pub fn rel_path(&self) -> String {
        format!("{}.pyxis", self.path.join("/"))
    }
    pub fn item_path(&self) -> String {
        self.path.join("::")
    }
    pub fn out_path(&self) -> String {
        format!("{}.rs", self.path.join("/"))
    }
}

#[derive(Clone, Debug, PartialEq, Eq)]
pub struct Project {
    pub ptr: usize,
    pub modules: Vec<Module>,
    pub items: Vec<Item>,
    /// Number style seed, so that the same project always prints the same text.
    pub style: u64,
}

// ---------------------------------------------------------------------------------------------
// Printing

struct Style {
    rng: Rng,
}
impl Style {
    fn int(&mut self, v: usize) -> String {
        match self.rng.below(5) {
            0 => format!("0x{v:x}"),
            1 => format!("0x{v:X}"),
            2 if v >= 1000 => {
                let s = v.to_string();
                let (a, b) = s.split_at(s.len() - 3);
                format!("{a}_{b}")
            }
            _ => v.to_string(),
        }
    }
}

impl Project {
    pub fn ty_size_align(&self, ty: &Ty) -> (usize, usize) {
        match ty {
            Ty::Prim("void") => (0, 1),
            Ty::Prim(p) => {
                let s = PRIMS.iter().find(|(n, _)| n == p).map(|x| x.1).unwrap_or(0);
                (s, s.max(1))
            }
            Ty::Item(i) => (self.items[*i].csize, self.items[*i].calign),
            Ty::Name(_) => (0, 1),
            Ty::ConstPtr(_) | Ty::MutPtr(_) => (self.ptr, self.ptr),
            Ty::Array(t, n) => {
                let (s, a) = self.ty_size_align(t);
                (s * n, a)
            }
            Ty::Unknown(n) => (*n, 1),
        }
    }

    pub fn ty_str(&self, ty: &Ty) -> String {
        match ty {
            Ty::Prim(p) => p.to_string(),
            Ty::Item(i) => self.items[*i].name.clone(),
            Ty::Name(n) => n.clone(),
            Ty::ConstPtr(t) => format!("*const {}", self.ty_str(t)),
            Ty::MutPtr(t) => format!("*mut {}", self.ty_str(t)),
            Ty::Array(t, n) => format!("[{}; {}]", self.ty_str(t), n),
            Ty::Unknown(n) => format!("unknown<{n}>"),
        }
    }

    fn func_str(&self, f: &Func, st: &mut Style, indent: &str) -> String {
        let mut s = String::new();
        if let Some(doc) = &f.doc {
            for l in doc.lines() {
                let _ = writeln!(s, "{indent}///{l}");
            }
        }
        let mut attrs = vec![];
        if let Some(a) = f.address {
            attrs.push(format!("address({})", st.int(a)));
        }
        if let Some(i) = f.index {
            attrs.push(format!("index({})", st.int(i)));
        }
        if let Some(cc) = f.cc {
            attrs.push(format!("calling_convention(\"{cc}\")"));
        }
        if !attrs.is_empty() {
            if st.rng.chance(1, 2) {
                let _ = writeln!(s, "{indent}#[{}]", attrs.join(", "));
            } else {
                for a in &attrs {
                    let _ = writeln!(s, "{indent}#[{a}]");
                }
            }
        }
        let mut args = vec![];
        match f.recv {
            Some(false) => args.push("&self".to_string()),
            Some(true) => args.push("&mut self".to_string()),
            None => {}
        }
        for (n, t) in &f.args {
            args.push(format!("{n}: {}", self.ty_str(t)));
        }
        let _ = write!(
            s,
            "{indent}{}fn {}({})",
            if f.vis { "pub " } else { "" },
            f.name,
            args.join(", ")
        );
        if let Some(r) = &f.ret {
            let _ = write!(s, " -> {}", self.ty_str(r));
        }
        s.push_str(";\n");
        s
    }

    fn item_str(&self, it: &Item, st: &mut Style) -> String {
        let mut s = String::new();
        if let Some(doc) = &it.doc {
            for l in doc.lines() {
                let _ = writeln!(s, "///{l}");
            }
        }
        let vis = if it.vis { "pub " } else { "" };
        match &it.kind {
            ItemKind::Type {
                fields,
                vftable,
                size,
                align,
                packed,
                flags,
                singleton,
                semicolon_form,
                ..
            } => {
                let mut attrs = vec![];
                if let Some(x) = size {
                    attrs.push(format!("size({})", st.int(*x)));
                }
                if let Some(x) = align {
                    attrs.push(format!("align({})", st.int(*x)));
                }
                if *packed {
                    attrs.push("packed".to_string());
                }
                if let Some(x) = singleton {
                    attrs.push(format!("singleton({})", st.int(*x)));
                }
                if flags.copyable {
                    attrs.push("copyable".into());
                }
                if flags.cloneable {
                    attrs.push("cloneable".into());
                }
                if flags.defaultable {
                    attrs.push("defaultable".into());
                }
                print_attrs(&mut s, &attrs, st, "");
                if fields.is_empty() && vftable.is_none() && *semicolon_form {
                    let _ = writeln!(s, "{vis}type {};", it.name);
                    return s;
                }
                let _ = writeln!(s, "{vis}type {} {{", it.name);
                if let Some(v) = vftable {
                    if let Some(n) = v.size {
                        let _ = writeln!(s, "    #[size({})]", st.int(n));
                    }
                    s.push_str("    vftable {\n");
                    for f in &v.funcs {
                        s.push_str(&self.func_str(f, st, "        "));
                    }
                    s.push_str("    },\n");
                }
                for f in fields {
                    if let Some(doc) = &f.doc {
                        for l in doc.lines() {
                            let _ = writeln!(s, "    ///{l}");
                        }
                    }
                    let mut attrs = vec![];
                    if let Some(a) = f.address {
                        attrs.push(format!("address({})", st.int(a)));
                    }
                    if f.base {
                        attrs.push("base".to_string());
                    }
                    print_attrs(&mut s, &attrs, st, "    ");
                    let _ = writeln!(
                        s,
                        "    {}{}: {},",
                        if f.vis { "pub " } else { "" },
                        f.name,
                        self.ty_str(&f.ty)
                    );
                }
                s.push_str("}\n");
            }
            ItemKind::Enum {
                base,
                variants,
                flags,
                singleton,
            } => {
                let mut attrs = vec![];
                if let Some(x) = singleton {
                    attrs.push(format!("singleton({})", st.int(*x)));
                }
                if flags.copyable {
                    attrs.push("copyable".into());
                }
                if flags.cloneable {
                    attrs.push("cloneable".into());
                }
                if flags.defaultable {
                    attrs.push("defaultable".into());
                }
                print_attrs(&mut s, &attrs, st, "");
                let _ = writeln!(s, "{vis}enum {}: {} {{", it.name, self.ty_str(base));
                for (n, v, d) in variants {
                    if *d {
                        s.push_str("    #[default]\n");
                    }
                    match v {
                        Some(v) if *v < 0 => {
                            let _ = writeln!(s, "    {n} = {v},");
                        }
                        Some(v) => {
                            let _ = writeln!(s, "    {n} = {},", st.int(*v as usize));
                        }
                        None => {
                            let _ = writeln!(s, "    {n},");
                        }
                    }
                }
                s.push_str("}\n");
            }
            ItemKind::Extern { size, align } => {
                let attrs = vec![
                    format!("size({})", st.int(*size)),
                    format!("align({})", st.int(*align)),
                ];
                print_attrs(&mut s, &attrs, st, "");
                let _ = writeln!(s, "extern type {};", it.name);
            }
        }
        s
    }

    /// Items (by index) that module `m` mentions in any position.
    pub fn mentioned_items(&self, m: usize) -> BTreeSet<usize> {
        let mut out = BTreeSet::new();
        for (i, it) in self.items.iter().enumerate() {
            if it.module != m {
                continue;
            }
            let _ = i;
            match &it.kind {
                ItemKind::Type {
                    fields,
                    vftable,
                    impl_funcs,
                    ..
                } => {
                    for f in fields {
                        f.ty.items(&mut out);
                    }
                    let vf = vftable.iter().flat_map(|v| v.funcs.iter());
                    for f in vf.chain(impl_funcs.iter()) {
                        for (_, t) in &f.args {
                            t.items(&mut out);
                        }
                        if let Some(r) = &f.ret {
                            r.items(&mut out);
                        }
                    }
                }
                ItemKind::Enum { base, .. } => base.items(&mut out),
                ItemKind::Extern { .. } => {}
            }
        }
        for ev in &self.modules[m].extern_values {
            ev.ty.items(&mut out);
        }
        out
    }

    pub fn use_lines(&self, m: usize) -> Vec<String> {
        let module = &self.modules[m];
        let mut lines: Vec<String> = vec![];
        let mut seen_modules = BTreeSet::new();
        for i in self.mentioned_items(m) {
            let it = &self.items[i];
            if it.module == m {
                continue;
            }
            let target = &self.modules[it.module];
            if module.type_imports {
                lines.push(format!("use {}::{};", target.item_path(), it.name));
            } else if seen_modules.insert(it.module) {
                lines.push(format!("use {};", target.item_path()));
            }
        }
        lines.extend(module.extra_uses.iter().cloned());
        lines
    }

    pub fn module_text(&self, m: usize) -> String {
        let module = &self.modules[m];
        let mut st = Style {
            rng: Rng::new(crate::rng::mix(self.style, m as u64)),
        };
        let mut s = String::new();
        if let Some(doc) = &module.doc {
            for l in doc.lines() {
                let _ = writeln!(s, "//!{l}");
            }
            s.push('\n');
        }
        for l in self.use_lines(m) {
            s.push_str(&l);
            s.push('\n');
        }
        for d in &module.order {
            match d {
                Decl::Item(i) => s.push_str(&self.item_str(&self.items[*i], &mut st)),
                Decl::Impl(i) => {
                    let it = &self.items[*i];
                    if let ItemKind::Type { impl_funcs, .. } = &it.kind {
                        // Sometimes as two blocks: a type may have more than one impl block.
                        let split = if impl_funcs.len() >= 2
                            && crate::rng::mix(self.style, *i as u64) % 4 == 0
                        {
                            1 + (crate::rng::mix(self.style, 77 + *i as u64) as usize)
                                % (impl_funcs.len() - 1)
                        } else {
                            impl_funcs.len()
                        };
                        for part in [&impl_funcs[..split], &impl_funcs[split..]] {
                            if part.is_empty() {
                                continue;
                            }
                            let _ = writeln!(s, "impl {} {{", it.name);
                            for f in part {
                                s.push_str(&self.func_str(f, &mut st, "    "));
                            }
                            s.push_str("}\n");
                        }
                    }
                }
                Decl::ExternValue(k) => {
                    let ev = &module.extern_values[*k];
                    if let Some(a) = ev.address {
                        let _ = writeln!(s, "#[address({})]", st.int(a));
                    }
                    let _ = writeln!(
                        s,
                        "{}extern {}: {};",
                        if ev.vis { "pub " } else { "" },
                        ev.name,
                        self.ty_str(&ev.ty)
                    );
                }
                Decl::Backend(k) => {
                    let b = &module.backends[*k];
                    if b.braced {
                        let _ = writeln!(s, "backend {} {{", b.name);
                        if let Some(p) = &b.prologue {
                            let _ = writeln!(s, "    prologue r#\"\n{p}\n\"#;");
                        }
                        if let Some(e) = &b.epilogue {
                            let _ = writeln!(s, "    epilogue r#\"\n{e}\n\"#;");
                        }
                        for (is_prologue, t) in &b.more {
                            let kind = if *is_prologue { "prologue" } else { "epilogue" };
                            let _ = writeln!(s, "    {kind} r#\"\n{t}\n\"#;");
                        }
                        s.push_str("}\n");
                    } else if let Some(p) = &b.prologue {
                        let _ = writeln!(s, "backend {} prologue r#\"{p}\"#;", b.name);
                    } else if let Some(e) = &b.epilogue {
                        if e.contains('"') || e.contains('\\') || e.contains('\n') {
                            let _ = writeln!(s, "backend {} epilogue r#\"{e}\"#;", b.name);
                        } else {
                            let _ = writeln!(s, "backend {} epilogue \"{e}\";", b.name);
                        }
                    }
                }
            }
            if st.rng.chance(1, 2) {
                s.push('\n');
            }
        }
        s.push_str(&module.trailer);
        s
    }

    pub fn files(&self) -> Vec<(String, String)> {
        (0..self.modules.len())
            .filter(|m| !self.modules[*m].deleted)
            .map(|m| (self.modules[m].rel_path(), self.module_text(m)))
            .collect()
    }

    pub fn full_item_path(&self, i: usize) -> String {
        let it = &self.items[i];
        let mp = self.modules[it.module].item_path();
        if mp.is_empty() {
            it.name.clone()
        } else {
            format!("{mp}::{}", it.name)
        }
    }

    /// The vftable slots a type exposes (own block, or inherited from the first base).
    pub fn visible_vftable(&self, i: usize) -> Option<Vec<Func>> {
        self.items[i].vslots.clone()
    }
}

fn print_attrs(s: &mut String, attrs: &[String], st: &mut Style, indent: &str) {
    if attrs.is_empty() {
        return;
    }
    if st.rng.chance(1, 2) {
        let _ = writeln!(s, "{indent}#[{}]", attrs.join(", "));
    } else {
        for a in attrs {
            let _ = writeln!(s, "{indent}#[{a}]");
        }
    }
}

// ---------------------------------------------------------------------------------------------
// Generation of accepted projects

#[derive(Clone, Debug)]
pub struct GenCfg {
    pub max_modules: usize,
    pub max_items: usize,
    pub max_fields: usize,
    pub max_depth: usize,
    pub p_vftable: usize,     // percent
    pub p_base: usize,        // percent
    pub p_enum: usize,        // percent of items that are enums
    pub p_extern: usize,      // percent of items that are extern types
    pub p_packed: usize,      // percent of types that are packed
    pub p_impl: usize,        // percent of types with an impl block
    pub p_cross_module: usize, // percent chance a reference may leave the module
    pub extern_values: bool,
    pub backends: bool,
    pub docs: bool,
    pub flags: bool,
    /// Size outlier: one dimension (fields, virtual functions, enum variants, impl functions,
    /// extern values, backend blocks) is an order of magnitude larger than usual.
    pub outlier: usize,
}

impl GenCfg {
    /// Swarm configuration: every knob drawn per run.
    pub fn swarm(rng: &mut Rng, max_items: usize, max_modules: usize) -> GenCfg {
        let pct = |rng: &mut Rng| *rng.pick(&[0usize, 10, 30, 60, 90]);
        GenCfg {
            max_modules: rng.range(1, max_modules),
            max_items: rng.range(1, max_items),
            max_fields: rng.range(0, 6),
            max_depth: rng.range(0, 3),
            p_vftable: pct(rng),
            p_base: pct(rng),
            p_enum: *rng.pick(&[0usize, 10, 30]),
            p_extern: *rng.pick(&[0usize, 10, 20]),
            p_packed: *rng.pick(&[0usize, 10, 50]),
            p_impl: pct(rng),
            p_cross_module: *rng.pick(&[0usize, 30, 70, 100]),
            extern_values: rng.chance(1, 2),
            backends: rng.chance(1, 2),
            docs: rng.chance(1, 2),
            flags: rng.chance(1, 2),
            outlier: if rng.chance(1, 8) { rng.range(1, 8) } else { 0 },
        }
    }
}

struct Gen<'a> {
    rng: &'a mut Rng,
    cfg: GenCfg,
    p: Project,
    fn_counter: usize,
    addr_counter: usize,
    /// Naming scheme of the project's items (swarm).
    names: usize,
}

const CCS: [&str; 7] = [
    "C",
    "cdecl",
    "stdcall",
    "fastcall",
    "thiscall",
    "vectorcall",
    "system",
];

impl<'a> Gen<'a> {
    fn pct(&mut self, p: usize) -> bool {
        self.rng.below(100) < p
    }

    /// Item names: plain (`T3`), every name a prefix of the next (`Foo`, `FooX`, `FooXX`), or
    /// types and enums that differ only in case (`Node3` / `NODE4`).
    fn item_name(&self, kind: char, idx: usize) -> String {
        match self.names {
            // Keywords as names, written raw (the first few items; then plain names again).
            4 if idx < 8 => format!(
                "r#{}",
                ["type", "match", "box", "loop", "struct", "fn", "move", "ref"][idx]
            ),
            // Words that are keywords only in some contexts or editions, written plainly.
            5 if idx < 8 => {
                ["gen", "union", "raw", "safe", "auto", "default", "macro_rules", "catch"][idx].to_string()
            }
            1 => format!("Foo{}", "X".repeat(idx)),
            2 => match kind {
                'T' => format!("Node{idx}"),
                'E' => format!("NODE{idx}"),
                _ => format!("node{idx}"),
            },
            3 => match kind {
                // An enum that differs only in case from the type declared just before it.
                'T' => format!("Shape{idx}"),
                'E' if idx > 0 && matches!(self.p.items[idx - 1].kind, ItemKind::Type { .. }) => {
                    self.p.items[idx - 1].name.to_uppercase()
                }
                'E' => format!("SHAPE{idx}"),
                _ => format!("shape{idx}"),
            },
            _ => format!("{kind}{idx}"),
        }
    }

    fn fresh_addr(&mut self) -> usize {
        self.addr_counter += 0x10 + self.rng.below(0x100);
        self.addr_counter
    }

    fn doc(&mut self) -> Option<String> {
        // (size outlier: hundreds of doc lines, each with brackets that do not match)
        if self.cfg.outlier == 8 && self.rng.chance(1, 6) {
            let n = self.rng.range(260, 400);
            let open = *self.rng.pick(&["(", "[", "{", "((", "<"]);
            return Some(
                (0..n)
                    .map(|i| format!(" item {i}{open} see above"))
                    .collect::<Vec<_>>()
                    .join("\n"),
            );
        }
        if self.cfg.docs && self.rng.chance(1, 3) {
            let n = self.rng.range(1, 3);
            Some(
                (0..n)
                    .map(|i| format!(" doc line {} {}", i, self.rng.below(1000)))
                    .collect::<Vec<_>>()
                    .join("\n"),
            )
        } else {
            None
        }
    }

    fn prim(&mut self) -> Ty {
        Ty::Prim(self.rng.pick(&PRIMS).0)
    }

    /// Candidate items a reference from module `m` may target.
    fn visible(&mut self, m: usize, upto: usize, pred: impl Fn(&Item) -> bool) -> Vec<usize> {
        let cross = self.pct(self.cfg.p_cross_module);
        (0..upto.min(self.p.items.len()))
            .filter(|&i| {
                let it = &self.p.items[i];
                (it.module == m || (cross && it.vis)) && pred(it)
            })
            .collect()
    }

    /// A type usable by value at item index `idx` (only refers to earlier items).
    fn value_ty(&mut self, m: usize, idx: usize, depth: usize) -> Ty {
        let roll = self.rng.below(100);
        if roll < 35 {
            self.prim()
        } else if roll < 55 {
            self.pointer_ty(m)
        } else if roll < 75 && depth < self.cfg.max_depth {
            let n = *self.rng.pick(&[0usize, 1, 2, 3, 4, 7]);
            let inner = self.value_ty(m, idx, depth + 1);
            inner.arr(n)
        } else {
            let c = self.visible(m, idx, |_| true);
            if c.is_empty() {
                self.prim()
            } else {
                Ty::Item(*self.rng.pick(&c))
            }
        }
    }

    /// A pointer type; may point at any item of the project, including later ones.
    fn pointer_ty(&mut self, m: usize) -> Ty {
        let total = self.p.items.len();
        let c = self.visible(m, total, |_| true);
        let inner = if c.is_empty() || self.rng.chance(1, 4) {
            if self.rng.chance(1, 4) {
                Ty::Prim("void")
            } else {
                self.prim()
            }
        } else {
            Ty::Item(*self.rng.pick(&c))
        };
        let inner = if self.rng.chance(1, 6) {
            inner.cptr()
        } else {
            inner
        };
        if self.rng.chance(1, 2) {
            inner.cptr()
        } else {
            inner.mptr()
        }
    }

    fn sig_ty(&mut self, m: usize) -> Ty {
        match self.rng.below(7) {
            0 | 1 => self.prim(),
            2 | 3 => self.pointer_ty(m),
            // Arrays in signatures, nested with different lengths, around and behind pointers.
            4 => {
                let inner = if self.rng.chance(1, 2) {
                    self.prim()
                } else {
                    self.pointer_ty(m)
                };
                let a = self.rng.range(1, 4);
                let b = self.rng.range(1, 6);
                match self.rng.below(4) {
                    0 => inner.arr(a),
                    1 => inner.arr(a).arr(b),
                    2 => inner.arr(a).cptr().arr(b),
                    _ => inner.arr(a).arr(b).mptr(),
                }
            }
            _ => {
                let total = self.p.items.len();
                let c = self.visible(m, total, |_| true);
                if c.is_empty() {
                    self.prim()
                } else {
                    Ty::Item(*self.rng.pick(&c))
                }
            }
        }
    }

    fn func(&mut self, m: usize, virt: bool) -> Func {
        self.fn_counter += 1;
        // With raw keywords as names, the first few functions are called like keywords too.
        let name = if self.names == 4 && self.fn_counter <= 8 {
            format!(
                "r#{}",
                ["fn", "match", "type", "loop", "move", "ref", "box", "struct"][self.fn_counter - 1]
            )
        } else {
            format!("f{}", self.fn_counter)
        };
        // (size outlier: a function with dozens of parameters, pointers mostly)
        let nargs = if self.cfg.outlier == 7 && self.rng.chance(1, 3) {
            self.rng.range(20, 48)
        } else {
            self.rng.below(4)
        };
        let args = (0..nargs)
            .map(|k| (format!("a{k}"), self.sig_ty(m)))
            .collect();
        let ret = if self.rng.chance(1, 2) {
            Some(self.sig_ty(m))
        } else {
            None
        };
        let recv = if virt {
            Some(self.rng.chance(1, 2))
        } else {
            match self.rng.below(3) {
                0 => None,
                1 => Some(false),
                _ => Some(true),
            }
        };
        Func {
            vis: self.rng.chance(3, 4),
            name,
            recv,
            args,
            ret,
            address: if virt { None } else { Some(self.fresh_addr()) },
            index: None,
            cc: if self.rng.chance(1, 4) {
                Some(*self.rng.pick(&CCS))
            } else {
                None
            },
            doc: self.doc(),
        }
    }

    fn gen_enum(&mut self, m: usize, idx: usize) -> Item {
        let base = *self
            .rng
            .pick(&["u8", "u16", "u32", "u64", "i8", "i16", "i32", "i64"]);
        let n = if self.cfg.outlier == 3 && self.rng.chance(1, 2) {
            self.rng.range(21, 60)
        } else {
            self.rng.range(1, 6)
        };
        let mut variants = vec![];
        let mut next: i64 = if base.starts_with('i') && self.rng.chance(1, 3) {
            -(self.rng.below(4) as i64)
        } else {
            0
        };
        for k in 0..n {
            let explicit = self.rng.chance(1, 2);
            if explicit {
                next += self.rng.below(5) as i64;
            }
            variants.push((format!("V{k}"), explicit.then_some(next), false));
            next += 1;
        }
        let mut flags = Flags::default();
        if self.cfg.flags {
            flags.copyable = self.rng.chance(1, 2);
            flags.cloneable = self.rng.chance(1, 3);
            if self.rng.chance(1, 3) {
                flags.defaultable = true;
                let d = self.rng.below(n);
                variants[d].2 = true;
            }
        }
        let (s, a) = self.p.ty_size_align(&Ty::Prim(base));
        Item {
            module: m,
            name: self.item_name('E', idx),
            vis: self.rng.chance(4, 5),
            doc: self.doc(),
            kind: ItemKind::Enum {
                base: Ty::Prim(base),
                variants,
                flags,
                singleton: if self.rng.chance(1, 8) {
                    Some(self.fresh_addr())
                } else {
                    None
                },
            },
            csize: s,
            calign: a,
            vslots: None,
        }
    }

    fn gen_extern(&mut self, m: usize, idx: usize) -> Item {
        let align = *self.rng.pick(&[1usize, 2, 4, 8, 16]);
        let size = align * self.rng.range(0, 6);
        Item {
            module: m,
            name: self.item_name('X', idx),
            vis: true,
            doc: None,
            kind: ItemKind::Extern { size, align },
            csize: size,
            calign: align,
            vslots: None,
        }
    }

    fn is_defaultable_ty(&self, ty: &Ty) -> bool {
        match ty {
            Ty::Prim(p) => *p != "void",
            Ty::Array(t, _) => self.is_defaultable_ty(t),
            Ty::Unknown(_) => true,
            Ty::Item(i) => match &self.p.items[*i].kind {
                ItemKind::Type { flags, .. } => flags.defaultable,
                ItemKind::Enum { flags, .. } => flags.defaultable,
                ItemKind::Extern { .. } => false,
            },
            _ => false,
        }
    }

    fn gen_type(&mut self, m: usize, idx: usize) -> Item {
        let ptr = self.p.ptr;
        let packed = self.pct(self.cfg.p_packed);
        let mut fields: Vec<Field> = vec![];
        let mut vslots: Option<Vec<Func>> = None;
        let mut first_base_has_vftable = false;

        // Bases: earlier *type* items, as the leading fields.
        let mut nbases = 0;
        if self.pct(self.cfg.p_base) {
            let c = self.visible(m, idx, |it| matches!(it.kind, ItemKind::Type { .. }));
            if !c.is_empty() {
                nbases = self.rng.range(1, 2.min(c.len()));
                for b in 0..nbases {
                    let bi = *self.rng.pick(&c);
                    if b == 0 {
                        if let Some(v) = self.p.visible_vftable(bi) {
                            first_base_has_vftable = true;
                            vslots = Some(v);
                        }
                    }
                    fields.push(Field {
                        vis: self.rng.chance(4, 5),
                        name: format!("base{b}"),
                        ty: Ty::Item(bi),
                        address: None,
                        base: true,
                        doc: self.doc(),
                    });
                }
            }
        }

        // Vftable block.
        let mut vftable = None;
        if self.pct(self.cfg.p_vftable) {
            let mut funcs: Vec<Func> = vslots.clone().unwrap_or_default();
            let placeholder = |n: usize| Func {
                vis: false,
                name: format!("_vfunc_{n}"),
                recv: Some(true),
                args: vec![],
                ret: None,
                address: None,
                index: None,
                cc: None,
                doc: None,
            };
            let extra = if self.cfg.outlier == 2 && self.rng.chance(1, 3) {
                self.rng.range(21, 40)
            } else {
                self.rng.range(0, 3)
            };
            for _ in 0..extra {
                let mut f = self.func(m, true);
                if self.rng.chance(1, 4) {
                    // Leave a gap filled by placeholder slots.
                    for _ in 0..self.rng.range(1, 3) {
                        let n = funcs.len();
                        funcs.push(placeholder(n));
                    }
                }
                let after_placeholder = funcs
                    .last()
                    .is_some_and(|l| l.name.starts_with("_vfunc_"));
                if after_placeholder || self.rng.chance(1, 5) {
                    f.index = Some(funcs.len());
                }
                funcs.push(f);
            }
            if self.rng.chance(1, 4) {
                for _ in 0..self.rng.below(3) {
                    let n = funcs.len();
                    funcs.push(placeholder(n));
                }
            }
            let ends_in_placeholder = funcs
                .last()
                .is_some_and(|l| l.name.starts_with("_vfunc_"));
            let size = if ends_in_placeholder || self.rng.chance(1, 6) {
                Some(funcs.len())
            } else {
                None
            };
            vslots = Some(funcs.clone());
            // Placeholders are never written out: pyxis creates them from index/size.
            let written: Vec<Func> = funcs
                .iter()
                .filter(|f| !f.name.starts_with("_vfunc_"))
                .cloned()
                .collect();
            vftable = Some(Vft {
                funcs: written,
                size,
            });
        }
        let own_vftable_region = vftable.is_some() && !first_base_has_vftable;

        // Ordinary fields.
        let nfields = if self.cfg.outlier == 1 && self.rng.chance(1, 3) {
            self.rng.range(21, 48)
        } else {
            self.rng.range(0, self.cfg.max_fields)
        };
        for k in 0..nfields {
            let ty = self.value_ty(m, idx, 0);
            let name = if self.rng.chance(1, 10) {
                "_".to_string()
            } else {
                format!("x{k}")
            };
            fields.push(Field {
                vis: self.rng.chance(3, 4),
                name,
                ty,
                address: None,
                base: false,
                doc: self.doc(),
            });
        }

        // Layout: place every field at an offset aligned for it.
        let mut offset = if own_vftable_region { ptr } else { 0 };
        let mut max_align = if own_vftable_region { ptr } else { 1 };
        let mut regions = if own_vftable_region { 1 } else { 0 };
        let mut has_zero_array = false;
        let mut laid: Vec<Field> = vec![];
        for mut f in fields {
            let (s, a) = self.p.ty_size_align(&f.ty);
            let a_eff = if packed { 1 } else { a };
            max_align = max_align.max(a);
            let mut target = offset.div_ceil(a_eff) * a_eff;
            if self.rng.chance(1, 6) {
                target += a_eff * self.rng.range(1, 4);
            }
            let explicit = self.rng.chance(1, 4);
            if target > offset {
                if self.rng.chance(1, 2) {
                    f.address = Some(target);
                } else {
                    laid.push(Field {
                        vis: false,
                        name: "_".into(),
                        ty: Ty::Unknown(target - offset),
                        address: None,
                        base: false,
                        doc: None,
                    });
                }
                regions += 1;
            } else if explicit {
                f.address = Some(target);
            }
            if s == 0 && matches!(f.ty, Ty::Array(..)) {
                has_zero_array = true;
            } else {
                regions += 1;
            }
            offset = target + s;
            laid.push(f);
        }

        let (align, size_attr, calign, csize);
        if packed {
            calign = 1;
            align = None;
            if self.rng.chance(1, 3) {
                let extra = self.rng.below(5);
                csize = offset + extra;
                size_attr = Some(csize);
            } else {
                csize = offset;
                size_attr = None;
            }
        } else {
            let mut a = max_align;
            if self.rng.chance(1, 6) {
                a *= 2;
            }
            let total = offset.div_ceil(a) * a;
            // The default alignment pyxis picks without #[align]: the sole region's alignment,
            // or the pointer size.
            let can_omit = a == ptr && regions >= 2 && !has_zero_array && a >= max_align;
            let omit = can_omit && self.rng.chance(2, 3);
            align = if omit { None } else { Some(a) };
            calign = a;
            let extra = if self.rng.chance(1, 5) {
                a * self.rng.range(1, 2)
            } else {
                0
            };
            csize = total + extra;
            if csize > offset {
                if self.rng.chance(1, 2) {
                    size_attr = Some(csize);
                } else {
                    laid.push(Field {
                        vis: false,
                        name: "_".into(),
                        ty: Ty::Unknown(csize - offset),
                        address: None,
                        base: false,
                        doc: None,
                    });
                    size_attr = if self.rng.chance(1, 3) {
                        Some(csize)
                    } else {
                        None
                    };
                }
            } else {
                size_attr = if self.rng.chance(1, 3) {
                    Some(csize)
                } else {
                    None
                };
            }
        }

        let mut flags = Flags::default();
        if self.cfg.flags {
            flags.copyable = self.rng.chance(1, 3);
            flags.cloneable = self.rng.chance(1, 3);
            if !own_vftable_region
                && laid.iter().all(|f| self.is_defaultable_ty(&f.ty))
                && self.rng.chance(1, 2)
            {
                flags.defaultable = true;
            }
        }

        let mut impl_funcs = vec![];
        if self.pct(self.cfg.p_impl) {
            let nfuncs = if self.cfg.outlier == 4 && self.rng.chance(1, 3) {
                self.rng.range(21, 40)
            } else {
                self.rng.range(1, 3)
            };
            for _ in 0..nfuncs {
                impl_funcs.push(self.func(m, false));
            }
        }
        // Function names are not globally unique in real descriptions: sometimes take the name
        // of a function of some other type. Names this type already has (own vftable, own impl
        // functions, anything inherited from its bases) are avoided, those are errors.
        {
            let mut taken: BTreeSet<String> = BTreeSet::new();
            let mut todo: Vec<usize> = laid
                .iter()
                .filter(|f| f.base)
                .filter_map(|f| f.ty.by_value_item())
                .collect();
            while let Some(b) = todo.pop() {
                if let ItemKind::Type {
                    fields,
                    vftable,
                    impl_funcs,
                    ..
                } = &self.p.items[b].kind
                {
                    for f in vftable.iter().flat_map(|v| v.funcs.iter()).chain(impl_funcs.iter()) {
                        taken.insert(f.name.clone());
                        taken.insert(format!("base0_{}", f.name));
                        taken.insert(format!("base1_{}", f.name));
                    }
                    todo.extend(fields.iter().filter(|f| f.base).filter_map(|f| f.ty.by_value_item()));
                }
                if let Some(vs) = &self.p.items[b].vslots {
                    taken.extend(vs.iter().map(|f| f.name.clone()));
                }
            }
            if let Some(vs) = &vslots {
                taken.extend(vs.iter().map(|f| f.name.clone()));
            }
            taken.extend(impl_funcs.iter().map(|f| f.name.clone()));
            let pool: Vec<String> = self
                .p
                .items
                .iter()
                .filter_map(|it| match &it.kind {
                    ItemKind::Type {
                        vftable,
                        impl_funcs,
                        ..
                    } => Some(
                        vftable
                            .iter()
                            .flat_map(|v| v.funcs.iter())
                            .chain(impl_funcs.iter())
                            .map(|f| f.name.clone())
                            .collect::<Vec<_>>(),
                    ),
                    _ => None,
                })
                .flatten()
                .filter(|n| !n.starts_with("_vfunc_"))
                .collect();
            for f in impl_funcs.iter_mut() {
                if !pool.is_empty() && self.rng.chance(1, 6) {
                    let n = self.rng.pick(&pool).clone();
                    if taken.insert(n.clone()) {
                        f.name = n;
                    }
                }
            }
        }
        let _ = nbases;

        Item {
            module: m,
            name: self.item_name('T', idx),
            vis: self.rng.chance(4, 5),
            doc: self.doc(),
            kind: ItemKind::Type {
                semicolon_form: laid.is_empty() && self.rng.chance(1, 2),
                fields: laid,
                vftable,
                size: size_attr,
                align,
                packed,
                flags,
                singleton: if self.rng.chance(1, 8) {
                    Some(self.fresh_addr())
                } else {
                    None
                },
                impl_funcs,
            },
            csize,
            calign,
            vslots,
        }
    }
}

pub fn module_paths(rng: &mut Rng, n: usize, max_depth: usize) -> Vec<Vec<String>> {
    let mut paths: Vec<Vec<String>> = vec![];
    for k in 0..n {
        // Plain directories, or nested under the path of an earlier module (`m0.pyxis` next to
        // `m0/m3.pyxis`: a directory and a file with the same stem side by side).
        let mut p: Vec<String> = if k > 0 && rng.chance(1, 5) {
            paths[rng.below(k)].clone()
        } else {
            let depth = rng.below(max_depth + 1);
            (0..depth)
                .map(|d| format!("d{}{}", d, rng.below(2)))
                .collect()
        };
        let stem = match rng.below(6) {
            0 => format!("mod_{k}"),
            1 => format!("m{k}_2x"),
            2 => format!("M{k}"),
            _ => format!("m{k}"),
        };
        p.push(stem);
        paths.push(p);
    }
    paths
}

/// Generates a project that pyxis is expected to accept.
pub fn gen_valid(rng: &mut Rng, cfg: &GenCfg, ptr: usize) -> Project {
    let nmod = cfg.max_modules.max(1);
    let paths = module_paths(rng, nmod, 3);
    let modules = paths
        .into_iter()
        .map(|path| Module {
            path,
            type_imports: rng.chance(1, 2),
            ..Default::default()
        })
        .collect();
    let style = rng.next_u64();
    let mut g = Gen {
        rng,
        cfg: cfg.clone(),
        p: Project {
            ptr,
            modules,
            items: vec![],
            style,
        },
        fn_counter: 0,
        addr_counter: 0x1000,
        names: 0,
    };
    g.names = *g.rng.pick(&[0usize, 0, 0, 1, 2, 3, 4, 5]);
    let nitems = g.cfg.max_items;
    for idx in 0..nitems {
        let m = g.rng.below(nmod);
        let roll = g.rng.below(100);
        let item = if roll < g.cfg.p_enum {
            g.gen_enum(m, idx)
        } else if roll < g.cfg.p_enum + g.cfg.p_extern {
            g.gen_extern(m, idx)
        } else {
            g.gen_type(m, idx)
        };
        g.p.items.push(item);
    }
    // Module-level extras and declaration order.
    for m in 0..nmod {
        let mut order: Vec<Decl> = vec![];
        for (i, it) in g.p.items.iter().enumerate() {
            if it.module != m {
                continue;
            }
            order.push(Decl::Item(i));
            if let ItemKind::Type { impl_funcs, .. } = &it.kind {
                if !impl_funcs.is_empty() {
                    order.push(Decl::Impl(i));
                }
            }
        }
        if g.cfg.extern_values {
            let nvalues = if g.cfg.outlier == 5 { g.rng.range(21, 40) } else { g.rng.below(3) };
            for k in 0..nvalues {
                let ty = if g.rng.chance(1, 2) {
                    g.pointer_ty(m)
                } else {
                    let total = g.p.items.len();
                    g.value_ty(m, total, 0)
                };
                let address = Some(g.fresh_addr());
                let vis = g.rng.chance(3, 4);
                g.p.modules[m].extern_values.push(ExternValue {
                    vis,
                    name: format!("g{m}_{k}"),
                    ty,
                    address,
                });
                order.push(Decl::ExternValue(k));
            }
        }
        if g.cfg.backends {
            let nblocks = if g.cfg.outlier == 6 { g.rng.range(10, 24) } else { g.rng.below(4) };
            for k in 0..nblocks {
                let name = if g.rng.chance(3, 4) { "rust" } else { "cpp" };
                let braced = g.rng.chance(1, 2);
                let rich = g.rng.chance(1, 3);
                let marker = |kind: &str| {
                    let base = format!(
                        "pub const {}_{}_{}_{}: u32 = {};",
                        kind,
                        name.to_uppercase(),
                        m,
                        k,
                        k + 1
                    );
                    if rich && k % 2 == 1 {
                        // Ends in a line comment, starts with one.
                        format!("// generated for {kind}\n{base} // trailing note")
                    } else if rich {
                        // Text that looks like the surrounding syntax: keywords of the backend
                        // block, semicolons, braces, a hash, a blank line, several items.
                        format!(
                            "{base}\n\npub const {kind}_TEXT_{m}_{k}: &str = \"prologue epilogue; }} backend {{ # \";\npub fn {}_helper_{m}_{k}() {{}}",
                            kind.to_lowercase()
                        )
                    } else {
                        base
                    }
                };
                let (prologue, epilogue) = if braced {
                    match g.rng.below(3) {
                        0 => (Some(marker("PROLOGUE")), None),
                        1 => (None, Some(marker("EPILOGUE"))),
                        _ => (Some(marker("PROLOGUE")), Some(marker("EPILOGUE"))),
                    }
                } else if g.rng.chance(1, 2) {
                    (Some(marker("PROLOGUE")), None)
                } else {
                    (None, Some(marker("EPILOGUE")))
                };
                // Now and then a block is simply the previous one again (same text twice is
                // legal and both must come out).
                let (prologue, epilogue, braced) = match g.p.modules[m].backends.last() {
                    Some(prev) if g.rng.chance(1, 5) => {
                        (prev.prologue.clone(), prev.epilogue.clone(), prev.braced)
                    }
                    _ => (prologue, epilogue, braced),
                };
                let name = match g.p.modules[m].backends.last() {
                    Some(prev) if prologue == prev.prologue && epilogue == prev.epilogue => {
                        prev.name.clone()
                    }
                    _ => name.to_string(),
                };
                // A braced block may hold several prologues and epilogues.
                let mut more = vec![];
                if braced && g.rng.chance(1, 4) {
                    for j in 0..g.rng.range(1, 3) {
                        let is_prologue = g.rng.chance(1, 2);
                        more.push((
                            is_prologue,
                            format!(
                                "pub const MORE_{}_{}_{m}_{k}_{j}: u32 = {j};",
                                if is_prologue { "PROLOGUE" } else { "EPILOGUE" },
                                name.to_uppercase()
                            ),
                        ));
                    }
                }
                g.p.modules[m].backends.push(BackendBlock {
                    name,
                    prologue,
                    epilogue,
                    braced,
                    more,
                });
                order.push(Decl::Backend(k));
            }
        }
        if g.cfg.docs && g.rng.chance(1, 3) {
            g.p.modules[m].doc = Some(format!(" module {m} docs\n second line"));
        }
        // Backends keep their relative source order (the property is about source order), the
        // rest is shuffled freely.
        let mut shuffled = order.clone();
        g.rng.shuffle(&mut shuffled);
        let mut backend_slots: Vec<usize> = shuffled
            .iter()
            .enumerate()
            .filter(|(_, d)| matches!(d, Decl::Backend(_)))
            .map(|(i, _)| i)
            .collect();
        backend_slots.sort();
        let mut k = 0;
        for slot in backend_slots {
            shuffled[slot] = Decl::Backend(k);
            k += 1;
        }
        g.p.modules[m].order = shuffled;
    }
    // Now and then a module lives in a directory that is called like an item of the module
    // "above" it (`game.pyxis` declares `Entity`, and there is `game/Entity/inner.pyxis`).
    if nmod >= 2 && g.rng.chance(1, 8) {
        let x = g.rng.below(nmod);
        let names: Vec<String> = g
            .p
            .items
            .iter()
            .filter(|it| it.module == x)
            .map(|it| it.name.clone())
            .collect();
        if !names.is_empty() {
            let mut y = g.rng.below(nmod);
            if y == x {
                y = (y + 1) % nmod;
            }
            // Only when no other module's path hangs below y's.
            let ypath = g.p.modules[y].path.clone();
            let has_children = g
                .p
                .modules
                .iter()
                .enumerate()
                .any(|(k, m)| k != y && m.path.len() > ypath.len() && m.path[..ypath.len()] == ypath[..]);
            if !has_children {
                let mut path = g.p.modules[x].path.clone();
                path.push(g.rng.pick(&names).clone());
                path.push(format!("inner{y}"));
                g.p.modules[y].path = path;
            }
        }
    }
    g.p
}

/// By-value dependency edges between items (i embeds j by value, through arrays and bases).
pub fn by_value_edges(p: &Project) -> BTreeMap<usize, BTreeSet<usize>> {
    let mut out: BTreeMap<usize, BTreeSet<usize>> = BTreeMap::new();
    for (i, it) in p.items.iter().enumerate() {
        let e = out.entry(i).or_default();
        match &it.kind {
            ItemKind::Type { fields, .. } => {
                for f in fields {
                    if let Some(j) = f.ty.by_value_item() {
                        e.insert(j);
                    }
                }
            }
            ItemKind::Enum { base, .. } => {
                if let Some(j) = base.by_value_item() {
                    e.insert(j);
                }
            }
            ItemKind::Extern { .. } => {}
        }
    }
    out
}

/// Adds a copy of module `host` under `path`: every short name, vftable block and function of
/// the original exists twice afterwards, each copy referring to its own module's items (and to
/// the same items of other modules as the original).
pub fn add_twin_module(p: &mut Project, host: usize, path: Vec<String>) -> usize {
    let k = p.modules.len();
    let mut twin = p.modules[host].clone();
    twin.path = path;
    twin.deleted = false;
    let originals: Vec<usize> = (0..p.items.len())
        .filter(|i| p.items[*i].module == host)
        .collect();
    let base = p.items.len();
    let remap = |i: usize| -> usize {
        match originals.iter().position(|o| *o == i) {
            Some(pos) => base + pos,
            None => i,
        }
    };
    fn retarget(ty: &mut Ty, remap: &dyn Fn(usize) -> usize) {
        match ty {
            Ty::Item(i) => *i = remap(*i),
            Ty::ConstPtr(t) | Ty::MutPtr(t) | Ty::Array(t, _) => retarget(t, remap),
            _ => {}
        }
    }
    let retarget_fn = |f: &mut Func, remap: &dyn Fn(usize) -> usize| {
        for (_, t) in f.args.iter_mut() {
            retarget(t, remap);
        }
        if let Some(t) = &mut f.ret {
            retarget(t, remap);
        }
    };
    let mut clones = vec![];
    for &o in &originals {
        let mut it = p.items[o].clone();
        it.module = k;
        match &mut it.kind {
            ItemKind::Type {
                fields,
                vftable,
                impl_funcs,
                ..
            } => {
                for f in fields.iter_mut() {
                    retarget(&mut f.ty, &remap);
                }
                if let Some(v) = vftable {
                    for f in v.funcs.iter_mut() {
                        retarget_fn(f, &remap);
                    }
                }
                for f in impl_funcs.iter_mut() {
                    retarget_fn(f, &remap);
                }
            }
            ItemKind::Enum { base, .. } => retarget(base, &remap),
            ItemKind::Extern { .. } => {}
        }
        if let Some(vs) = &mut it.vslots {
            for f in vs.iter_mut() {
                retarget_fn(f, &remap);
            }
        }
        clones.push(it);
    }
    p.items.extend(clones);
    for d in twin.order.iter_mut() {
        match d {
            Decl::Item(i) | Decl::Impl(i) => *i = remap(*i),
            _ => {}
        }
    }
    for ev in twin.extern_values.iter_mut() {
        retarget(&mut ev.ty, &remap);
    }
    p.modules.push(twin);
    k
}
