//! Replay files: the case (worlds as bytes, schedules as explicit specs) plus the violation it
//! produced. Replaying is re-executing the case; nothing else is consulted.

use serde::{Deserialize, Serialize};

use crate::case::{Case, Verdict};

#[derive(Clone, Debug, Serialize, Deserialize)]
pub struct ReplayFile {
    pub format: u32,
    pub property: String,
    pub class: String,
    pub detail: String,
    #[serde(default)]
    pub signature: String,
    #[serde(default)]
    pub minimised: bool,
    /// For `differs-in-fresh-process`: the worker history in which the case behaved
    /// differently from a fresh process (tier, base seed, first index, stride, index).
    #[serde(default)]
    pub history: Option<History>,
    pub case: Case,
}

#[derive(Clone, Debug, Serialize, Deserialize)]
pub struct History {
    pub tier: String,
    pub seed: u64,
    pub offset: u64,
    pub stride: u64,
    pub index: u64,
}

pub fn to_json(case: &Case, verdict: &Verdict) -> String {
    let (class, detail) = match verdict {
        Verdict::Violation { class, detail } => (class.clone(), detail.clone()),
        Verdict::Vacuous(w) => ("vacuous".into(), w.clone()),
        Verdict::Held => ("held".into(), String::new()),
    };
    let f = ReplayFile {
        format: 1,
        property: case.property.clone(),
        signature: crate::findings::signature(case, &class, &detail),
        class,
        detail,
        minimised: false,
        history: None,
        case: case.clone(),
    };
    serde_json::to_string_pretty(&f).unwrap()
}

pub fn load(path: &str) -> Result<ReplayFile, String> {
    let text = std::fs::read_to_string(path).map_err(|e| format!("{path}: {e}"))?;
    serde_json::from_str(&text).map_err(|e| format!("{path}: {e}"))
}
