//! Self-checks of the harness: determinism proof and seam audit. Neither is part of the
//! deciding step of any property and neither ever prints a VIOLATION line.

use std::collections::{BTreeMap, BTreeSet};

use crate::plan::Tier;
use crate::supervisor::{run_workers, CheckArgs};

fn args_for(property: &str, cases: u64, workers: usize, seed: u64) -> CheckArgs {
    CheckArgs {
        property: property.to_string(),
        tier: Tier::Quick,
        seed,
        cases,
        workers,
        verif_dir: format!("/dev/shm/pyxis-sim-selfcheck.{}", std::process::id()),
        minimise: false,
        write_evidence: false,
    }
}

/// Same seeds, different processes and worker counts: the per-case event-log digests must be
/// identical. Any difference is a harness bug.
fn determinism(properties: &[String], cases: u64) -> i32 {
    let mut bad = 0;
    for p in properties {
        let mut runs: Vec<(usize, BTreeMap<u64, u64>)> = vec![];
        for (workers, seed) in [(16usize, 1u64), (5, 1), (1, 1), (16, 1)] {
            let n = if workers == 1 { cases / 4 } else { cases };
            let agg = run_workers(&args_for(p, n, workers, seed));
            runs.push((workers, agg.case_digests.iter().copied().collect()));
        }
        let (_, reference) = &runs[0];
        let mut diverged: BTreeSet<u64> = BTreeSet::new();
        let mut compared = 0u64;
        for (_, other) in &runs[1..] {
            for (i, d) in other {
                compared += 1;
                if reference.get(i) != Some(d) {
                    diverged.insert(*i);
                }
            }
        }
        println!(
            "determinism {p}: {} cases x 4 runs (16, 5, 1, 16 worker processes), {compared} digests compared, {} diverged",
            reference.len(),
            diverged.len()
        );
        if !diverged.is_empty() {
            println!(
                "  diverging case indices: {:?}",
                diverged.iter().take(10).collect::<Vec<_>>()
            );
            bad += 1;
        }
    }
    let _ = std::fs::remove_dir_all(format!(
        "/dev/shm/pyxis-sim-selfcheck.{}",
        std::process::id()
    ));
    if bad > 0 {
        println!("harness error: the simulator is not deterministic");
        2
    } else {
        0
    }
}

/// The same worlds built with *no* scheduler installed on many fresh threads (real
/// RandomState): every outcome seen there must be among the outcomes the simulated schedules
/// produced for that world. Otherwise a source of nondeterminism is not behind a seam.
fn audit(cases: u64, threads: usize) -> i32 {
    crate::run::install_panic_hook();
    let mut missing = 0u64;
    let mut worlds = 0u64;
    let mut real_runs = 0u64;
    let mut real_distinct_outcomes = 0u64;
    for index in 0..cases {
        let seed = crate::worker::case_seed(1, "C09", index);
        let case = crate::props::generate("C09", seed, Tier::Quick);
        let mut scratch = crate::run::Scratch::for_thread(1_000_000 + index);
        let digest = |r: &crate::run::RunResult| -> (bool, u64) {
            let mut d = 0u64;
            if r.outcome.succeeded() {
                for (p, b) in r.files() {
                    d = crate::rng::mix(d, crate::rng::hash_str(1, p));
                    d = crate::rng::mix(d, crate::rng::hash_bytes(2, b));
                }
            }
            (r.outcome.succeeded(), d)
        };
        // Simulated outcomes: of the builds that are handed what `pyxis::build` would be handed
        // (an explicit API history that puts a text under another path is another input).
        let plain = crate::props::c09::input_set(&case.worlds[0], &crate::run::Entry::LibBuild);
        let comparable: Vec<bool> = case
            .builds
            .iter()
            .map(|b| {
                b.world == 0 && crate::props::c09::input_set(&case.worlds[0], &b.entry) == plain
            })
            .collect();
        if !comparable.iter().any(|c| *c) {
            continue;
        }
        let simulated: BTreeSet<(bool, u64)> = std::thread::scope(|s| {
            s.spawn(|| {
                crate::case::execute(&mut scratch, &case)
                    .iter()
                    .zip(&comparable)
                    .filter(|(_, c)| **c)
                    .flat_map(|(r, _)| r.iter())
                    .map(digest)
                    .collect()
            })
            .join()
            .unwrap()
        });
        // Real hash orders.
        let spec = case.builds[0].clone();
        let world = case.worlds[0].clone();
        let real: Vec<(bool, u64)> = std::thread::scope(|s| {
            let handles: Vec<_> = (0..threads)
                .map(|t| {
                    let spec = spec.clone();
                    let world = world.clone();
                    s.spawn(move || {
                        let mut scratch =
                            crate::run::Scratch::for_thread(index * 1000 + t as u64);
                        let mut spec = spec;
                        spec.repeat = 1;
                        spec.entry = crate::run::Entry::LibBuild;
                        let r = crate::run::run_build_with(&mut scratch, &world, &spec, false);
                        digest(&r[0])
                    })
                })
                .collect();
            handles.into_iter().map(|h| h.join().unwrap()).collect()
        });
        worlds += 1;
        real_runs += real.len() as u64;
        let distinct: BTreeSet<_> = real.iter().copied().collect();
        real_distinct_outcomes += distinct.len() as u64;
        for r in distinct {
            if !simulated.contains(&r) {
                missing += 1;
                println!(
                    "audit: world of case {index} ({}): an outcome under real hash order was not produced by any simulated schedule",
                    case.family
                );
            }
        }
    }
    println!(
        "audit: {worlds} worlds, {real_runs} builds under real RandomState on fresh threads, {real_distinct_outcomes} distinct outcomes, {missing} not covered by the simulated schedules"
    );
    if missing > 0 {
        println!("harness error: a source of nondeterminism is not behind a seam");
        2
    } else {
        0
    }
}

pub fn main(args: &[String]) -> i32 {
    let what = args.first().map(|s| s.as_str()).unwrap_or("");
    let mut rest: Vec<String> = args.iter().skip(1).cloned().collect();
    match what {
        "determinism" => {
            if rest.is_empty() {
                rest = crate::props::CLAIMED.iter().map(|s| s.to_string()).collect();
            }
            determinism(&rest, 2000)
        }
        "audit" => audit(
            rest.first().and_then(|s| s.parse().ok()).unwrap_or(400),
            32,
        ),
        _ => {
            eprintln!("usage: pyxis-sim selfcheck determinism [property...] | audit [worlds]");
            2
        }
    }
}
