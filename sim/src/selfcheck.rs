//! Self-checks of the harness (placeholder).

pub fn main(_args: &[String]) -> i32 {
    0
}
