//! One simulated run: materialise a world in a scratch tree on tmpfs, install the scheduler,
//! execute the real pyxis code through one of its public entry points, snapshot the effects.

use std::cell::RefCell;
use std::collections::BTreeMap;
use std::path::{Path, PathBuf};

use pyxis::grammar::ItemPath;
use pyxis::semantic::{ResolvedSemanticState, SemanticState};
use serde::{Deserialize, Serialize};

use crate::sched::{OrderSpec, SchedSpec, SimScheduler, Trace, STEP_BUDGET_PANIC};

// ---------------------------------------------------------------------------------------------
// Worlds as stored bytes

/// File content; serialised as text when it is valid UTF-8, as hex otherwise, so that replay
/// files stay readable and corrupted bytes still replay exactly.
#[derive(Clone, Debug, PartialEq, Eq, Hash, PartialOrd, Ord)]
pub struct Blob(pub Vec<u8>);

impl Serialize for Blob {
    fn serialize<S: serde::Serializer>(&self, s: S) -> Result<S::Ok, S::Error> {
        use serde::ser::SerializeMap;
        let mut m = s.serialize_map(Some(1))?;
        match std::str::from_utf8(&self.0) {
            Ok(t) => m.serialize_entry("text", t)?,
            Err(_) => {
                let hex: String = self.0.iter().map(|b| format!("{b:02x}")).collect();
                m.serialize_entry("hex", &hex)?
            }
        }
        m.end()
    }
}
impl<'de> Deserialize<'de> for Blob {
    fn deserialize<D: serde::Deserializer<'de>>(d: D) -> Result<Self, D::Error> {
        let m: BTreeMap<String, String> = BTreeMap::deserialize(d)?;
        if let Some(t) = m.get("text") {
            Ok(Blob(t.as_bytes().to_vec()))
        } else if let Some(h) = m.get("hex") {
            let b = (0..h.len() / 2)
                .map(|i| u8::from_str_radix(&h[2 * i..2 * i + 2], 16))
                .collect::<Result<Vec<u8>, _>>()
                .map_err(serde::de::Error::custom)?;
            Ok(Blob(b))
        } else {
            Err(serde::de::Error::custom("blob needs text or hex"))
        }
    }
}
impl Blob {
    pub fn text(s: impl Into<String>) -> Self {
        Blob(s.into().into_bytes())
    }
    pub fn lossy(&self) -> String {
        String::from_utf8_lossy(&self.0).into_owned()
    }
}

#[derive(Clone, Debug, PartialEq, Eq, Serialize, Deserialize)]
pub enum Node {
    File { path: String, content: Blob },
    Dir { path: String },
    Symlink { path: String, target: String },
}
impl Node {
    pub fn path(&self) -> &str {
        match self {
            Node::File { path, .. } | Node::Dir { path } | Node::Symlink { path, .. } => path,
        }
    }
}

#[derive(Clone, Debug, PartialEq, Eq, Serialize, Deserialize)]
pub struct World {
    pub pointer_size: usize,
    /// Name of the input directory inside the scratch tree (normally `in`).
    pub in_dir: String,
    /// Appended to the input path as handed to pyxis (`""`, `"/"`, `"/."`, ...).
    pub in_arg_suffix: String,
    pub input: Vec<Node>,
    pub out_exists: bool,
    pub out_is_file: bool,
    pub pre_out: Vec<Node>,
    /// The disk is "full" after this many bytes per file: while the build runs, writing a
    /// regular file beyond that size fails with EFBIG (RLIMIT_FSIZE, SIGXFSZ ignored).
    #[serde(default)]
    pub write_limit: Option<u64>,
}

impl World {
    pub fn from_files(pointer_size: usize, files: Vec<(String, String)>) -> World {
        World {
            pointer_size,
            in_dir: "in".into(),
            in_arg_suffix: String::new(),
            input: files
                .into_iter()
                .map(|(path, text)| Node::File {
                    path,
                    content: Blob::text(text),
                })
                .collect(),
            out_exists: true,
            out_is_file: false,
            pre_out: vec![],
            write_limit: None,
        }
    }

    /// The modules of the world: its `.pyxis` files plus whatever symbolic links inside the
    /// input tree make reachable under another path (a link to a file, or to a directory whose
    /// files then also exist below the link). Sorted by path, which is the order `glob`
    /// discovers them in (DESIGN.md N5).
    pub fn module_files(&self) -> Vec<(String, &Blob)> {
        let files: Vec<(&str, &Blob)> = self
            .input
            .iter()
            .filter_map(|n| match n {
                Node::File { path, content } => Some((path.as_str(), content)),
                _ => None,
            })
            .collect();
        let mut v: Vec<(String, &Blob)> = files
            .iter()
            .filter(|(p, _)| p.ends_with(".pyxis"))
            .map(|(p, b)| (p.to_string(), *b))
            .collect();
        for n in &self.input {
            let Node::Symlink { path, target } = n else {
                continue;
            };
            // Resolve the target relative to the directory of the link, inside the tree only.
            let mut parts: Vec<&str> = path.split('/').collect();
            parts.pop();
            let mut escaped = target.starts_with('/');
            for c in target.split('/') {
                match c {
                    "" | "." => {}
                    ".." => {
                        if parts.pop().is_none() {
                            escaped = true;
                        }
                    }
                    c => parts.push(c),
                }
            }
            if escaped {
                continue;
            }
            let resolved = parts.join("/");
            for (p, b) in &files {
                if *p == resolved {
                    if path.ends_with(".pyxis") {
                        v.push((path.clone(), *b));
                    }
                } else if let Some(rest) = p.strip_prefix(&format!("{resolved}/")) {
                    if p.ends_with(".pyxis") && !resolved.is_empty() {
                        v.push((format!("{path}/{rest}"), *b));
                    }
                }
            }
        }
        v.sort();
        v.dedup_by(|a, b| a.0 == b.0);
        v
    }

    pub fn input_bytes(&self) -> usize {
        self.module_files().iter().map(|(_, b)| b.0.len()).sum()
    }

    pub fn digest(&self) -> u64 {
        crate::rng::hash_bytes(7, serde_json::to_string(self).unwrap().as_bytes())
    }
}

// ---------------------------------------------------------------------------------------------
// Entry points and builds

#[derive(Clone, Debug, PartialEq, Eq, Serialize, Deserialize)]
pub enum ApiOp {
    /// `add_file(base, base/<module file k>)`
    AddFile(usize),
    /// `parse_str` + `add_module(module, ItemPath::from_path(<rel path of file k>))`
    AddStr(usize),
    /// `parse_str(file k)` + `add_module(module, <this path string split at "::">)`
    AddStrAt(usize, String),
    /// `add_file(base, <path outside base>)`: the module file k copied to a sibling directory.
    AddFileOutside(usize),
    /// `add_item` with a hand-made, already resolved item at `path` (split at "::").
    AddItem {
        path: String,
        size: usize,
        alignment: usize,
    },
}

#[derive(Clone, Debug, PartialEq, Eq, Serialize, Deserialize)]
pub enum Entry {
    /// The real `pyxis::build(in_dir, out_dir, pointer_size)`.
    LibBuild,
    /// The same steps through the public API with the module addition order chosen by the
    /// scheduler: `add_file` per module, `build()`, `write_module` per module.
    DriverFile { add: OrderSpec },
    /// As `DriverFile` but parsing with `parser::parse_str` and adding with `add_module`.
    DriverStr { add: OrderSpec },
    /// An explicit API call history followed by `build()` and the writes.
    DriverOps { ops: Vec<ApiOp> },
}

#[derive(Clone, Debug, PartialEq, Eq, Serialize, Deserialize)]
pub struct BuildSpec {
    pub world: usize,
    pub entry: Entry,
    pub sched: SchedSpec,
    /// How many times the build is repeated on the same thread (each on a fresh output tree).
    pub repeat: u32,
}

#[derive(Clone, Debug, PartialEq, Eq)]
pub enum Snap {
    File(Vec<u8>),
    Dir,
    Other,
}

#[derive(Clone, Debug, PartialEq, Eq)]
pub enum Outcome {
    Ok,
    Err(String),
    Panic { message: String, location: String },
    StepBudget,
}
impl Outcome {
    pub fn class(&self) -> &'static str {
        match self {
            Outcome::Ok => "ok",
            Outcome::Err(_) => "err",
            Outcome::Panic { .. } => "panic",
            Outcome::StepBudget => "step_budget",
        }
    }
    pub fn succeeded(&self) -> bool {
        matches!(self, Outcome::Ok)
    }
    pub fn brief(&self) -> String {
        match self {
            Outcome::Ok => "Ok".into(),
            Outcome::Err(e) => format!("Err({})", truncate(e, 300)),
            Outcome::Panic { message, location } => {
                format!("Panic({} at {})", truncate(message, 200), location)
            }
            Outcome::StepBudget => "StepBudget".into(),
        }
    }
}

pub fn truncate(s: &str, n: usize) -> String {
    if s.len() <= n {
        s.to_string()
    } else {
        let mut end = n;
        while !s.is_char_boundary(end) {
            end -= 1;
        }
        format!("{}…", &s[..end])
    }
}

pub struct RunResult {
    pub outcome: Outcome,
    /// Output tree before the build (relative path -> node).
    pub before: BTreeMap<String, Snap>,
    /// Output tree after the build.
    pub after: BTreeMap<String, Snap>,
    pub trace: Trace,
    /// Available for the driver entries when the build succeeded.
    pub resolved: Option<ResolvedSemanticState>,
    pub peak_alloc: usize,
    /// Paths of the run's scratch tree *outside* the output directory (the input tree, siblings
    /// of the output directory) that appeared, disappeared or changed during the build.
    pub elsewhere: Vec<String>,
}

impl RunResult {
    /// The regular files of the output tree after the build.
    pub fn files(&self) -> BTreeMap<&str, &[u8]> {
        self.after
            .iter()
            .filter_map(|(k, v)| match v {
                Snap::File(b) => Some((k.as_str(), b.as_slice())),
                _ => None,
            })
            .collect()
    }
}

// ---------------------------------------------------------------------------------------------
// Panic capture

thread_local! {
    static LAST_PANIC: RefCell<Option<(String, String)>> = const { RefCell::new(None) };
}

pub fn install_panic_hook() {
    std::panic::set_hook(Box::new(|info| {
        let message = if let Some(s) = info.payload().downcast_ref::<&str>() {
            s.to_string()
        } else if let Some(s) = info.payload().downcast_ref::<String>() {
            s.clone()
        } else {
            "<non-string panic payload>".to_string()
        };
        let location = info
            .location()
            .map(|l| format!("{}:{}", l.file(), l.line()))
            .unwrap_or_default();
        LAST_PANIC.with(|p| *p.borrow_mut() = Some((message, location)));
    }));
}

// ---------------------------------------------------------------------------------------------
// Scratch tree

pub struct Scratch {
    root: PathBuf,
    counter: u64,
}

impl Scratch {
    pub fn new() -> Scratch {
        // (fixed-width names: how long the scratch path is decides where an over-long world path
        // stops being reachable, and that must not depend on the process id or a counter)
        let root = PathBuf::from(format!("/dev/shm/pyxis-sim.{:010}", std::process::id()));
        let _ = std::fs::remove_dir_all(&root);
        std::fs::create_dir_all(&root).expect("create scratch root");
        Scratch { root, counter: 0 }
    }
    pub fn for_thread(tag: u64) -> Scratch {
        let root = PathBuf::from(format!(
            "/dev/shm/pyxis-sim.{:010}/t{:020}",
            std::process::id(),
            tag
        ));
        let _ = std::fs::remove_dir_all(&root);
        std::fs::create_dir_all(&root).expect("create scratch root");
        Scratch { root, counter: 0 }
    }
    fn fresh(&mut self) -> PathBuf {
        self.counter += 1;
        let p = self.root.join(format!("r{:012}", self.counter));
        let _ = std::fs::remove_dir_all(&p);
        std::fs::create_dir_all(&p).expect("create scratch dir");
        p
    }
}
impl Drop for Scratch {
    fn drop(&mut self) {
        let _ = std::fs::remove_dir_all(&self.root);
    }
}

/// World paths are strings; `%XX` with XX >= 80 (hex) stands for that raw byte, so that file
/// names that are not valid UTF-8 can be written down.
pub fn real_path(escaped: &str) -> std::path::PathBuf {
    use std::os::unix::ffi::OsStringExt;
    let b = escaped.as_bytes();
    let mut out = Vec::with_capacity(b.len());
    let mut i = 0;
    while i < b.len() {
        if b[i] == b'%' && i + 3 <= b.len() {
            let hex = |c: u8| (c as char).to_digit(16).map(|d| d as u8);
            if let (Some(hi), Some(lo)) = (hex(b[i + 1]), hex(b[i + 2])) {
                let v = hi * 16 + lo;
                if v >= 0x80 {
                    out.push(v);
                    i += 3;
                    continue;
                }
            }
        }
        out.push(b[i]);
        i += 1;
    }
    std::ffi::OsString::from_vec(out).into()
}

/// The inverse: a path as a string, bytes that are not UTF-8 written as `%XX`.
pub fn escaped_path(p: &Path) -> String {
    use std::os::unix::ffi::OsStrExt;
    let bytes = p.as_os_str().as_bytes();
    match std::str::from_utf8(bytes) {
        Ok(s) => s.to_string(),
        Err(_) => {
            let mut out = String::new();
            let mut rest = bytes;
            while !rest.is_empty() {
                match std::str::from_utf8(rest) {
                    Ok(s) => {
                        out.push_str(s);
                        break;
                    }
                    Err(e) => {
                        let (good, bad) = rest.split_at(e.valid_up_to());
                        out.push_str(std::str::from_utf8(good).unwrap_or(""));
                        out.push_str(&format!("%{:02X}", bad[0]));
                        rest = &bad[1..];
                    }
                }
            }
            out
        }
    }
}

/// Creates `rel` (a file with `content`, or a directory when `content` is `None`) below `base`
/// one component at a time with `mkdirat`/`openat`, so that the full path may be longer than
/// PATH_MAX — which is how a directory comes to exist that `canonicalize`/`read_dir` by path
/// cannot reach.
fn create_deep(base: &Path, rel: &Path, content: Option<&[u8]>) {
    use std::os::unix::ffi::OsStrExt;
    let c = |b: &[u8]| std::ffi::CString::new(b.to_vec()).ok();
    let Some(base_c) = c(base.as_os_str().as_bytes()) else { return };
    unsafe {
        let mut fd = libc::open(base_c.as_ptr(), libc::O_RDONLY | libc::O_DIRECTORY);
        if fd < 0 {
            return;
        }
        let comps: Vec<&std::ffi::OsStr> = rel.iter().collect();
        for (k, comp) in comps.iter().enumerate() {
            let Some(name) = c(comp.as_bytes()) else { break };
            let last = k + 1 == comps.len();
            if last && content.is_some() {
                let f = libc::openat(fd, name.as_ptr(), libc::O_WRONLY | libc::O_CREAT | libc::O_TRUNC, 0o644);
                if f >= 0 {
                    let data = content.unwrap();
                    let mut off = 0;
                    while off < data.len() {
                        let n = libc::write(f, data[off..].as_ptr() as *const libc::c_void, data.len() - off);
                        if n <= 0 {
                            break;
                        }
                        off += n as usize;
                    }
                    libc::close(f);
                }
                break;
            }
            libc::mkdirat(fd, name.as_ptr(), 0o755);
            let next = libc::openat(fd, name.as_ptr(), libc::O_RDONLY | libc::O_DIRECTORY);
            libc::close(fd);
            fd = next;
            if fd < 0 {
                return;
            }
        }
        libc::close(fd);
    }
}

fn materialise(base: &Path, nodes: &[Node]) {
    // Directories and files first, symlinks last; parents are created on demand.
    for node in nodes {
        let rel = real_path(node.path());
        if base.as_os_str().len() + rel.as_os_str().len() > 3500 {
            match node {
                Node::File { content, .. } => create_deep(base, &rel, Some(&content.0)),
                Node::Dir { .. } => create_deep(base, &rel, None),
                Node::Symlink { .. } => {}
            }
            continue;
        }
        let p = base.join(rel);
        if let Some(parent) = p.parent() {
            let _ = std::fs::create_dir_all(parent);
        }
        match node {
            Node::File { content, .. } => {
                let _ = std::fs::write(&p, &content.0);
            }
            Node::Dir { .. } => {
                let _ = std::fs::create_dir_all(&p);
            }
            Node::Symlink { target, .. } => {
                let _ = std::os::unix::fs::symlink(target, &p);
            }
        }
    }
}

pub fn snapshot(dir: &Path) -> BTreeMap<String, Snap> {
    fn walk(base: &Path, dir: &Path, out: &mut BTreeMap<String, Snap>) {
        let Ok(rd) = std::fs::read_dir(dir) else {
            return;
        };
        for e in rd.flatten() {
            let p = e.path();
            let rel = escaped_path(p.strip_prefix(base).unwrap());
            let Ok(ft) = e.file_type() else { continue };
            if ft.is_dir() {
                out.insert(rel, Snap::Dir);
                walk(base, &p, out);
            } else if ft.is_file() {
                out.insert(rel, Snap::File(std::fs::read(&p).unwrap_or_default()));
            } else {
                out.insert(rel, Snap::Other);
            }
        }
    }
    let mut out = BTreeMap::new();
    if dir.is_file() {
        out.insert(
            String::new(),
            Snap::File(std::fs::read(dir).unwrap_or_default()),
        );
    } else {
        walk(dir, dir, &mut out);
    }
    out
}

/// Snapshot of `dir` without the subtree `excluded` (paths relative to `dir`).
pub fn snapshot_excluding(dir: &Path, excluded: &Path) -> BTreeMap<String, Snap> {
    let ex = excluded
        .strip_prefix(dir)
        .map(|p| p.to_string_lossy().into_owned())
        .unwrap_or_default();
    snapshot(dir)
        .into_iter()
        .filter(|(k, _)| !(k == &ex || k.starts_with(&format!("{ex}/"))))
        .collect()
}

// ---------------------------------------------------------------------------------------------
// Execution

fn item_path_from_str(s: &str) -> ItemPath {
    if s.is_empty() {
        ItemPath::empty()
    } else {
        ItemPath::from(s)
    }
}

fn add_str(
    state: &mut SemanticState,
    rel: &str,
    content: &Blob,
    at: Option<&str>,
) -> anyhow::Result<()> {
    let text = std::str::from_utf8(&content.0)
        .map_err(|e| anyhow::anyhow!("stream did not contain valid UTF-8: {e}"))?;
    let module = pyxis::parser::parse_str(text).map_err(|e| {
        let lc = e.span().start();
        anyhow::Error::new(e).context(format!(
            "failed to parse {}:{}:{}",
            rel,
            lc.line,
            lc.column + 1
        ))
    })?;
    let path = match at {
        Some(p) => item_path_from_str(p),
        None => ItemPath::from_path(Path::new(rel)),
    };
    state.add_module(&module, &path)
}

fn drive(
    world: &World,
    entry: &Entry,
    in_path: &Path,
    out_path: &Path,
    scratch_dir: &Path,
) -> anyhow::Result<Option<ResolvedSemanticState>> {
    let files = world.module_files();
    let ops: Vec<ApiOp> = match entry {
        Entry::LibBuild => {
            let arg = format!("{}{}", in_path.display(), world.in_arg_suffix);
            pyxis::build(Path::new(&arg), out_path, world.pointer_size)?;
            return Ok(None);
        }
        Entry::DriverFile { add } | Entry::DriverStr { add } => {
            let keys: Vec<String> = files.iter().map(|(p, _)| p.to_string()).collect();
            add.order(&keys)
                .into_iter()
                .map(|i| {
                    if matches!(entry, Entry::DriverFile { .. }) {
                        ApiOp::AddFile(i)
                    } else {
                        ApiOp::AddStr(i)
                    }
                })
                .collect()
        }
        Entry::DriverOps { ops } => ops.clone(),
    };

    let mut state = SemanticState::new(world.pointer_size);
    for op in &ops {
        match op {
            ApiOp::AddFile(i) => {
                let Some((rel, _)) = files.get(*i) else { continue };
                state.add_file(in_path, &in_path.join(real_path(rel)))?;
            }
            ApiOp::AddStr(i) => {
                let Some((rel, content)) = files.get(*i) else { continue };
                add_str(&mut state, rel, content, None)?;
            }
            ApiOp::AddStrAt(i, at) => {
                let Some((rel, content)) = files.get(*i) else { continue };
                add_str(&mut state, rel, content, Some(at))?;
            }
            ApiOp::AddItem {
                path,
                size,
                alignment,
            } => {
                use pyxis::semantic::types::{
                    ItemCategory, ItemDefinition, ItemState, ItemStateResolved, TypeDefinition,
                    Visibility,
                };
                state.add_item(ItemDefinition {
                    visibility: Visibility::Public,
                    path: item_path_from_str(path),
                    state: ItemState::Resolved(ItemStateResolved {
                        size: *size,
                        alignment: *alignment,
                        inner: TypeDefinition::default().into(),
                    }),
                    category: ItemCategory::Defined,
                })?;
            }
            ApiOp::AddFileOutside(i) => {
                let Some((rel, content)) = files.get(*i) else { continue };
                let outside = scratch_dir.join("outside");
                let p = outside.join(Path::new(rel).file_name().unwrap_or_default());
                std::fs::create_dir_all(&outside)?;
                std::fs::write(&p, &content.0)?;
                // An absolute path that is not under base.
                state.add_file(in_path, &p)?;
            }
        }
    }
    let resolved = state.build()?;
    // Module write order: the driver is outside pyxis, so it asks the scheduler itself through
    // the same wrapper lib.rs uses.
    let ordered = pyxis::verif::Ordered(resolved);
    for (key, module) in ordered.modules() {
        pyxis::backends::rust::write_module(out_path, key, &ordered, module)?;
    }
    Ok(Some(ordered.0))
}

/// Sets the soft RLIMIT_FSIZE (None: back to the hard limit); returns the previous soft limit.
/// SIGXFSZ is ignored process-wide (see `main`), so a write beyond the limit returns EFBIG.
fn set_file_size_limit(limit: Option<u64>) -> Option<u64> {
    unsafe {
        let mut old = libc::rlimit { rlim_cur: 0, rlim_max: 0 };
        if libc::getrlimit(libc::RLIMIT_FSIZE, &mut old) != 0 {
            return None;
        }
        let new = libc::rlimit {
            rlim_cur: limit.map(|l| l as libc::rlim_t).unwrap_or(old.rlim_max),
            rlim_max: old.rlim_max,
        };
        libc::setrlimit(libc::RLIMIT_FSIZE, &new);
        (old.rlim_cur != old.rlim_max).then_some(old.rlim_cur as u64)
    }
}

/// Executes one build `spec.repeat` times; returns one result per repetition.
pub fn run_build(scratch: &mut Scratch, world: &World, spec: &BuildSpec) -> Vec<RunResult> {
    run_build_with(scratch, world, spec, true)
}

/// As `run_build`; with `scheduled == false` no scheduler is installed, so every seam passes
/// the real hash order through (used only by the seam audit).
pub fn run_build_with(
    scratch: &mut Scratch,
    world: &World,
    spec: &BuildSpec,
    scheduled: bool,
) -> Vec<RunResult> {
    let mut results = Vec::new();
    for _rep in 0..spec.repeat.max(1) {
        let dir = scratch.fresh();
        let in_path = dir.join(&world.in_dir);
        let out_path = dir.join("out");
        let _ = std::fs::create_dir_all(&in_path);
        materialise(&in_path, &world.input);
        if world.out_is_file {
            let _ = std::fs::write(&out_path, b"not a directory");
        } else if world.out_exists {
            let _ = std::fs::create_dir_all(&out_path);
            materialise(&out_path, &world.pre_out);
        }
        let before = snapshot(&out_path);
        let elsewhere_before = snapshot_excluding(&dir, &out_path);

        let (scheduler, trace) = SimScheduler::new(spec.sched.clone());
        if scheduled {
            pyxis::verif::install(Box::new(scheduler));
        } else {
            pyxis::verif::uninstall();
        }
        LAST_PANIC.with(|p| *p.borrow_mut() = None);
        crate::alloc::reset_peak();
        let unlimited = set_file_size_limit(world.write_limit);
        let r = std::panic::catch_unwind(std::panic::AssertUnwindSafe(|| {
            drive(world, &spec.entry, &in_path, &out_path, &dir)
        }));
        if world.write_limit.is_some() {
            set_file_size_limit(unlimited);
        }
        let peak_alloc = crate::alloc::peak();
        pyxis::verif::uninstall();

        // Scratch paths carry the process id and a counter; they are replaced so that the
        // recorded outcome (and with it the event log) is the same in every process.
        let scrub = |s: String| s.replace(&dir.to_string_lossy().into_owned(), "<scratch>");
        let (outcome, resolved) = match r {
            Ok(Ok(resolved)) => (Outcome::Ok, resolved),
            Ok(Err(e)) => (Outcome::Err(scrub(format!("{e:#}"))), None),
            Err(_) => {
                let (message, location) = LAST_PANIC
                    .with(|p| p.borrow_mut().take())
                    .unwrap_or_default();
                if message.contains(STEP_BUDGET_PANIC) {
                    (Outcome::StepBudget, None)
                } else {
                    (
                        Outcome::Panic {
                            message: scrub(message),
                            location,
                        },
                        None,
                    )
                }
            }
        };
        let after = snapshot(&out_path);
        let elsewhere_after = snapshot_excluding(&dir, &out_path);
        let mut elsewhere: Vec<String> = elsewhere_before
            .iter()
            .filter(|(k, v)| elsewhere_after.get(*k) != Some(v))
            .map(|(k, _)| k.clone())
            .chain(
                elsewhere_after
                    .keys()
                    .filter(|k| !elsewhere_before.contains_key(*k))
                    .cloned(),
            )
            .collect();
        elsewhere.sort();
        let trace = trace.borrow().clone();
        let _ = std::fs::remove_dir_all(&dir);
        results.push(RunResult {
            outcome,
            before,
            after,
            trace,
            resolved,
            peak_alloc,
            elsewhere,
        });
    }
    results
}
