//! Reference model of a world, computed from the abstract modules that pyxis's own parser
//! produces for the world's files. It knows the *documented* rules only: the scoping rules of
//! C11, which positions embed by value, and what every module declares. It never looks at how
//! pyxis resolves anything.

use std::collections::{BTreeMap, BTreeSet};

use pyxis::grammar::{self, ItemDefinitionInner, ItemPath, TypeField};

use crate::run::World;

pub const BUILTINS: [&str; 14] = [
    "void", "bool", "u8", "u16", "u32", "u64", "u128", "i8", "i16", "i32", "i64", "i128", "f32",
    "f64",
];

pub struct ParsedWorld {
    /// (relative file path, module path as pyxis derives it, parsed module)
    pub modules: Vec<(String, ItemPath, grammar::Module)>,
}

/// pyxis's parser, called from harness code (generators, oracles): a panic in it must not take
/// the harness down — the build of the same text will hit it too and is where it is reported.
pub fn safe_parse(text: &str) -> Result<grammar::Module, String> {
    match std::panic::catch_unwind(|| pyxis::parser::parse_str(text)) {
        Ok(Ok(m)) => Ok(m),
        Ok(Err(e)) => Err(e.to_string()),
        Err(_) => Err("the parser panicked".to_string()),
    }
}

/// Where pyxis's parser says the first error of `text` is: (line, column + 1), the form in which
/// `add_file` reports it. `None` when the text parses (or the parser panics).
pub fn parse_error_position(text: &str) -> Option<(usize, usize, String)> {
    parse_error_span(text).map(|(l, c, m, _)| (l, c, m))
}

/// As `parse_error_position`, with a flag telling whether the parser could point at a token
/// (`false` for an error about the end of the input, whose span is empty).
pub fn parse_error_span(text: &str) -> Option<(usize, usize, String, bool)> {
    match std::panic::catch_unwind(|| pyxis::parser::parse_str(text)) {
        Ok(Err(e)) => {
            let lc = e.span().start();
            let at_token = e.span().start() != e.span().end();
            Some((lc.line, lc.column + 1, e.to_string(), at_token))
        }
        _ => None,
    }
}

pub fn parse_world(world: &World) -> Result<ParsedWorld, String> {
    let mut modules = vec![];
    for (rel, blob) in world.module_files() {
        let text = std::str::from_utf8(&blob.0).map_err(|e| format!("{rel}: {e}"))?;
        let m = safe_parse(text).map_err(|e| format!("{rel}: {e}"))?;
        modules.push((
            rel.to_string(),
            ItemPath::from_path(std::path::Path::new(&rel)),
            m,
        ));
    }
    Ok(ParsedWorld { modules })
}

#[derive(Clone, Debug, PartialEq, Eq, PartialOrd, Ord)]
pub enum Position {
    Field,
    EnumBase,
    Parameter,
    ReturnType,
    ExternValue,
}

#[derive(Clone, Debug, PartialEq, Eq, PartialOrd, Ord)]
pub enum DeclKind {
    Type { has_vftable_block: bool },
    Enum,
    Extern,
}

#[derive(Clone, Debug)]
pub struct Decl {
    pub module: usize,
    pub name: String,
    pub kind: DeclKind,
    /// Full paths of the items embedded by value (fields through arrays, bases, enum base).
    pub by_value: BTreeSet<String>,
    /// Names in field types / the enum base that resolve to nothing.
    pub undefined_in_fields: Vec<String>,
}

#[derive(Clone, Debug)]
pub struct Undefined {
    pub position: Position,
    pub owner: String,
    pub name: String,
}

pub struct Model {
    /// Full item path -> declaration. Later duplicates are recorded in `duplicates`.
    pub decls: BTreeMap<String, Decl>,
    pub duplicates: Vec<String>,
    pub undefined: Vec<Undefined>,
    /// Items that can never be resolved (least fixed point, see `build`).
    pub unresolvable: BTreeSet<String>,
    /// Module path strings, in file order.
    pub module_paths: Vec<String>,
    /// `impl` blocks for something that is not a type declared in the same module (an enum, an
    /// extern type, an imported or generated type, a name declared nowhere): their functions
    /// belong to nothing, so an accepted build would have dropped them.
    pub orphan_impls: Vec<String>,
}

fn join(module: &ItemPath, name: &str) -> String {
    // `r#Foo` and `Foo` name the same item.
    module.join(crate::inventory::plain_ident(name).as_str().into()).to_string()
}

struct Scope<'a> {
    own: &'a ItemPath,
    uses: &'a [ItemPath],
}

/// C11: type import (last one wins) > built-in > own module > module imports in order.
fn resolve(defined: &BTreeSet<String>, scope: &Scope, name: &str) -> Option<String> {
    for u in scope.uses.iter().rev() {
        if defined.contains(&u.to_string()) && u.last().map(|s| s.as_str()) == Some(name) {
            return Some(u.to_string());
        }
    }
    if BUILTINS.contains(&name) {
        return Some(name.to_string());
    }
    let own = join(scope.own, name);
    if defined.contains(&own) {
        return Some(own);
    }
    for u in scope.uses {
        if defined.contains(&u.to_string()) {
            continue;
        }
        let p = join(u, name);
        if defined.contains(&p) {
            return Some(p);
        }
    }
    None
}

impl Model {
    pub fn build(world: &ParsedWorld) -> Model {
        // Pass 1: everything that is declared, anywhere.
        let mut decls: BTreeMap<String, Decl> = BTreeMap::new();
        let mut duplicates = vec![];
        let mut generated: BTreeSet<String> = BTreeSet::new();
        for (mi, (_, mpath, m)) in world.modules.iter().enumerate() {
            for d in &m.definitions {
                let full = join(mpath, d.name.as_str());
                let kind = match &d.inner {
                    ItemDefinitionInner::Type(t) => DeclKind::Type {
                        has_vftable_block: t.statements.iter().any(|s| s.field.is_vftable()),
                    },
                    ItemDefinitionInner::Enum(_) => DeclKind::Enum,
                };
                if let DeclKind::Type {
                    has_vftable_block: true,
                } = kind
                {
                    generated.insert(join(mpath, &crate::inventory::vftable_name(d.name.as_str())));
                }
                let decl = Decl {
                    module: mi,
                    name: d.name.as_str().to_string(),
                    kind,
                    by_value: BTreeSet::new(),
                    undefined_in_fields: vec![],
                };
                if decls.insert(full.clone(), decl).is_some() {
                    duplicates.push(full);
                }
            }
            for (name, _) in &m.extern_types {
                let full = join(mpath, name.as_str());
                let decl = Decl {
                    module: mi,
                    name: name.as_str().to_string(),
                    kind: DeclKind::Extern,
                    by_value: BTreeSet::new(),
                    undefined_in_fields: vec![],
                };
                if decls.insert(full.clone(), decl).is_some() {
                    duplicates.push(full);
                }
            }
        }
        for g in &generated {
            if decls.contains_key(g) {
                duplicates.push(g.clone());
            }
        }
        let mut defined: BTreeSet<String> = decls.keys().cloned().collect();
        defined.extend(generated.iter().cloned());

        // Pass 2: references.
        let mut undefined = vec![];
        let mut orphan_impls: Vec<String> = vec![];
        for (_, mpath, m) in world.modules.iter() {
            let scope = Scope {
                own: mpath,
                uses: &m.uses,
            };
            let mut note = |position: Position, owner: &str, name: &str| {
                undefined.push(Undefined {
                    position,
                    owner: owner.to_string(),
                    name: name.to_string(),
                });
            };
            fn walk(
                defined: &BTreeSet<String>,
                scope: &Scope,
                ty: &grammar::Type,
                by_value: bool,
                found: &mut dyn FnMut(Result<(String, bool), String>),
            ) {
                match ty {
                    grammar::Type::ConstPointer(t) | grammar::Type::MutPointer(t) => {
                        walk(defined, scope, t, false, found)
                    }
                    grammar::Type::Array(t, _) => walk(defined, scope, t, by_value, found),
                    grammar::Type::Ident(i) => match resolve(defined, scope, i.as_str()) {
                        Some(p) => found(Ok((p, by_value))),
                        None => found(Err(i.as_str().to_string())),
                    },
                    grammar::Type::Unknown(_) => {}
                }
            }
            let mut fn_refs = |owner: &str,
                               f: &grammar::Function,
                               note: &mut dyn FnMut(Position, &str, &str)| {
                for a in &f.arguments {
                    if let grammar::Argument::Named(_, t) = a {
                        walk(&defined, &scope, t, false, &mut |r| {
                            if let Err(n) = r {
                                note(Position::Parameter, owner, &n)
                            }
                        });
                    }
                }
                if let Some(t) = &f.return_type {
                    walk(&defined, &scope, t, false, &mut |r| {
                        if let Err(n) = r {
                            note(Position::ReturnType, owner, &n)
                        }
                    });
                }
            };
            for d in &m.definitions {
                let full = join(mpath, d.name.as_str());
                let mut by_value = BTreeSet::new();
                let mut undefined_in_fields = vec![];
                match &d.inner {
                    ItemDefinitionInner::Type(t) => {
                        for s in &t.statements {
                            match &s.field {
                                TypeField::Field(_, _, ty) => {
                                    walk(&defined, &scope, ty, true, &mut |r| match r {
                                        Ok((p, true)) => {
                                            by_value.insert(p);
                                        }
                                        Ok(_) => {}
                                        Err(n) => {
                                            undefined_in_fields.push(n.clone());
                                            note(Position::Field, &full, &n)
                                        }
                                    });
                                }
                                TypeField::Vftable(fs) => {
                                    for f in fs {
                                        fn_refs(&full, f, &mut note);
                                    }
                                }
                            }
                        }
                    }
                    ItemDefinitionInner::Enum(e) => {
                        walk(&defined, &scope, &e.type_, true, &mut |r| match r {
                            Ok((p, true)) => {
                                by_value.insert(p);
                            }
                            Ok(_) => {}
                            Err(n) => {
                                undefined_in_fields.push(n.clone());
                                note(Position::EnumBase, &full, &n)
                            }
                        });
                    }
                }
                // Only the surviving (last) declaration of a path keeps its edges.
                if let Some(decl) = decls.get_mut(&full) {
                    decl.by_value = by_value;
                    decl.undefined_in_fields = undefined_in_fields;
                }
            }
            for block in &m.impls {
                let full = join(mpath, block.name.as_str());
                if !block.functions.is_empty()
                    && !matches!(decls.get(&full).map(|d| &d.kind), Some(DeclKind::Type { .. }))
                {
                    orphan_impls.push(full.clone());
                }
                if !decls.contains_key(&full) {
                    continue;
                }
                for f in &block.functions {
                    fn_refs(&full, f, &mut note);
                }
            }
            for ev in &m.extern_values {
                walk(&defined, &scope, &ev.type_, false, &mut |r| {
                    if let Err(n) = r {
                        note(Position::ExternValue, ev.name.as_str(), &n)
                    }
                });
            }
        }

        // Pass 3: least fixed point of "can be resolved": all names in fields defined and every
        // by-value target resolvable. Built-ins, extern types and generated vftable structs are
        // resolvable by themselves. What is left over cannot be resolved (undefined names,
        // by-value cycles, and whatever embeds those).
        let mut resolvable: BTreeSet<String> = BTreeSet::new();
        for b in BUILTINS {
            resolvable.insert(b.to_string());
        }
        resolvable.extend(generated.iter().cloned());
        for (p, d) in &decls {
            if d.kind == DeclKind::Extern {
                resolvable.insert(p.clone());
            }
        }
        loop {
            let mut progressed = false;
            for (p, d) in &decls {
                if resolvable.contains(p) {
                    continue;
                }
                if d.undefined_in_fields.is_empty()
                    && d.by_value.iter().all(|t| resolvable.contains(t))
                {
                    resolvable.insert(p.clone());
                    progressed = true;
                }
            }
            if !progressed {
                break;
            }
        }
        let unresolvable = decls
            .keys()
            .filter(|p| !resolvable.contains(*p))
            .cloned()
            .collect();

        Model {
            decls,
            duplicates,
            undefined,
            unresolvable,
            module_paths: world.modules.iter().map(|(_, p, _)| p.to_string()).collect(),
            orphan_impls,
        }
    }

    pub fn expects_error(&self) -> bool {
        !self.undefined.is_empty() || !self.unresolvable.is_empty() || !self.orphan_impls.is_empty()
    }

    /// True when the only problems are undefined names in fields and by-value cycles, which is
    /// when the error must list exactly the unresolvable types.
    pub fn field_problems_only(&self) -> bool {
        self.undefined.iter().all(|u| u.position == Position::Field)
            && self.undefined.iter().any(|u| u.position == Position::Field)
    }
}
