//! Counting allocator: live and peak bytes, so that a run's memory can be bounded and reported.

use std::alloc::{GlobalAlloc, Layout, System};
use std::sync::atomic::{AtomicUsize, Ordering};

pub struct Counting;

static LIVE: AtomicUsize = AtomicUsize::new(0);
static PEAK: AtomicUsize = AtomicUsize::new(0);
static BASE: AtomicUsize = AtomicUsize::new(0);

unsafe impl GlobalAlloc for Counting {
    unsafe fn alloc(&self, layout: Layout) -> *mut u8 {
        let p = System.alloc(layout);
        if !p.is_null() {
            let live = LIVE.fetch_add(layout.size(), Ordering::Relaxed) + layout.size();
            PEAK.fetch_max(live, Ordering::Relaxed);
        }
        p
    }
    unsafe fn dealloc(&self, ptr: *mut u8, layout: Layout) {
        LIVE.fetch_sub(layout.size(), Ordering::Relaxed);
        System.dealloc(ptr, layout)
    }
    unsafe fn realloc(&self, ptr: *mut u8, layout: Layout, new_size: usize) -> *mut u8 {
        let p = System.realloc(ptr, layout, new_size);
        if !p.is_null() {
            if new_size >= layout.size() {
                let d = new_size - layout.size();
                let live = LIVE.fetch_add(d, Ordering::Relaxed) + d;
                PEAK.fetch_max(live, Ordering::Relaxed);
            } else {
                LIVE.fetch_sub(layout.size() - new_size, Ordering::Relaxed);
            }
        }
        p
    }
}

/// Starts a measurement: peak is reset to the current live size.
pub fn reset_peak() {
    let live = LIVE.load(Ordering::Relaxed);
    BASE.store(live, Ordering::Relaxed);
    PEAK.store(live, Ordering::Relaxed);
}

/// Peak bytes above the live size at the last `reset_peak`.
pub fn peak() -> usize {
    PEAK.load(Ordering::Relaxed)
        .saturating_sub(BASE.load(Ordering::Relaxed))
}
